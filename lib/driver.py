"""lib.driver -- the per-property check: deductive tasks (pyvc) + bounded stand-in (bcheck) -> verdict, evidence, replay."""
import fnmatch, glob, json, os, re, subprocess, sys, tempfile, time

VERIF = os.path.dirname(os.path.dirname(os.path.abspath(__file__)))
PY_NATIVE = '/venv/bin/python'


def repo_root():
    return os.environ.get('VERIF_REPO', '/repo')


def load_manifest():
    with open(os.path.join(VERIF, 'MANIFEST.json')) as f:
        return json.load(f)


def load_findings():
    p = os.path.join(VERIF, 'known_findings.json')
    if not os.path.exists(p):
        return {'findings': [], 'fixed': []}
    with open(p) as f:
        return json.load(f)


def base_name(ob):
    return re.sub(r' \[path \d+\]$', '', ob)


def norm_name(ob):
    """obligation name without path index and source line numbers (stable under harmless edits)"""
    n = base_name(ob)
    n = re.sub(r'\bline \d+', 'line N', n)
    return re.sub(r':\d+\b', ':N', n)


EXPECTED_DIR = os.path.join(VERIF, 'contracts', 'expected')
EXPECTED_KINDS = ('post', 'inv-entry', 'inv-step', 'lemma', 'zip', 'typestate')


def load_expected(prop):
    p = os.path.join(EXPECTED_DIR, prop + '.json')
    return json.load(open(p)) if os.path.exists(p) else {}


def contract_modules():
    return sorted(glob.glob(os.path.join(VERIF, 'contracts', 'c*.py')))


# Modular verification: a property proved over the CONTRACT of a callee holds only if that contract is discharged too.
# DEPENDS lists, per property, the tasks (name patterns) that discharge the contracts its own tasks assume, so that a change
# breaking the callee (e.g. Comparable, the sort) is reported by every property that is carried by it.
DEPENDS = {
    'C05': ['C04.ladder', 'C04.lex'],
    'C06': ['C04.ladder', 'C04.lex', 'C05.*', 'C12.iterstack*', 'C12.asindices*'],
    'C07': ['C12.asindices*'],
    'C08': ['C04.ladder', 'C04.lex', 'C05.*', 'C11.wiring.complement', 'C11.wiring.intersection', 'C11.wiring.diff'],
    'C09': ['C04.ladder', 'C04.lex', 'C05.*', 'C11.wiring.aggregate', 'C11.wiring.rowreduce', 'C11.wiring.fold', 'C11.wiring.groupselect*',
            'C11.wiring.mergeduplicates', 'C11.wiring.rowgroupmap'],
    'C10': ['C04.ladder', 'C04.lex', 'C05.*', 'C11.wiring.duplicates', 'C11.wiring.unique', 'C11.wiring.distinct', 'C11.wiring.conflicts'],
    'C11': ['C04.ladder', 'C04.lex', 'C08.itercomplement.merge*', 'C08.iterintersection.merge'],
    'C13': ['C04.ladder', 'C04.lex'],
    'C14': ['C12.asindices*', 'C11.wiring.pivot'],
}


def assume_scan(prop):
    """mechanical scan: how many `ctx.assume(` / `ctx.facts.append(` sites (preconditions, ghost-function axioms, trusted library
    contracts) the contract modules of this property contain -- every one is an assumption, listed by the task that uses it"""
    out = {}
    for p in sorted(set(p for p, _ in tasks_for(prop))):
        src = open(p).read()
        out[os.path.relpath(p, VERIF)] = {'assume': src.count('ctx.assume('), 'facts.append': src.count('.facts.append(') + src.count('.facts.extend('),
                                          'summaries (callee contracts)': src.count('it.summaries[') + src.count('summaries.update(')}
    return out


def tasks_for(prop):
    """(module path, task name) of every pyvc task registered for the property, plus the tasks discharging contracts they assume"""
    from pyvc import run as prun
    out = []
    pats = DEPENDS.get(prop, [])
    for p in contract_modules():
        for t in prun.load(p):
            if prop in t.props or any(fnmatch.fnmatchcase(t.name, pat) for pat in pats):
                out.append((p, t))
    return out


def run_deductive(prop, tier):
    from pyvc import run as prun
    sel = tasks_for(prop)
    if not sel:
        return []
    if tier != 'thorough':
        sel = [(p, t) for p, t in sel if t.kind != 'shape-thorough']
    paths = sorted(set(p for p, _ in sel))
    names = [t.name for _, t in sel]
    return prun.run_modules(paths, root=repo_root(), both=(tier == 'thorough'), only=names)


def run_bounded(prop, tier, seed, extra_args=()):
    mod = os.path.join(VERIF, 'bcheck', prop.lower() + '.py')
    if not os.path.exists(mod):
        return None
    fd, out = tempfile.mkstemp(suffix='.json', prefix='bcheck_')
    os.close(fd)
    env = dict(os.environ)
    env['PYTHONPATH'] = VERIF + os.pathsep + repo_root()
    env['PYTHONDONTWRITEBYTECODE'] = '1'
    env.pop('PYTHONHASHSEED', None)
    try:
        p = subprocess.run([PY_NATIVE, '-m', 'bcheck.main', prop, '--tier', tier, '--seed', str(seed), '--json', out] + list(extra_args),
                           cwd=repo_root(), env=env, capture_output=True, text=True)
        try:
            with open(out) as f:
                rep = json.load(f)
        except Exception:
            rep = {'fault': 'bcheck produced no report (exit %s): %s' % (p.returncode, (p.stderr or p.stdout)[-2000:])}
        rep['stderr_tail'] = (p.stderr or '')[-1500:]
        return rep
    finally:
        if os.path.exists(out):
            os.unlink(out)


def match_finding(findings, prop, obligation=None, bkey=None):
    for f in findings.get('findings', []):
        if prop not in f.get('properties', [f.get('property')]):
            continue
        m = f.get('match', {})
        if obligation is not None and any(fnmatch.fnmatchcase(obligation, pat) for pat in m.get('obligations', [])):
            return f
        if bkey is not None and any(fnmatch.fnmatchcase(bkey, pat) for pat in m.get('bounded', [])):
            return f
    return None


def write_replay(prop, n, payload):
    d = os.path.join(VERIF, 'out', 'replay' if 'VERIF_REPO' not in os.environ else 'replay-other-tree', prop)
    os.makedirs(d, exist_ok=True)
    path = os.path.join(d, 'violation-%d.json' % n)
    with open(path, 'w') as f:
        json.dump(payload, f, indent=1, default=str)
    return path


def main(argv):
    import argparse
    ap = argparse.ArgumentParser()
    ap.add_argument('prop')
    ap.add_argument('--tier', default=os.environ.get('VERIF_TIER', 'quick'))
    ap.add_argument('--replay')
    ap.add_argument('--no-bounded', action='store_true')
    ap.add_argument('--no-deductive', action='store_true')
    a = ap.parse_args(argv)
    prop, tier = a.prop, a.tier if a.tier in ('quick', 'thorough') else 'quick'
    try:
        seed = int(os.environ.get('VERIF_SEED', '0'))
    except ValueError:
        seed = 0
    if a.replay:
        return replay(prop, a.replay)
    t0 = time.time()
    manifest = load_manifest()
    entry = next((c for c in manifest['checks'] if c['property_id'] == prop), None)
    level = entry['level_claimed']['category'] if entry else 'exploration'
    findings = load_findings()

    ded = [] if a.no_deductive else run_deductive(prop, tier)
    bnd = None if a.no_bounded else run_bounded(prop, tier, seed)
    ediff = None
    if ded and not a.no_deductive and os.environ.get('VERIF_NO_ENGINE_DIFF') != '1':
        # self-test of the verifier's Python model on this tree: pyvc interpreter vs CPython on concrete inputs (tools/engine_diff.py)
        try:
            out = os.path.join(VERIF, 'out', 'engine_diff_%s_%d.json' % (prop, os.getpid()))
            p = subprocess.run([os.path.join(VERIF, 'tools', 'engine_diff.py'), '--root', repo_root(), '--seed', str(seed),
                                '--cases', '25' if tier == 'thorough' else '5', '--json', out], capture_output=True, text=True, timeout=1800, cwd=VERIF)
            ediff = json.load(open(out))
            os.remove(out)
        except Exception as e:
            ediff = {'error': str(e)[:300]}

    violations, known, undecided, faults = [], [], [], []
    obligations = discharged = 0
    by_backend, solver_s = {}, 0.0
    cross = {}
    functions, assumptions, samples_ob, lemmas, canaries = {}, [], [], 0, 0
    refuted, lost = [], []
    expected = load_expected(prop)
    for rep in ded:
        if rep.get('fault'):
            faults.append('%s: %s' % (rep['task'], rep['unsupported']))
            continue
        if rep['unsupported']:
            undecided.append('%s: left the supported subset / binding lost: %s' % (rep['task'], rep['unsupported']))
        for q, hsh in rep['hashes'].items():
            functions.setdefault(q, {'sha256_16': hsh, 'tasks': []})['tasks'].append(rep['task'])
        for s in rep.get('assumptions', []):
            if s not in assumptions:
                assumptions.append(s)
        for o in rep['results']:
            key = '%s::%s' % (rep['task'], base_name(o['obligation']))
            solver_s += o['seconds']
            if o['kind'] == 'canary':
                canaries += 1
                if o['status'] == 'canary-verified':
                    faults.append('canary verified (contradictory hypotheses?): ' + key)
                continue
            if rep['kind'] in ('shape', 'shape-thorough'):
                # symbolic execution at a fixed finite shape: bounded, reported separately, never "discharged"
                if o['status'] == 'sat':
                    kf = match_finding(findings, prop, obligation=key)
                    (known if kf else refuted).append((key, o, kf, rep))
                continue
            kf = match_finding(findings, prop, obligation=key)
            if kf is not None:
                if o['status'] == 'sat':
                    known.append((key, o, kf, rep))
                elif o['status'] == 'unsat':
                    faults.append('obligation listed as a known finding is now discharged (stale known_findings.json?): ' + key)
                continue
            obligations += 1
            if o['status'] == 'unsat':
                discharged += 1
                by_backend[o['backend']] = by_backend.get(o['backend'], 0) + 1
                if str(o.get('detail', '')).startswith('cvc5:'):
                    cross[o['detail']] = cross.get(o['detail'], 0) + 1
                if len(samples_ob) < 6 and o['kind'] != 'lemma':
                    samples_ob.append({'obligation': key, 'backend': o['backend'], 'seconds': o['seconds'], 'where': o['where']})
            elif o['status'] == 'sat':
                refuted.append((key, o, None, rep))
            elif o['status'] == 'disagree':
                faults.append('solver disagreement on ' + key)
            elif norm_name(o['obligation']) in expected.get(rep['task'], ()) and not rep['unsupported']:
                # an obligation the verifier discharges on the pinned tree and no longer accepts: the named obligation fails
                lost.append((key, o, rep))
            else:
                undecided.append('%s: %s (%s)' % (key, o['status'], o['detail']))
    # expected obligations (committed, generated from the pinned tree by tools/gen_expected.py): one that is no longer
    # generated is a lost proof (vacuity guard) -- undecided, since no named obligation failed
    notes_missing = []
    if ded and not a.no_deductive:
        got = {}
        for rep in ded:
            got[rep['task']] = set(norm_name(o['obligation']) for o in rep['results'])
        for task, names in expected.items():
            if task not in got:
                continue
            missing = [n for n in names if n not in got[task]]
            if not missing:
                continue
            # which paths are explored depends on feasibility checks with a time budget, so an obligation that lives on a path of
            # doubtful feasibility may come and go between runs: a few missing names are recorded, not judged.  A task that
            # generates NONE (or less than half) of the obligations it is known to generate has lost its proof (vacuity guard).
            notes_missing.append('%s: %d of %d expected obligation names not generated in this run, e.g. %r' % (task, len(missing), len(names), missing[0]))
            if len(missing) * 2 > len(names) and not any(u.startswith(task + ':') for u in undecided):
                undecided.append('%s: %d of %d expected obligation(s) no longer generated, e.g. %r' % (task, len(missing), len(names), missing[0]))
        if os.environ.get('VERIF_WRITE_EXPECTED') == '1' and 'VERIF_REPO' not in os.environ:
            os.makedirs(EXPECTED_DIR, exist_ok=True)
            allx = {rep['task']: sorted(set(norm_name(o['obligation']) for o in rep['results']
                                                    if o['kind'] in EXPECTED_KINDS and o['status'] == 'unsat' and o.get('detail') != 'path infeasible'))
                          for rep in ded if not rep.get('fault')}
            json.dump(allx, open(os.path.join(EXPECTED_DIR, prop + '.json'), 'w'), indent=0, sort_keys=True)

    if ediff is not None:
        if ediff.get('error'):
            faults.append('engine differential did not run: ' + ediff['error'])
        elif ediff.get('disagree'):
            faults.append('the verifier\'s Python model disagrees with CPython on a concrete input (engine fault, no property verdict): %s' % json.dumps(ediff['disagree'][0])[:600])
    bcov = {}
    bfail = []
    if bnd is not None:
        if bnd.get('fault'):
            faults.append('bounded stand-in: ' + str(bnd['fault']))
        else:
            bcov = {k: bnd.get(k) for k in ('evaluations', 'distinct_nontrivial', 'rule', 'samples', 'exhaustive', 'bound', 'groups')}
            for f in bnd.get('failures', []):
                kf = match_finding(findings, prop, bkey=f.get('key', ''))
                if kf:
                    known.append((f.get('key'), f, kf, None))
                else:
                    bfail.append(f)

    lines = []
    nviol = 0
    # deductive refutations: replay = a bounded failing input of the same property if there is one
    for key, o, _, rep in refuted:
        nviol += 1
        related = [f for f in bfail if rep and any(fn.split('.')[-1] in json.dumps(f) for fn in rep['functions'])] or bfail
        payload = {'property': prop, 'kind': 'deductive', 'obligation': key, 'where': o.get('where'), 'solver': o.get('backend'),
                   'status': o.get('status'), 'model': o.get('model'), 'functions': rep['functions'] if rep else None,
                   'hashes': rep['hashes'] if rep else None}
        if related:
            payload['replay'] = related[0]
            path = write_replay(prop, nviol, payload)
            lines.append('VIOLATION property=%s replay=%s obligation="%s"' % (prop, path, key))
        else:
            path = write_replay(prop, nviol, payload)
            lines.append('VIOLATION property=%s replay=%s obligation="%s" no-failing-input-found' % (prop, path, key))
    # lost proofs: obligations discharged on the pinned tree that the verifier no longer accepts (no counter-model)
    seen_l = set()
    for key, o, rep in lost:
        if key in seen_l:
            continue
        seen_l.add(key)
        nviol += 1
        related = [f for f in bfail if any(fn.split('.')[-1] in json.dumps(f) for fn in rep['functions'])] or bfail
        payload = {'property': prop, 'kind': 'deductive-lost-proof', 'obligation': key, 'where': o.get('where'), 'solver': o.get('backend'),
                   'status': o.get('status'), 'verifier_output': o.get('detail'), 'functions': rep['functions'], 'hashes': rep['hashes'],
                   'note': 'discharged on the pinned tree (contracts/expected/<id>.json), not accepted on this tree; the solver gave no counter-model'}
        if related:
            payload['replay'] = related[0]
            lines.append('VIOLATION property=%s replay=%s obligation="%s"' % (prop, write_replay(prop, nviol, payload), key))
        else:
            lines.append('VIOLATION property=%s replay=%s obligation="%s" no-failing-input-found' % (prop, write_replay(prop, nviol, payload), key))
    if not refuted and not lost:
        # bounded failures alone (group by key so that one defect gives one line)
        seen = set()
        for f in bfail:
            k = f.get('key', '?')
            if k in seen:
                continue
            seen.add(k)
            nviol += 1
            path = write_replay(prop, nviol, {'property': prop, 'kind': 'bounded', 'replay': f})
            lines.append('VIOLATION property=%s replay=%s case="%s"' % (prop, path, k))
    seenk = set()
    for key, o, kf, _ in known:
        if kf['id'] in seenk:
            continue
        seenk.add(kf['id'])
        print('KNOWN-FINDING: property=%s %s: %s' % (prop, kf['id'], kf['what']))
    for l in lines:
        print(l)
    for u in undecided:
        print('UNDECIDED: ' + u)
    for f in faults:
        print('CHECKER-FAULT: ' + f)

    wall = time.time() - t0
    from pyvc import builtins as bi, smt
    trusted = list(bi.TRUSTED) + list(smt.VALUE_AXIOM_TEXT)
    cov = {
        'obligations': obligations, 'discharged': discharged,
        'checker_cmd': 'python3-vt -m pyvc.run %s  (z3 %s python API; cvc5 1.0.3 takes z3 unknowns; tier=%s)' % (
            ' '.join(sorted(set(os.path.relpath(p, VERIF) for p, _ in tasks_for(prop)))), smt.z3.get_version_string(), tier),
        'trusted_base': trusted + assumptions,
        'discharged_by_backend': by_backend, 'solver_seconds': round(solver_s, 2),
        'cross_checked_by_second_solver': cross,
        'functions_under_contract': functions, 'canaries': canaries,
        'deductive_tasks': [{'task': r['task'], 'kind': r['kind'], 'paths': r['paths'], 'seconds': r['seconds'],
                             'obligations': len(r['results']), 'unsupported': r['unsupported']} for r in ded],
        'engine_differential': ({'cases_agree_with_cpython': ediff.get('agree'), 'skipped': ediff.get('skipped'), 'disagree': len(ediff.get('disagree', []))} if ediff and not ediff.get('error') else None),
        'assume_sites_in_contracts': assume_scan(prop),
        'expected_obligations_not_generated_this_run': notes_missing,
        'known_findings_reported': sorted(seenk),
        'undecided': undecided,
        'evaluations': int(bcov.get('evaluations') or 0), 'distinct_nontrivial': int(bcov.get('distinct_nontrivial') or 0),
        'rule': bcov.get('rule') or 'no bounded stand-in for this property',
        'exhaustive': bool(bcov.get('exhaustive')),
        'samples': (samples_ob + (bcov.get('samples') or []))[:12] or ['(none)'],
        'bounded': bcov,
        'explanation': 'deductive obligations over the real AST (pyvc) + bounded stand-in (bcheck); see DESIGN.md',
    }
    if undecided and level == 'proof':
        level = 'exploration'          # this run did not re-establish the proof: only the bounded exploration speaks
    ev = {'property_id': prop, 'tier': tier, 'seed': seed, 'level': level, 'coverage': cov,
          'assumptions': trusted + assumptions + ['extraction drops: docstrings, __future__ imports, logger calls; PY2 = False'],
          'wall_s': round(wall, 2), 'violations': nviol}
    evdir = os.path.join(VERIF, 'evidence') if 'VERIF_REPO' not in os.environ else os.path.join(VERIF, 'out', 'evidence-other-tree')
    os.makedirs(evdir, exist_ok=True)
    with open(os.path.join(evdir, prop + '.json'), 'w') as f:
        json.dump(ev, f, indent=1, default=str)
    print('%s: obligations %d/%d discharged (%s), bounded %s evaluations, %d violation(s), %.1fs' % (
        prop, discharged, obligations, by_backend, bcov.get('evaluations'), nviol, wall))
    if nviol:
        return 1
    if faults:
        return 3
    if undecided:
        # the proof could not be re-established for this tree (the code left the engine's subset, a contract lost its binding, an
        # expected obligation was not generated): nothing was refuted.  If the bounded layer ran and the property held on everything
        # it explored, the interface's "held on everything explored" applies (exit 0; the UNDECIDED lines above and the evidence --
        # level downgraded to exploration for this run -- say that the deductive part did not decide).  Without the bounded layer: 2.
        if bnd is not None and not bnd.get('fault'):
            return 0
        return 2
    return 0


def replay(prop, path):
    with open(path) as f:
        payload = json.load(f)
    rep = payload.get('replay')
    if not rep:
        print('replay file names obligation %r; no concrete input was found' % payload.get('obligation'))
        print(json.dumps(payload, indent=1)[:3000])
        return 1
    r = run_bounded(prop, 'quick', 0, ['--replay', json.dumps(rep)])
    fails = (r or {}).get('failures', [])
    for f in fails:
        print('REPRODUCED: %s' % json.dumps(f)[:2000])
    if r and r.get('fault'):
        print('fault: %s' % r['fault'])
        return 3
    return 1 if fails else 0
