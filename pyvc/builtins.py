"""pyvc.builtins -- trusted contracts of Python itself (T1-T6 of DESIGN 2.5) as the interpreter uses them.
Every model here is an *assumption* about CPython; the list TRUSTED is copied into each evidence file."""
import ast
import z3
from . import smt
from .smt import V, I, B
from .values import (SInt, SBool, SCell, Seq, PyList, Unsupported, _t, as_v, view_seq, seq_of_items, emit)
from .interp import (PyExc, PathEnd, Env, Closure, ClassObj, Instance, BoundMethod, Builtin, ExcClass, ExcValue,
                     TypeObj, STable, SrcIter, LiveSeqIter, MapIter, ListIter, Opaque, UCall, MUTATORS, EXC_PARENTS)

TRUSTED = [
    "T2: next()/for over a list-backed iterator returns the elements in order and raises StopIteration at the end",
    "T3: x < c with c a Comparable and x a built-in value evaluates c.__gt__(x) (reflected), x == c evaluates c.__eq__(x)",
    "T4: see value axioms",
    "T6: list/tuple/len/range/insert/extend/append/index/slicing/itemgetter/dict/set/Counter/deque/reversed behave as documented",
    "T2: islice / zip / zip_longest / enumerate / count / itertools.product / groupby (at group level) behave as documented",
    "arithmetic: Python ints are unbounded, so SMT integers model them exactly; floats and Decimals are compared as mathematical reals "
    "(`num`), i.e. rounding, overflow to inf and NaN are outside the value domain",
    "the verifier itself: pyvc (AST -> VC generator written for this task; guarded by canaries, the engine-vs-CPython differential, "
    "seeded source changes and behaviour-preserving refactorings) and the solvers z3 5.1 / cvc5 1.0.3",
    "termination of for loops over finite sources and of the while loops under contract is not proved",
]


class CaughtExc(object):
    """the object bound by `except ... as e`"""

    def __init__(self, exc):
        self.exc = exc

    def as_v_term(self):
        p = self.exc.payload
        if isinstance(p, SCell):
            return p.t
        if not hasattr(self, '_v'):
            self._v = smt.fresh_v('exc_' + self.exc.kind)
        return self._v


class ExternalModule(object):
    def __init__(self, name):
        self.name = name

    def __repr__(self): return 'ExternalModule(%s)' % self.name


class StarSeq(object):
    """f(*seq) where seq has symbolic length"""

    def __init__(self, seq):
        self.seq = seq


class Partial(object):
    def __init__(self, fn, args, kwargs):
        self.fn, self.args, self.kwargs = fn, args, kwargs


class GenObj(object):
    """a generator object of an interpreted generator function: run eagerly on first use (assumption: nested
    generators are pure enough for the interleaving not to matter; stated in the evidence)"""

    def __init__(self, interp, fn, env):
        self.fn, self.env = fn, env
        self.items = None

    def force(self, interp):
        if self.items is None:
            items = []
            old = interp.yield_hook
            interp.yield_hook = lambda v, node: items.append(v)
            try:
                interp.run_body(self.fn, self.env)
            finally:
                interp.yield_hook = old
            self.items = items
        return self.items


def is_exception_class(cls):
    c = cls
    seen = 0
    while isinstance(c, ClassObj) and seen < 10:
        seen += 1
        for b in c.bases:
            if isinstance(b, ExcClass):
                EXC_PARENTS.setdefault(cls.name, b.name)
                return True
            if isinstance(b, ClassObj):
                if is_exception_class(b):
                    EXC_PARENTS.setdefault(cls.name, b.name)
                    return True
        return False
    return False


# ------------------------------------------------------------------------------------------ iteration

def get_iter(interp, v, node=None):
    if isinstance(v, ISliceIter):
        return islice_window(interp, v, node)
    if isinstance(v, (SrcIter, MapIter, ListIter, ZipIter, CountIter)):
        return v
    if isinstance(v, STable):
        v.iters += 1
        it = SrcIter(v.rows, v.n, '%s#%d' % (v.name, v.iters))
        it.table = v
        if not hasattr(v, 'iterators'):
            v.iterators = []
        v.iterators.append(it)
        return it
    if isinstance(v, Opaque) and '__iter__' in v.attrs:
        return v.attrs['__iter__']          # an external object iterated through its contract (e.g. a text file: its lines)
    if isinstance(v, SDeque):
        it = SrcIter(v.arr, v.hi, 'deque', origin=v.origin)
        it.pos = v.lo
        return it
    if isinstance(v, Seq) and getattr(v, 'live', False):
        return LiveSeqIter(v, 'live-seq')
    if isinstance(v, Seq):
        it = SrcIter(v.arr, v.len, 'seq', origin=v.origin)
        it.elem_seq = v
        return it
    if isinstance(v, SCell):
        s = view_seq(v)
        return SrcIter(s.arr, s.len, 'cellseq')
    if isinstance(v, (tuple, list)):
        return ListIter(list(v))
    if isinstance(v, PyList):
        return ListIter(v.items)
    if isinstance(v, GenObj):
        return ListIter(v.force(interp))
    if isinstance(v, SDict):
        return ListIter(list(v.conc_keys(interp)))
    if isinstance(v, SSet):
        return ListIter(list(v.items))          # iteration order of a set is unspecified: contracts must not depend on it
    if isinstance(v, str):
        return ListIter(list(v))
    if isinstance(v, Instance):
        f = v.cls.find('__iter__')
        if f:
            return get_iter(interp, interp.call(BoundMethod(f[0], v), [], {}), node)
        if '_tuple' in v.attrs:
            return get_iter(interp, v.attrs['_tuple'], node)
    if isinstance(v, RangeObj):
        if is_conc_int(v.lo) and is_conc_int(v.hi):
            return ListIter(list(range(v.lo, v.hi)))
        it = SrcIter(None, _t(v.hi) - _t(v.lo), 'range')
        it.range_lo = _t(v.lo)
        return it
    raise Unsupported('iter(%r) at %s' % (v, interp.where(node) if node is not None else '?'))


def is_conc_int(x):
    return isinstance(x, int) and not isinstance(x, bool)


def is_concrete_iter(it):
    if isinstance(it, ListIter):
        return True
    if isinstance(it, MapIter):
        return is_concrete_iter(it.inner)
    if isinstance(it, ZipIter):
        return any(is_concrete_iter(i) for i in it.inners) if not it.longest else all(is_concrete_iter(i) for i in it.inners)
    if isinstance(it, SrcIter):
        n = z3.simplify(it.n - it.pos)
        return z3.is_int_value(n)
    if isinstance(it, ISliceIter):
        return is_concrete_iter(it.inner) or it.conc_stop
    return False


def base_iter(it):
    if isinstance(it, SrcIter):
        return it
    if isinstance(it, MapIter):
        return base_iter(it.inner)
    if isinstance(it, ZipIter):
        for i in it.inners:
            b = base_iter(i)
            if b is not None:
                return b
    return None


class ZipIter(object):
    def __init__(self, inners, longest=False, fill=None):
        self.inners, self.longest, self.fill = inners, longest, fill
        b = None
        for i in inners:
            if isinstance(i, SrcIter):
                b = i
        self.base, self.pos0 = b, (b.pos if b is not None else None)


class CountIter(object):
    def __init__(self, start, step):
        self.cur, self.step = start, step


class ISliceIter(object):
    def __init__(self, inner, start, stop):
        self.inner, self.start, self.stop, self.i = inner, start, stop, 0
        self.conc_stop = is_conc_int(stop)


def stop_iteration(interp, it, node):
    e = PyExc('StopIteration', None, interp.where(node) if node is not None else None)
    e.from_next = True
    e.it = it
    return e


def next_(interp, it, node=None):
    ctx = interp.ctx
    if isinstance(it, ListIter):
        if it.i < len(it.items):
            it.i += 1
            return it.items[it.i - 1]
        raise stop_iteration(interp, it, node)
    if isinstance(it, SrcIter):
        if getattr(it, 'may_fail', False) and ctx.branch(smt.fresh_bool('source_fails'), 'the source raises here'):
            e = PyExc('SourceError', None, interp.where(node) if node is not None else None)
            e.source_pos = it.pos
            raise e
        if ctx.branch(it.pos < it.n, 'next'):
            p = it.pos
            it.pos = z3.simplify(it.pos + 1)
            if isinstance(it, ProductIter):
                # one arbitrary element of the product: an arbitrary element of each input
                picks = []
                for b_, sz in zip(it.bases, it.sizes):
                    i_ = smt.fresh_int('pick')
                    ctx.assume(z3.And(0 <= i_, i_ < sz))
                    picks.append(SCell(z3.Select(b_.arr, b_.pos + i_)))
                it.last_picks = picks
                return tuple(picks)
            if it.arr is None:
                return SInt(it.range_lo + p)
            return SCell(z3.Select(it.arr, p))
        it.exhausted_seen = True
        raise stop_iteration(interp, it, node)
    if isinstance(it, MapIter):
        while True:
            try:
                x = next_(interp, it.inner, node)
            except PyExc as e:
                if e.kind == 'StopIteration' and getattr(e, 'from_next', False):
                    e.it = it
                raise
            keep, val = it.fn(x)
            if keep:
                return val
    if isinstance(it, ZipIter):
        vals, stopped = [], 0
        before = it.base.pos if it.base is not None else None
        for i in it.inners:
            try:
                if isinstance(i, CountIter) and it.base is not None and not it.longest:
                    # count() zipped with a table iterator: the value is a function of the table position
                    # (all elements are consumed through this zip), so it survives the havoc of a loop contract
                    done = (it.base.pos if it.inners.index(i) < it.inners.index(it.base) else before) - it.pos0
                    vals.append(binop(interp, ast.Add(), i.cur, binop(interp, ast.Mult(), i.step, SInt(z3.simplify(done)), node), node))
                    continue
                vals.append(next_(interp, i, node))
            except PyExc as e:
                if e.kind == 'StopIteration' and getattr(e, 'from_next', False):
                    if not it.longest:
                        raise stop_iteration(interp, it, node)
                    stopped += 1
                    vals.append(it.fill)
                else:
                    raise
        if it.longest and stopped == len(it.inners):
            raise stop_iteration(interp, it, node)
        return tuple(vals)
    if isinstance(it, CountIter):
        v = it.cur
        it.cur = binop(interp, ast.Add(), it.cur, it.step, node)
        return v
    if isinstance(it, GenObj):
        return next_(interp, get_iter(interp, it), node)
    raise Unsupported('next(%r)' % (it,))


def iter_concrete(interp, v):
    if isinstance(v, (tuple, list)):
        return list(v)
    if isinstance(v, PyList):
        return list(v.items)
    if isinstance(v, GenObj):
        return list(v.force(interp))
    if isinstance(v, Seq):
        n = z3.simplify(v.len)
        if z3.is_int_value(n):
            return [SCell(z3.Select(v.arr, k)) for k in range(n.as_long())]
        raise Unsupported('unpacking a sequence of symbolic length')
    if isinstance(v, SDict):
        return list(v.conc_keys(interp))
    if isinstance(v, (ListIter, MapIter, ZipIter, SrcIter)) and is_concrete_iter(v):
        out = []
        while True:
            try:
                out.append(next_(interp, v))
            except PyExc as e:
                if e.kind == 'StopIteration' and getattr(e, 'from_next', False):
                    return out
                raise
    if isinstance(v, SCell):
        return iter_concrete(interp, view_seq(v))
    raise Unsupported('cannot enumerate %r concretely' % (v,))


def dict_concrete(interp, d):
    if isinstance(d, SDict):
        return {k: v for k, v in d.conc_items(interp)}
    raise Unsupported('**%r' % (d,))


# ------------------------------------------------------------------------------------------ sequences

def to_seq(interp, v, kind, node=None):
    """list(v) / tuple(v)"""
    if isinstance(v, Instance) and '_tuple' in v.attrs and not v.cls.find('__iter__'):
        return to_seq(interp, v.attrs['_tuple'], kind, node)
    if isinstance(v, Seq):
        if kind == 'tuple' and v.kind == 'tuple':
            return v
        return Seq(v.arr, v.len, kind, 'Fresh')
    if isinstance(v, SCell):
        if v.untrusted:
            # a value produced by a user callback: it may not be iterable, or may fail while being iterated
            bad = z3.Function('iter_raises', V, B)(v.t)
            if interp.ctx.branch(bad, 'iterating a callback result fails'):
                e = PyExc('UserError', SCell(z3.Function('iter_exc', V, V)(v.t)), interp.where(node) if node is not None else None)
                e.iterfail = v.t
                raise e
        s = view_seq(v)
        return Seq(s.arr, s.len, kind, 'Fresh')
    if isinstance(v, tuple):
        return v if kind == 'tuple' else PyList(list(v), 'list')
    if isinstance(v, PyList):
        return tuple(v.items) if kind == 'tuple' else PyList(v.items, 'list')
    if isinstance(v, (ListIter, MapIter, ZipIter, GenObj, SDict, RangeObj, ISliceIter, STable)) or isinstance(v, SrcIter):
        if isinstance(v, ISliceIter):
            return drain_islice(interp, v, kind, node)
        it = get_iter(interp, v, node)
        if is_concrete_iter(it):
            items = iter_concrete(interp, it)
            return tuple(items) if kind == 'tuple' else PyList(items, 'list')
        return drain(interp, it, kind, node)
    raise Unsupported('%s(%r) at %s' % (kind, v, interp.where(node) if node is not None else '?'))


def sym_remaining(it):
    """number of elements an iterator will still deliver (z3 Int) or None if infinite"""
    if isinstance(it, SrcIter):
        return it.n - it.pos
    if isinstance(it, CountIter):
        return None
    if isinstance(it, ListIter):
        return z3.IntVal(len(it.items) - it.i)
    if isinstance(it, MapIter):
        return sym_remaining(it.inner)
    if isinstance(it, ZipIter) and not it.longest:
        ns = [n for n in (sym_remaining(i) for i in it.inners) if n is not None]
        if len(ns) == 1:
            return ns[0]
    raise Unsupported('length of a lazy iterator %r' % (it,))


def sym_element(interp, it, j):
    """the (j+1)-th upcoming element of `it` for a generic j (no filter allowed)"""
    if isinstance(it, SrcIter):
        if it.arr is None:
            return SInt(it.range_lo + it.pos + j)
        return SCell(z3.Select(it.arr, it.pos + j))
    if isinstance(it, CountIter):
        return binop(interp, ast.Add(), it.cur, binop(interp, ast.Mult(), it.step, SInt(j), None), None)
    if isinstance(it, ZipIter) and not it.longest:
        return tuple(sym_element(interp, i, j) for i in it.inners)
    if isinstance(it, MapIter):
        keep, val = it.fn(sym_element(interp, it.inner, j))
        if keep is not True:
            raise Unsupported('filtered lazy iterator collected symbolically')
        return val
    raise Unsupported('generic element of %r' % (it,))


def sym_exhaust(it):
    if isinstance(it, SrcIter):
        it.pos = it.n
        it.exhausted_seen = True
    elif isinstance(it, MapIter):
        sym_exhaust(it.inner)
    elif isinstance(it, ZipIter):
        for i in it.inners:
            if not isinstance(i, CountIter):
                sym_exhaust(i)


def islice_window(interp, sl, node=None):
    """islice(it, start, stop) over a symbolic iterator (T2): the window [start, stop) of what is left of `it`; `it` is
    advanced to the end of the window.  Returns a SrcIter over that window."""
    it = sl.inner
    st_ = to_int(sl.start)
    if interp.ctx.branch(st_ < 0, 'islice with a negative start'):
        interp.raise_('ValueError', 'islice indices must be >= 0', node)
    rem = it.n - it.pos
    lo = it.pos + z3.If(st_ < rem, st_, rem)
    if sl.stop is None:
        hi = it.n
    else:
        sp_ = to_int(sl.stop)
        if interp.ctx.branch(sp_ < 0, 'islice with a negative stop'):
            interp.raise_('ValueError', 'islice stop must be >= 0', node)
        hi0 = it.pos + z3.If(sp_ < rem, sp_, rem)
        hi = z3.If(hi0 < lo, lo, hi0)
    w = SrcIter(it.arr, z3.simplify(hi), 'islice-window', origin=it.origin)
    w.pos = z3.simplify(lo)
    w.table = getattr(it, 'table', None)
    w.window_of = it
    it.pos = z3.simplify(hi)
    return w


def drain_islice(interp, sl, kind, node=None):
    """list(islice(it, start, stop)): the elements of the window, and `it` pulled to its end and no further (T2)"""
    w = islice_window(interp, sl, node)
    take = z3.simplify(w.n - w.pos)
    arr = smt.fresh_arr('islice')
    j = smt.fresh_int('j')
    emit(z3.ForAll([j], z3.Implies(z3.And(0 <= j, j < take), z3.Select(arr, j) == z3.Select(w.arr, w.pos + j))))
    return Seq(arr, take, kind, 'Fresh')


def drain(interp, it, kind, node=None):
    """list(it) / tuple(it) for an iterator of symbolic length: result r, len r = remaining, r[j] = element j.
    Element expressions may branch (merged into If-terms) and may raise: then the FIRST raising element's
    exception escapes (fork)."""
    ctx = interp.ctx
    n = z3.simplify(sym_remaining(it))
    if isinstance(it, SrcIter) and it.arr is not None:
        arr = smt.fresh_arr('drain')
        j = smt.fresh_int('j')
        emit(z3.ForAll([j], z3.Implies(z3.And(0 <= j, j < n), z3.Select(arr, j) == z3.Select(it.arr, it.pos + j))))
        sym_exhaust(it)
        return Seq(arr, n, kind, 'Fresh')
    j = smt.fresh_int('cj')
    paths = ite_paths(interp, lambda: sym_element(interp, it, j), [z3.And(0 <= j, j < n)], bound=j)
    raising = [(g, e) for g, v, e in paths if e is not None]
    if raising:
        rg = z3.Or([g for g, e in raising])
        some = z3.Exists([j], z3.And(0 <= j, j < n, rg))
        if ctx.branch(some, 'some element raises'):
            j0 = smt.fresh_int('jfail')
            ctx.assume(z3.And(0 <= j0, j0 < n, z3.substitute(rg, (j, j0))))
            ctx.assume(z3.ForAll([j], z3.Implies(z3.And(0 <= j, j < j0), z3.Not(rg))))
            for g, e in raising[:-1]:
                if ctx.branch(z3.substitute(g, (j, j0)), 'which element path raises'):
                    raise retarget(e, j, j0)
            ctx.assume(z3.substitute(raising[-1][0], (j, j0)))
            raise retarget(raising[-1][1], j, j0)
        ctx.assume(z3.ForAll([j], z3.Implies(z3.And(0 <= j, j < n), z3.Not(rg))))
    val = None
    for (g, v, e), sub in reversed(list(zip(paths, paths.substs))):
        if e is not None:
            continue
        vv = sub(as_v(v))
        val = vv if val is None else z3.If(g, vv, val)
    if val is None:
        ctx.assume(n <= 0)
        return Seq(smt.fresh_arr('empty'), z3.IntVal(0), kind, 'Fresh')
    arr = smt.fresh_arr('comp')
    emit(z3.ForAll([j], z3.Implies(z3.And(0 <= j, j < n), z3.Select(arr, j) == val)))
    sym_exhaust(it)
    return Seq(arr, n, kind, 'Fresh')


def retarget(e, j, j0):
    """an exception raised by the generic element j, re-expressed for the concrete failing position j0"""
    if isinstance(e.payload, SCell):
        e.payload = SCell(z3.substitute(e.payload.t, (j, j0)))
    e.fail_index = j0
    return e


def ite_paths(interp, thunk, hyps, bound=None):
    """all paths of a pure expression under extra hypotheses: [(guard, value, exception)].
    `bound` is the variable the expression is generic in (the index j of a comprehension / the generic element of a filter).
    Evaluating the expression may create fresh witnesses whose defining facts are ASSUMED (e.g. the position returned by
    list.index): such a witness depends on the bound variable, so it is skolemised -- replaced by a fresh function of `bound`
    -- in the guard and in the value (use the `subst` attribute of the returned list on value terms), and its defining facts
    are emitted universally quantified over `bound`, under the hypotheses and the branch conditions of their path.  Facts that
    mention neither the bound variable nor a path-local witness are global and re-emitted as they are."""
    from .interp import BRANCH_IDS
    ctx = interp.ctx
    saved = (ctx.decisions, ctx.taken, ctx.alternatives, ctx.facts)
    results = []
    work = [[]]
    base_facts = list(ctx.facts) + list(hyps)
    try:
        while work:
            dec = work.pop()
            ctx.decisions, ctx.taken, ctx.alternatives = list(dec), [], []
            ctx.facts = list(base_facts)
            nfacts = len(ctx.facts)
            mark = len(smt.FRESH_LOG)
            exc = v = None
            try:
                v = thunk()
            except PathEnd:
                work.extend(ctx.alternatives)
                continue
            except PyExc as e:
                exc = e
            results.append((ctx.facts[nfacts:], v, exc, list(smt.FRESH_LOG[mark:])))
            work.extend(ctx.alternatives)
            if len(results) > 64:
                raise Unsupported('element expression has too many paths')
    finally:
        ctx.decisions, ctx.taken, ctx.alternatives, ctx.facts = saved
    out = PathList()
    bname = str(bound) if bound is not None else None
    for conds, v, exc, fresh in results:
        local = [c for c in fresh if bound is None or not c.eq(bound)]
        used = set()
        texts = [(c, c.sexpr()) for c in conds]
        for w in local:
            wn = str(w)
            if any(wn in t for _, t in texts):
                used.add(wn)
        sk = []
        if bound is not None:
            for w in local:
                # every constant created while evaluating the generic element (a witness with defining facts, or an unconstrained
                # result such as an opaque string operation) is a function of the bound variable -- never one value shared by all
                f = z3.Function('sk!' + str(w), bound.sort(), w.sort())
                sk.append((w, f(bound)))
                used.add(str(w))
        subst = (lambda t, sk=sk: z3.substitute(t, *sk)) if sk else (lambda t: t)
        guards, assumed = [], []
        for c, t in texts:
            mentions = (bname is not None and bname in t) or ('cj!' in t) or any(wn in t for wn in used)
            if not mentions:
                emit(c)                              # a global fact (axiom instance)
            elif c.get_id() in BRANCH_IDS:
                guards.append(subst(c))
            elif bound is not None:
                # a defining fact of a witness: holds whenever the path has got this far (the branch conditions BEFORE it)
                emit(z3.ForAll([bound], z3.Implies(z3.And(list(hyps) + list(guards)) if (hyps or guards) else z3.BoolVal(True), subst(c))))
            else:
                assumed.append(subst(c))
        g = z3.And(guards + assumed) if (guards or assumed) else z3.BoolVal(True)      # (no bound variable: the old path-condition reading)
        out.append((g, v, exc))
        out.substs.append(subst)
    return out


class PathList(list):
    def __init__(self):
        list.__init__(self)
        self.substs = []


def index_term(interp, s, idx, node, what='index'):
    """normalise a (possibly negative) index against len; raises IndexError on the out-of-range path"""
    ctx = interp.ctx
    i = to_int(idx)
    ln = s.len
    if ctx.branch(z3.And(i >= 0, i < ln), what):
        return i
    if ctx.branch(z3.And(i < 0, i >= -ln), what + ' negative'):
        return ln + i
    interp.raise_('IndexError', None, node)


def to_int(x):
    if isinstance(x, bool):
        return z3.IntVal(int(x))
    if isinstance(x, int):
        return z3.IntVal(x)
    if isinstance(x, SInt):
        return x.t
    if isinstance(x, SCell):
        return smt.ival(x.t)
    if isinstance(x, SBool):
        return z3.If(x.t, 1, 0)
    raise Unsupported('not an integer: %r' % (x,))


def getitem(interp, obj, idx, node=None):
    if hasattr(obj, 'py_getitem'):
        return obj.py_getitem(interp, idx, node)
    if isinstance(obj, (tuple, list)) or isinstance(obj, PyList):
        items = obj.items if isinstance(obj, PyList) else obj
        if isinstance(idx, int):
            try:
                return items[idx]
            except IndexError:
                interp.raise_('IndexError', None, node)
        if isinstance(idx, (SInt, SCell)):
            i = to_int(idx)
            for k in range(len(items)):
                if interp.ctx.branch(i == k, 'concrete list index'):
                    return items[k]
            for k in range(1, len(items) + 1):
                if interp.ctx.branch(i == -k, 'concrete list index'):
                    return items[-k]
            interp.raise_('IndexError', None, node)
    if isinstance(obj, SCell) and not isinstance(idx, (str,)):
        obj = view_seq(obj)
    if isinstance(obj, Seq):
        i = index_term(interp, obj, idx, node)
        return SCell(z3.Select(obj.arr, i))
    if isinstance(obj, SDict):
        return obj.getitem(interp, idx, node)
    if isinstance(obj, str) and isinstance(idx, int):
        return obj[idx]
    raise Unsupported('subscript of %r at %s' % (obj, interp.where(node) if node is not None else '?'))


def clamp(i, ln):
    """Python slice-bound clamping of integer term i against length ln"""
    return z3.If(i < 0, z3.If(i + ln < 0, 0, i + ln), z3.If(i > ln, ln, i))


def getslice(interp, obj, lo, hi, node=None):
    if isinstance(obj, (tuple,)) and (lo is None or isinstance(lo, int)) and (hi is None or isinstance(hi, int)):
        return obj[lo:hi]
    if isinstance(obj, PyList) and (lo is None or isinstance(lo, int)) and (hi is None or isinstance(hi, int)):
        return PyList(obj.items[lo:hi], obj.kind)
    if isinstance(obj, (tuple, PyList, SCell)):
        obj = view_seq(obj)
    if isinstance(obj, Seq):
        ln = obj.len
        a = z3.IntVal(0) if lo is None else clamp(to_int(lo), ln)
        b = ln if hi is None else clamp(to_int(hi), ln)
        n = z3.If(b > a, b - a, 0)
        if lo is None:
            arr = obj.arr
        else:
            arr = smt.fresh_arr('slice')
            j = smt.fresh_int('j')
            emit(z3.ForAll([j], z3.Implies(z3.And(0 <= j, j < n), z3.Select(arr, j) == z3.Select(obj.arr, a + j))))
        kind = obj.kind if obj.kind != 'src' else 'src'
        return Seq(arr, z3.simplify(n), kind, 'Fresh')
    raise Unsupported('slice of %r' % (obj,))


def setitem(interp, obj, idx, v, node=None):
    if hasattr(obj, 'py_setitem'):
        return obj.py_setitem(interp, idx, v)
    if isinstance(obj, PyList):
        if isinstance(idx, int):
            try:
                obj.items[idx] = v
                return
            except IndexError:
                interp.raise_('IndexError', None, node)
        if isinstance(idx, (SInt, SCell)):
            i = to_int(idx)
            for k in range(len(obj.items)):
                if interp.ctx.branch(i == k, 'concrete list store'):
                    obj.items[k] = v
                    return
            interp.raise_('IndexError', None, node)
    if isinstance(obj, Seq):
        i = index_term(interp, obj, idx, node, 'store')
        obj.arr = z3.Store(obj.arr, i, as_v(v))
        return
    if isinstance(obj, SDict):
        obj.setitem(interp, idx, v)
        return
    raise Unsupported('item store on %r' % (obj,))


def delitem(interp, obj, idx, node=None):
    if isinstance(obj, PyList) and isinstance(idx, int):
        try:
            del obj.items[idx]
            return
        except IndexError:
            interp.raise_('IndexError', None, node)
    if isinstance(obj, Seq):
        i = index_term(interp, obj, idx, node, 'del')
        arr = smt.fresh_arr('del')
        j = smt.fresh_int('j')
        emit(z3.ForAll([j], z3.Implies(z3.And(0 <= j, j < obj.len - 1),
                                       z3.Select(arr, j) == z3.If(j < i, z3.Select(obj.arr, j), z3.Select(obj.arr, j + 1)))))
        obj.arr, obj.len = arr, z3.simplify(obj.len - 1)
        return
    if isinstance(obj, SDict):
        obj.delitem(interp, idx, node)
        return
    raise Unsupported('del item on %r' % (obj,))


def concat(interp, a, b, kind=None):
    a, b = view_seq(a), view_seq(b)
    arr = smt.fresh_arr('cat')
    j = smt.fresh_int('j')
    emit(z3.ForAll([j], z3.Implies(z3.And(0 <= j, j < a.len), z3.Select(arr, j) == z3.Select(a.arr, j))))
    emit(z3.ForAll([j], z3.Implies(z3.And(a.len <= j, j < a.len + b.len), z3.Select(arr, j) == z3.Select(b.arr, j - a.len))))
    return Seq(arr, z3.simplify(a.len + b.len), kind or a.kind, 'Fresh')


def repeat(interp, s, k):
    if isinstance(s, (tuple, PyList)) and isinstance(k, int):
        items = s.items if isinstance(s, PyList) else s
        return tuple(items) * k if isinstance(s, tuple) else PyList(list(items) * k, s.kind)
    items = s.items if isinstance(s, PyList) else list(s) if isinstance(s, tuple) else None
    if items is not None and len(items) == 1:
        kk = to_int(k)
        n = z3.If(kk > 0, kk, 0)
        arr = smt.fresh_arr('rep')
        j = smt.fresh_int('j')
        emit(z3.ForAll([j], z3.Implies(z3.And(0 <= j, j < n), z3.Select(arr, j) == as_v(items[0]))))
        return Seq(arr, z3.simplify(n), 'tuple' if isinstance(s, tuple) else 'list', 'Fresh')
    raise Unsupported('sequence repetition %r * %r' % (s, k))


def list_extend(interp, lst, other, node=None):
    if isinstance(lst, PyList):
        if isinstance(other, (tuple, PyList, ListIter, GenObj)) or (isinstance(other, (MapIter, ZipIter)) and is_concrete_iter(other)):
            lst.items.extend(iter_concrete(interp, other))
            return
        lst.go_symbolic()      # the list becomes symbolic in place (identity and aliases kept)
    if isinstance(lst, Seq):
        if isinstance(other, (SrcIter, MapIter, ZipIter, GenObj, ListIter)):
            other = to_seq(interp, other, 'list', node)          # list.extend(iterator): the elements, in order (T6)
        r = concat(interp, lst, other)
        lst.arr, lst.len = r.arr, r.len
        return
    raise Unsupported('extend on %r' % (lst,))


def symbolise(lst):
    """turn a PyList of first-order items into a Seq (same origin)"""
    s = seq_of_items(lst.items, lst.kind, lst.origin)
    return s


def list_insert(interp, lst, idx, v, node=None):
    if isinstance(lst, PyList) and isinstance(idx, int):
        lst.items.insert(idx, v)
        return
    if isinstance(lst, PyList):
        lst.go_symbolic()
    if isinstance(lst, Seq):
        i = to_int(idx)
        pos = clamp(i, lst.len)
        arr = smt.fresh_arr('ins')
        j = smt.fresh_int('j')
        emit(z3.ForAll([j], z3.Implies(z3.And(0 <= j, j < lst.len + 1),
                                       z3.Select(arr, j) == z3.If(j < pos, z3.Select(lst.arr, j),
                                                                  z3.If(j == pos, as_v(v), z3.Select(lst.arr, j - 1))))))
        lst.arr, lst.len = arr, z3.simplify(lst.len + 1)
        return
    raise Unsupported('insert on %r' % (lst,))


def contains(interp, container, x, node=None):
    """x in container  -> SBool / bool"""
    if hasattr(container, 'py_contains'):
        return container.py_contains(interp, x, node)
    if isinstance(container, SDict):
        return container.contains(interp, x)
    if isinstance(container, (tuple, list, PyList)):
        items = container.items if isinstance(container, PyList) else container
        terms = []
        for it in items:
            r = py_equal(interp, x, it)
            terms.append(r)
        if all(isinstance(t, bool) for t in terms):
            return any(terms)
        return SBool(z3.Or([_t(t) for t in terms]))
    if isinstance(container, (Seq, SCell)):
        s = view_seq(container)
        xv = as_v(x)
        j = smt.fresh_int('mem')
        return SBool(z3.Exists([j], z3.And(0 <= j, j < s.len, smt.py_eq(z3.Select(s.arr, j), xv))))
    if isinstance(container, str) and isinstance(x, str):
        return x in container
    if isinstance(container, SSet):
        return container.contains(interp, x)
    raise Unsupported('membership in %r' % (container,))


def seq_index(interp, s, x, node=None):
    """s.index(x): first position whose element == x, ValueError if none"""
    ctx = interp.ctx
    if isinstance(s, (tuple, PyList)):
        items = s.items if isinstance(s, PyList) else s
        for k, it in enumerate(items):
            r = py_equal(interp, it, x)
            if interp.truth(r):
                return k
        interp.raise_('ValueError', None, node)
    s = view_seq(s)
    xv = as_v(x)
    j = smt.fresh_int('j')
    present = z3.Exists([j], z3.And(0 <= j, j < s.len, smt.py_eq(z3.Select(s.arr, j), xv)))
    if ctx.branch(present, 'index: present'):
        i = smt.fresh_int('idx')
        ctx.assume(z3.And(0 <= i, i < s.len, smt.py_eq(z3.Select(s.arr, i), xv)))
        ctx.assume(z3.ForAll([j], z3.Implies(z3.And(0 <= j, j < i), z3.Not(smt.py_eq(z3.Select(s.arr, j), xv)))))
        return SInt(i)
    interp.raise_('ValueError', None, node)


# ------------------------------------------------------------------------------------------ operators

def is_comparable_instance(x):
    return isinstance(x, Instance)


def py_equal(interp, a, b):
    """truth of a == b as bool / SBool"""
    if isinstance(a, Instance) and a.cls.find('__eq__'):
        return to_boolish(interp.call(BoundMethod(a.cls.find('__eq__')[0], a), [b], {}))
    if isinstance(b, Instance) and b.cls.find('__eq__'):
        return to_boolish(interp.call(BoundMethod(b.cls.find('__eq__')[0], b), [a], {}))
    if a is None and b is None:
        return True
    if is_plain(a) and is_plain(b):
        return a == b
    if isinstance(a, (SInt,)) and isinstance(b, (SInt, int)) or isinstance(b, SInt) and isinstance(a, int):
        return SBool(_t(a) == _t(b))
    if isinstance(a, (SBool,)) and isinstance(b, (SBool, bool)):
        return SBool(_t(a) == _t(b))
    if isinstance(a, (tuple, PyList)) and isinstance(b, (tuple, PyList)):
        ia = a.items if isinstance(a, PyList) else a
        ib = b.items if isinstance(b, PyList) else b
        if (isinstance(a, tuple)) != (isinstance(b, tuple)):
            return False
        if len(ia) != len(ib):
            return False
        terms = [py_equal(interp, x, y) for x, y in zip(ia, ib)]
        if all(isinstance(t, bool) for t in terms):
            return all(terms)
        return SBool(z3.And([_t(t) for t in terms]))
    if isinstance(a, (Closure, Builtin, ClassObj, Opaque, UCall)) or isinstance(b, (Closure, Builtin, ClassObj, Opaque, UCall)):
        return a is b
    if isinstance(a, Instance) or isinstance(b, Instance):
        return a is b
    if isinstance(a, SSet) and isinstance(b, SSet):
        # set == set: mutual inclusion (T6; the items of an SSet are pairwise !=)
        ts = [contains(interp, tuple(b.items), x) for x in a.items] + [contains(interp, tuple(a.items), y) for y in b.items]
        if all(isinstance(t, bool) for t in ts):
            return all(ts)
        return SBool(z3.And([_t(t) for t in ts]))
    if isinstance(a, Seq) and isinstance(b, Seq):
        if a is b:
            return True
        hk = getattr(interp, 'seq_eq_hook', None)
        if hk is not None:
            return hk(interp, a, b)
        return seq_py_eq(interp, a, b)
    try:
        x, y = as_v(a), as_v(b)
    except Unsupported:
        raise Unsupported('== between %r and %r' % (a, b))
    wa, wb = getattr(a, 'wrapped', False), getattr(b, 'wrapped', False)
    if wa or wb:
        # a tuple of Comparables against a tuple: element-wise Comparable.__eq__ (T3); against anything else: False
        xx = x if wa else smt.wrapv(x)
        yy = y if wb else smt.wrapv(y)
        return SBool(z3.And(smt.cls(x) == smt.TUPLE, smt.cls(y) == smt.TUPLE, smt.py_eq(xx, yy)))
    return SBool(smt.py_eq(x, y))


def seq_py_eq(interp, a, b):
    j = smt.fresh_int('j')
    samekind = (a.kind == b.kind) or 'src' in (a.kind, b.kind)
    if not samekind:
        return False
    return SBool(z3.And(a.len == b.len, z3.ForAll([j], z3.Implies(z3.And(0 <= j, j < a.len),
                                                                   smt.py_eq(z3.Select(a.arr, j), z3.Select(b.arr, j))))))


def is_plain(x):
    return x is None or isinstance(x, (bool, int, str, float, bytes))


def to_boolish(v):
    if isinstance(v, (bool, SBool)):
        return v
    if isinstance(v, SCell):
        return SBool(smt.truthy(v.t))
    if isinstance(v, SInt):
        return SBool(v.t != 0)
    raise Unsupported('boolean result expected, got %r' % (v,))


REFLECT = {ast.Lt: ('__lt__', '__gt__'), ast.Gt: ('__gt__', '__lt__'), ast.LtE: ('__le__', '__ge__'),
           ast.GtE: ('__ge__', '__le__'), ast.Eq: ('__eq__', '__eq__'), ast.NotEq: ('__ne__', '__ne__')}


def compare(interp, op, a, b, node=None):
    ctx = interp.ctx
    t = type(op)
    if t in (ast.Is, ast.IsNot):
        r = identical(interp, a, b)
        if t is ast.IsNot:
            r = (not r) if isinstance(r, bool) else SBool(z3.Not(r.t))
        return r
    if t in (ast.In, ast.NotIn):
        r = contains(interp, b, a, node)
        if t is ast.NotIn:
            r = (not r) if isinstance(r, bool) else SBool(z3.Not(r.t))
        return r
    # objects seen through a comparison contract (modular: contracts/lib_order.CmpObj)
    if hasattr(a, 'py_compare'):
        return a.py_compare(interp, t, b, False)
    if hasattr(b, 'py_compare'):
        return b.py_compare(interp, {ast.Lt: ast.Gt, ast.Gt: ast.Lt, ast.LtE: ast.GtE, ast.GtE: ast.LtE}.get(t, t), a, False) \
            if False else b.py_compare(interp, t, a, True)
    # rich comparison dispatch on interpreted classes (T3)
    if isinstance(a, Instance) and a.cls.find(REFLECT[t][0]):
        return interp.call(BoundMethod(a.cls.find(REFLECT[t][0])[0], a), [b], {})
    if isinstance(b, Instance) and b.cls.find(REFLECT[t][1]):
        return interp.call(BoundMethod(b.cls.find(REFLECT[t][1])[0], b), [a], {})
    if t is ast.Eq:
        return py_equal(interp, a, b)
    if t is ast.NotEq:
        r = py_equal(interp, a, b)
        return (not r) if isinstance(r, bool) else SBool(z3.Not(r.t))
    # ordering
    if isinstance(a, (int, SInt, SBool)) and isinstance(b, (int, SInt, SBool)) and not (is_plain(a) and is_plain(b)):
        x, y = to_int(a), to_int(b)
        return SBool({ast.Lt: x < y, ast.LtE: x <= y, ast.Gt: x > y, ast.GtE: x >= y}[t])
    if is_plain(a) and is_plain(b):
        try:
            return {ast.Lt: lambda: a < b, ast.LtE: lambda: a <= b, ast.Gt: lambda: a > b, ast.GtE: lambda: a >= b}[t]()
        except TypeError:
            interp.raise_('TypeError', None, node)
    if isinstance(a, (tuple, PyList, Seq)) and isinstance(b, (tuple, PyList, Seq)):
        return seq_order(interp, t, a, b, node)
    # two raw values of sort V (T4): native order inside one class, TypeError across classes
    if isinstance(a, (SCell, int, SInt, str, type(None), SBool)) and isinstance(b, (SCell, int, SInt, str, type(None), SBool)):
        x, y = as_v(a), as_v(b)
        wa, wb = getattr(a, 'wrapped', False), getattr(b, 'wrapped', False)
        if wa or wb:
            # tuple-of-Comparables vs tuple: lexicographic through Comparable's own methods (T3 + lemma Lex)
            if ctx.branch(z3.And(smt.cls(x) == smt.TUPLE, smt.cls(y) == smt.TUPLE), 'wrapped tuple compare'):
                xx = x if wa else smt.wrapv(x)
                yy = y if wb else smt.wrapv(y)
                lt, gt, eq = smt.nlt(xx, yy), smt.nlt(yy, xx), smt.py_eq(xx, yy)
                return SBool({ast.Lt: lt, ast.LtE: z3.Or(lt, eq), ast.Gt: gt, ast.GtE: z3.Or(gt, eq)}[t])
            interp.raise_('TypeError', 'unorderable', node)
        bothnum = z3.And(smt.cls(x) == smt.NUM, smt.cls(y) == smt.NUM)
        sameord = z3.And(smt.cls(x) == smt.cls(y), smt.ORDERED(x))
        if ctx.branch(bothnum, 'native compare: numbers'):
            nx, ny = smt.num(x), smt.num(y)
            return SBool({ast.Lt: nx < ny, ast.LtE: nx <= ny, ast.Gt: nx > ny, ast.GtE: nx >= ny}[t])
        if ctx.branch(sameord, 'native compare: same class'):
            lt, gt, eq = smt.nlt(x, y), smt.nlt(y, x), smt.py_eq(x, y)
            return SBool({ast.Lt: lt, ast.LtE: z3.Or(lt, eq), ast.Gt: gt, ast.GtE: z3.Or(gt, eq)}[t])
        interp.raise_('TypeError', 'unorderable', node)
    raise Unsupported('comparison %s between %r and %r at %s' % (t.__name__, a, b, interp.where(node) if node is not None else '?'))


def seq_order(interp, t, a, b, node):
    """lexicographic comparison of concrete-length sequences (T3): first position that differs under ==, then <"""
    ia = a.items if isinstance(a, PyList) else list(a) if isinstance(a, tuple) else None
    ib = b.items if isinstance(b, PyList) else list(b) if isinstance(b, tuple) else None
    if ia is None or ib is None:
        raise Unsupported('ordering of symbolic-length sequences')
    if isinstance(a, tuple) != isinstance(b, tuple):
        interp.raise_('TypeError', 'tuple vs list', node)
    for x, y in zip(ia, ib):
        e = compare(interp, ast.Eq(), x, y, node)
        if not interp.truth(e):
            if t in (ast.Lt, ast.LtE):
                return compare(interp, ast.Lt(), x, y, node)
            return compare(interp, ast.Gt(), x, y, node)
    la, lb = len(ia), len(ib)
    return {ast.Lt: la < lb, ast.LtE: la <= lb, ast.Gt: la > lb, ast.GtE: la >= lb}[t]


def identical(interp, a, b):
    if a is None or b is None:
        other = b if a is None else a
        if other is None:
            return True
        if isinstance(other, SCell):
            return SBool(smt.is_none(other.t))
        return False
    if isinstance(a, SCell) and isinstance(b, SCell):
        return SBool(a.t == b.t)
    if isinstance(a, (bool,)) and isinstance(b, bool):
        return a is b
    if isinstance(a, SCell) or isinstance(b, SCell):
        c, o = (a, b) if isinstance(a, SCell) else (b, a)
        if isinstance(o, bool):
            return SBool(z3.And(smt.is_bool(c.t), smt.truthy(c.t) == o))
        try:
            return SBool(c.t == as_v(o))
        except Unsupported:
            return False
    return a is b


def binop(interp, op, a, b, node=None):
    t = type(op)
    if is_plain(a) and is_plain(b) and a is not None and b is not None:
        try:
            return {ast.Add: lambda: a + b, ast.Sub: lambda: a - b, ast.Mult: lambda: a * b, ast.Mod: lambda: a % b,
                    ast.FloorDiv: lambda: a // b, ast.Div: lambda: a / b}[t]()
        except (TypeError, KeyError):
            interp.raise_('TypeError', None, node)
        except ZeroDivisionError:
            interp.raise_('ZeroDivisionError', None, node)
    if t is ast.Add:
        if isinstance(a, tuple) and isinstance(b, tuple):
            return a + b
        if isinstance(a, PyList) and isinstance(b, PyList):
            return PyList(a.items + b.items, a.kind)
        if isinstance(a, (Seq, tuple, PyList)) and isinstance(b, (Seq, tuple, PyList)):
            return concat(interp, a, b, kind=('tuple' if isinstance(a, tuple) else a.kind))
        if (isinstance(a, SCell) and isinstance(b, (Seq, tuple, PyList))) or (isinstance(b, SCell) and isinstance(a, (Seq, tuple, PyList))):
            return concat(interp, a, b, kind='src')      # a source row (list or tuple) concatenated with a sequence
        if isinstance(a, str) or isinstance(b, str):
            return SCell(smt.fresh_v('strcat'))
    if t is ast.Mult:
        if isinstance(a, (tuple, PyList)) and isinstance(b, (int, SInt, SCell)):
            return repeat(interp, a, b)
        if isinstance(b, (tuple, PyList)) and isinstance(a, (int, SInt, SCell)):
            return repeat(interp, b, a)
    if t is ast.Mod and isinstance(a, str):
        return SCell(smt.fresh_v('fmt'))
    if isinstance(a, (int, SInt, SBool, bool)) and isinstance(b, (int, SInt, SBool, bool)):
        x, y = to_int(a), to_int(b)
        if t is ast.Add:
            return SInt(z3.simplify(x + y))
        if t is ast.Sub:
            return SInt(z3.simplify(x - y))
        if t is ast.Mult:
            return SInt(x * y)
        if t in (ast.FloorDiv, ast.Mod):
            if interp.ctx.branch(y == 0, 'division by zero'):
                interp.raise_('ZeroDivisionError', None, node)
            # Python floor semantics; z3 div/mod are Euclidean: agree for y > 0
            if interp.ctx.branch(y > 0, 'positive divisor'):
                return SInt(x / y) if t is ast.FloorDiv else SInt(x % y)
            raise Unsupported('division by a possibly negative symbolic int')
    if isinstance(a, SCell) and isinstance(b, (SCell, int, SInt)) or isinstance(b, SCell) and isinstance(a, (int, SInt)):
        # arithmetic on opaque cells: uninterpreted result, may raise TypeError
        f = z3.Function('arith_%s' % t.__name__, V, V, V)
        g = z3.Function('arith_%s_ok' % t.__name__, V, V, B)
        x, y = as_v(a), as_v(b)
        if interp.ctx.branch(g(x, y), 'arithmetic defined'):
            return SCell(f(x, y))
        interp.raise_('TypeError', None, node)
    raise Unsupported('binary %s on %r, %r at %s' % (t.__name__, a, b, interp.where(node) if node is not None else '?'))


# ------------------------------------------------------------------------------------------ isinstance / types

def instance_test(interp, v, ty):
    """isinstance(v, ty) as bool / SBool"""
    if isinstance(ty, tuple):
        rs = [instance_test(interp, v, t) for t in ty]
        if all(isinstance(r, bool) for r in rs):
            return any(rs)
        return SBool(z3.Or([_t(r) for r in rs]))
    if isinstance(ty, PyList):
        return instance_test(interp, v, tuple(ty.items))
    if isinstance(ty, ClassObj):
        if isinstance(v, Instance):
            c = [v.cls]
            while c:
                k = c.pop()
                if k is ty:
                    return True
                c.extend(b for b in k.bases if isinstance(b, ClassObj))
            return False
        return False
    if isinstance(ty, ExcClass):
        if isinstance(v, (CaughtExc,)):
            from .interp import exc_matches
            return exc_matches(v.exc.kind, ty.name)
        return False
    if isinstance(ty, TypeObj):
        if isinstance(v, Instance):
            return ty.name == 'object' or (ty.name == 'tuple' and any(getattr(b, 'name', '') == 'tuple' for b in v.cls.bases))
        if isinstance(v, SCell):
            t = z3.Or([smt.cls(v.t) == smt.CL[c] for c in ty.classes]) if ty.classes else z3.BoolVal(False)
            if ty.pred is not None:
                t = z3.And(t, ty.pred(v.t))
            if ty.name == 'object':
                t = z3.BoolVal(True)
            return SBool(t)
        if isinstance(v, bool):
            return ty.name in ('bool', 'int', 'object')
        if isinstance(v, (int, SInt)):
            return ty.name in ('int', 'object')
        if isinstance(v, SBool):
            return ty.name in ('bool', 'int', 'object')
        if isinstance(v, str):
            return ty.name in ('str', 'object')
        if v is None:
            return ty.name == 'object'
        if isinstance(v, tuple):
            return ty.name in ('tuple', 'object')
        if isinstance(v, PyList):
            return ty.name in (v.kind, 'object')
        if isinstance(v, Seq):
            if v.kind == 'src':
                raise Unsupported('isinstance of a source row against %s' % ty.name)
            return ty.name in (v.kind, 'object')
        if isinstance(v, SDict):
            return ty.name in ('dict', 'object')
        if isinstance(v, (Closure, Builtin, UCall)):
            return ty.name == 'object'
        if isinstance(v, CaughtExc):
            return ty.name == 'object'
        return False
    if isinstance(ty, Opaque):
        # an external class: an external object is an instance of the class that made it (when the contract's hook recorded it),
        # and unknown otherwise -- both outcomes are explored
        if isinstance(v, Opaque):
            made_by = v.attrs.get('__class__') if isinstance(v.attrs, dict) else None
            if made_by is not None:
                return made_by is ty or getattr(made_by, 'name', None) == ty.name
            return interp.ctx.branch(smt.fresh_bool('isinstance_external'), 'isinstance of an external class')
        return False
    raise Unsupported('isinstance(%r, %r)' % (v, ty))


def call_type(interp, ty, args, kwargs, node):
    n = ty.name
    if n in ('list', 'tuple'):
        if not args:
            return PyList([], 'list') if n == 'list' else ()
        return to_seq(interp, args[0], n, node)
    if n == 'dict':
        if getattr(interp, 'symbolic_dicts', False) and not args and not kwargs:
            return ADict()
        d = SDict(interp)
        if args:
            src = args[0]
            if isinstance(src, SDict):
                return src.copy(interp)
            for kv in iter_concrete(interp, src):
                k, v = iter_concrete(interp, kv)
                d.setitem(interp, k, v)
        for k, v in kwargs.items():
            d.setitem(interp, k, v)
        return d
    if n == 'set' and getattr(interp, 'symbolic_dicts', False) and not args:
        st = ASet()
        cb = getattr(interp, 'on_new_container', None)
        if cb is not None:
            cb(st)
        return st
    if n == 'set':
        return make_set(interp, iter_concrete(interp, args[0]) if args else [])
    if n == 'int':
        if not args:
            return 0
        a = args[0]
        if isinstance(a, (int, SInt)):
            return a
        if isinstance(a, (bool, SBool)):
            return SInt(to_int(a))
        return conv_call(interp, 'int', a, node)
    if n == 'bool':
        if not args:
            return False
        a = args[0]
        if is_plain(a):
            return bool(a)
        return SBool(interp.truth_term(a))
    if n == 'str':
        if not args:
            return ''
        a = args[0]
        if isinstance(a, str):
            return a
        return SCell(str_of(as_v(a)))
    if n == 'object':
        # object(): a fresh sentinel, equal (== and is) to nothing but itself
        c = smt.fresh_v('object')
        x = z3.Const('x!obj', V)
        emit(z3.And(smt.cls(c) == smt.OTHER, smt.truthy(c)))
        emit(z3.ForAll([x], z3.Implies(z3.Or(smt.py_eq(c, x), smt.py_eq(x, c)), x == c)))
        return SCell(c)
    if n == 'float':
        return conv_call(interp, 'float', args[0], node)
    raise Unsupported('constructor %s()' % n)


_strf = z3.Function('str_of', V, V)


def str_of(v):
    r = _strf(v)
    emit(smt.cls(r) == smt.TEXT)
    emit(z3.Implies(smt.cls(v) == smt.TEXT, r == v))
    return r


def conv_call(interp, name, a, node):
    f = z3.Function('conv_%s' % name, V, V)
    ok = z3.Function('conv_%s_ok' % name, V, B)
    x = as_v(a)
    if interp.ctx.branch(ok(x), '%s() defined' % name):
        r = f(x)
        emit(smt.cls(r) == smt.NUM)
        return SCell(r)
    interp.raise_('ValueError', None, node)


# ------------------------------------------------------------------------------------------ dict / set (T6)

class SDict(object):
    """dict with concrete key enumeration where possible; symbolic keys are handled by equality case splits.
    (The unbounded lookup-table proofs use their own array model in the contracts.)"""

    def __init__(self, interp=None):
        self.keys, self.vals = [], []
        self.origin = 'Fresh'
        self.size = None

    def _find(self, interp, k):
        if getattr(self, 'opaque', False):
            if interp.ctx.branch(smt.fresh_bool('in_opaque_dict'), 'key present in an unknown dict'):
                self.keys.append(k)
                self.vals.append(SCell(smt.fresh_v('dictval')))
                return len(self.keys) - 1
            return None
        for i, kk in enumerate(self.keys):
            r = py_equal(interp, kk, k)
            if interp.truth(r):
                return i
        return None

    def setitem(self, interp, k, v):
        i = self._find(interp, k)
        if i is None:
            self.keys.append(k)
            self.vals.append(v)
        else:
            self.vals[i] = v

    def getitem(self, interp, k, node=None):
        i = self._find(interp, k)
        if i is None:
            interp.raise_('KeyError', k, node)
        return self.vals[i]

    def delitem(self, interp, k, node=None):
        i = self._find(interp, k)
        if i is None:
            interp.raise_('KeyError', k, node)
        del self.keys[i]
        del self.vals[i]

    def contains(self, interp, k):
        return self._find(interp, k) is not None

    def conc_keys(self, interp):
        return list(self.keys)

    def conc_items(self, interp):
        return list(zip(self.keys, self.vals))

    def copy(self, interp):
        d = SDict(interp)
        d.keys, d.vals = list(self.keys), list(self.vals)
        return d

    def havoc(self, interp, nm):
        """after a contracted loop mutated it the contents are unknown: reads give unconstrained values (sound)"""
        self.keys, self.vals = [], []
        self.opaque = True


canon = z3.Function('canon', V, V)          # canonical representative of a hashable value modulo == (T6: hash consistent with ==)
VB = z3.ArraySort(V, B)
VV = z3.ArraySort(V, V)


class ADict(object):
    """dict with SYMBOLIC contents: membership and values are SMT arrays indexed by the canonical key.  Lists stored as
    values are written through (the alias returned by d[k] updates the slot when it is mutated)."""

    def __init__(self, has=None, val=None):
        self.has = has if has is not None else z3.K(V, z3.BoolVal(False))
        self.val = val if val is not None else smt.fresh('dictval', VV)
        self.origin = 'Fresh'

    def key(self, k):
        kv = as_v(k)
        x, y = z3.Const('cx!k', V), z3.Const('cy!k', V)
        if not getattr(ADict, '_ax', None) or ADict._ax is not _ctx_token():
            ADict._ax = _ctx_token()
            emit(z3.ForAll([x, y], smt.py_eq(x, y) == (canon(x) == canon(y))))
        return canon(kv)

    def py_contains(self, interp, k, node=None):
        return SBool(z3.Select(self.has, self.key(k)))

    def py_getitem(self, interp, k, node=None):
        ck = self.key(k)
        if interp.ctx.branch(z3.Select(self.has, ck), 'key present'):
            v = z3.Select(self.val, ck)
            r = SCell(v)
            r_slot = DictSlot(self, ck)
            return SlotValue(v, r_slot)
        interp.raise_('KeyError', k, node)

    def py_setitem(self, interp, k, v):
        ck = self.key(k)
        self.has = z3.Store(self.has, ck, z3.BoolVal(True))
        self.val = z3.Store(self.val, ck, as_v(v))

    def havoc(self, interp, nm):
        self.has = smt.fresh(nm + '_has', VB)
        self.val = smt.fresh(nm + '_val', VV)


class ACounter(object):
    """collections.Counter with SYMBOLIC contents: counts are an SMT array indexed by the canonical key; a missing key reads 0 (T6)"""

    def __init__(self, cnt):
        self.cnt = cnt
        self.origin = 'Fresh'
        self._d = ADict()

    def py_getitem(self, interp, k, node=None):
        return SInt(z3.Select(self.cnt, self._d.key(k)))

    def py_setitem(self, interp, k, v):
        self.cnt = z3.Store(self.cnt, self._d.key(k), to_int(v))

    def py_contains(self, interp, k, node=None):
        raise Unsupported('membership test on a symbolic Counter')

    def havoc(self, interp, nm):
        self.cnt = smt.fresh(nm + '_cnt', z3.ArraySort(V, I))


class ASet(object):
    """set with SYMBOLIC contents: membership is an SMT array indexed by the canonical key (T6)"""

    def __init__(self):
        self.has = z3.K(V, z3.BoolVal(False))
        self.origin = 'Fresh'
        self._d = ADict()

    def py_contains(self, interp, k, node=None):
        return SBool(z3.Select(self.has, self._d.key(k)))

    def add(self, interp, k):
        self.has = z3.Store(self.has, self._d.key(k), z3.BoolVal(True))

    def havoc(self, interp, nm):
        self.has = smt.fresh(nm + '_has', VB)


class SDeque(object):
    """collections.deque() used as a FIFO window (append / popleft / len / iteration): the elements arr[lo:hi] (T6)"""

    def __init__(self):
        self.arr, self.lo, self.hi = smt.fresh_arr('deque'), z3.IntVal(0), z3.IntVal(0)
        self.origin = 'Fresh'

    @property
    def len(self):
        return z3.simplify(self.hi - self.lo)

    def havoc(self, interp, nm):
        self.arr, self.lo, self.hi = smt.fresh_arr(nm), smt.fresh_int(nm + '_lo'), smt.fresh_int(nm + '_hi')
        interp.ctx.assume(z3.And(0 <= self.lo, self.lo <= self.hi))


class DictSlot(object):
    def __init__(self, d, ck):
        self.d, self.ck = d, ck


class SlotValue(Seq):
    """the list object stored in a dict slot: a mutable alias (append writes through to the slot)"""

    def __init__(self, v, slot):
        emit(smt.seq_len(v) >= 0)
        Seq.__init__(self, smt.seq_arr(v), smt.seq_len(v), 'list', 'Fresh')
        self.slot = slot

    def written(self):
        d = self.slot.d
        d.val = z3.Store(d.val, self.slot.ck, as_v(self))


_ctx_tok = [None]


def _ctx_token():
    from . import values as _v
    return _v._facts_sink[0]


class SSet(object):
    def __init__(self, items):
        self.items = items
        self.origin = 'Fresh'

    def contains(self, interp, x):
        return contains(interp, tuple(self.items), x)


def make_set(interp, items):
    out = []
    for x in items:
        if not interp.truth(contains(interp, tuple(out), x)):
            out.append(x)
    return SSet(out)


class RangeObj(object):
    def __init__(self, lo, hi):
        self.lo, self.hi = lo, hi


class ItemGetter(object):
    """operator.itemgetter(*items) (T6)"""

    def __init__(self, items):
        self.items = items          # python list of index values, or a Seq of symbolic length

    def call(self, interp, args, node):
        obj = args[0]
        if isinstance(self.items, list):
            vals = [interp.getitem(obj, i, node) for i in self.items]
            return vals[0] if len(vals) == 1 else tuple(vals)
        # symbolic number of indices (>= 2 by the caller's case split): all in range or IndexError
        idx = self.items
        row = view_seq(obj)
        j = smt.fresh_int('j')
        ix = lambda jj: smt.ival(z3.Select(idx.arr, jj))
        inrange = z3.ForAll([j], z3.Implies(z3.And(0 <= j, j < idx.len), z3.And(ix(j) >= -row.len, ix(j) < row.len)))
        if interp.ctx.branch(inrange, 'itemgetter: all indices in range'):
            arr = smt.fresh_arr('ig')
            emit(z3.ForAll([j], z3.Implies(z3.And(0 <= j, j < idx.len),
                                           z3.Select(arr, j) == z3.Select(row.arr, z3.If(ix(j) >= 0, ix(j), ix(j) + row.len)))))
            return Seq(arr, idx.len, 'tuple', 'Fresh')
        interp.raise_('IndexError', None, node)


# ------------------------------------------------------------------------------------------ comprehension

def comprehension(interp, node, gen, src, env, kind):
    from .interp import Env as _Env
    elt = node.elt if kind != 'dict' else None

    def body_env(x):
        e = _Env({}, env)
        interp.assign(gen.target, x, e)
        return e

    def keep_and_val(x):
        e = body_env(x)
        for c in gen.ifs:
            if not interp.truth(interp.eval(c, e)):
                return False, None
        if kind == 'dict':
            return True, (interp.eval(node.key, e), interp.eval(node.value, e))
        return True, interp.eval(elt, e)

    it = get_iter(interp, src, node)
    if kind == 'gen':
        return MapIter(it, keep_and_val)
    if is_concrete_iter(it):
        items = []
        while True:
            try:
                x = next_(interp, it, node)
            except PyExc as e:
                if e.kind == 'StopIteration' and getattr(e, 'from_next', False):
                    break
                raise
            k, v = keep_and_val(x)
            if k:
                items.append(v)
        if kind == 'list':
            return PyList(items, 'list')
        if kind == 'set':
            return make_set(interp, items)
        d = SDict(interp)
        for k, v in items:
            d.setitem(interp, k, v)
        return d
    # symbolic length: pointwise map (no filter), element expression evaluated once on a generic element
    if kind != 'list' and kind != 'tuple':
        raise Unsupported('symbolic %s comprehension at %s' % (kind, interp.where(node)))
    return symbolic_map(interp, it, gen, node, env, keep_and_val, 'list')


def symbolic_map(interp, it, gen, node, env, keep_and_val, kind):
    """[elt for x in seq] with len(seq) symbolic: pointwise through drain()"""
    if gen.ifs:
        hook = getattr(interp, 'filter_hook', None)
        if hook is not None:
            return hook(interp, it, gen, node, env)
        oc = ordered_complement(interp, it, gen, node, env, kind)
        if oc is not None:
            return oc
        oc = drop_index(interp, it, gen, node, env, kind)
        if oc is not None:
            return oc
        if getattr(interp, 'exact_filters', False):
            oc = exact_filter(interp, it, gen, node, env, kind, keep_and_val)
            if oc is not None:
                return oc
        if not getattr(interp, 'overapprox_filters', False):
            raise Unsupported('filtered comprehension over a symbolic sequence at %s' % interp.where(node))
        # sound over-approximation (havoc): some list no longer than the source; contents unconstrained
        n = z3.simplify(sym_remaining(it))
        ln = smt.fresh_int('flen')
        interp.ctx.assume(z3.And(0 <= ln, ln <= n))
        arr = smt.fresh_arr('filtered')
        q, w = smt.fresh_int('q'), smt.fresh_int('w')
        if isinstance(it, SrcIter) and it.arr is None:       # filter of a range: ints of that range
            lo = it.range_lo + it.pos
            interp.ctx.facts.append(z3.ForAll([q], z3.Implies(z3.And(0 <= q, q < ln), z3.And(
                smt.is_int(z3.Select(arr, q)), lo <= smt.ival(z3.Select(arr, q)), smt.ival(z3.Select(arr, q)) < lo + n))))
        elif isinstance(it, SrcIter) and isinstance(getattr(node, 'elt', None), ast.Name) and isinstance(gen.target, ast.Name) and node.elt.id == gen.target.id:
            # [x for x in seq if ...]: every kept element is an element of seq
            interp.ctx.facts.append(z3.ForAll([q], z3.Implies(z3.And(0 <= q, q < ln), z3.Exists([w], z3.And(
                0 <= w, w < n, z3.Select(arr, q) == z3.Select(it.arr, it.pos + w))))))
        sym_exhaust(it)
        return Seq(arr, ln, kind, 'Fresh')
    return drain(interp, MapIter(it, keep_and_val), kind, node)


def exact_filter(interp, it, gen, node, env, kind, keep_and_val):
    """[x for x in seq if cond(x)]  with a pure, exception-free condition: the order-preserving subsequence of the elements that
    satisfy it -- characterised exactly (T6) through a strictly increasing index map idx and its inverse inv:
        r[q] = seq[idx(q)], cond(seq[idx(q)]), idx strictly increasing;   cond(seq[p])  ==>  idx(inv(p)) = p, 0 <= inv(p) < len(r)"""
    if not (isinstance(it, SrcIter) and it.arr is not None and isinstance(gen.target, ast.Name)
            and isinstance(getattr(node, 'elt', None), ast.Name) and node.elt.id == gen.target.id):
        return None
    e = smt.fresh_v('cj!felem')          # ('cj!' marks facts about the bound element as branch conditions, see is_axiom_instance)
    paths = ite_paths(interp, lambda: keep_and_val(SCell(e)), [], bound=e)
    if any(exc is not None for _, _, exc in paths):
        return None
    phi = z3.Or([g for g, v, _ in paths if v[0]] + [z3.BoolVal(False)])
    at = lambda term: z3.substitute(phi, (e, term))
    n = z3.simplify(it.n - it.pos)
    src = lambda p: z3.Select(it.arr, it.pos + p)
    ln = smt.fresh_int('flen')
    arr = smt.fresh_arr('filtered')
    tag = str(ln)
    idx = z3.Function('fidx!' + tag, z3.IntSort(), z3.IntSort())
    inv = z3.Function('finv!' + tag, z3.IntSort(), z3.IntSort())
    q, q2, p = smt.fresh_int('q'), smt.fresh_int('q2'), smt.fresh_int('p')
    interp.ctx.assume(z3.And(0 <= ln, ln <= n))
    emit(z3.ForAll([q], z3.Implies(z3.And(0 <= q, q < ln), z3.And(0 <= idx(q), idx(q) < n, z3.Select(arr, q) == src(idx(q)), at(src(idx(q))))),
                   patterns=[z3.Select(arr, q), idx(q)]))
    emit(z3.ForAll([q, q2], z3.Implies(z3.And(0 <= q, q < q2, q2 < ln), idx(q) < idx(q2)), patterns=[z3.MultiPattern(idx(q), idx(q2))]))
    emit(z3.ForAll([p], z3.Implies(z3.And(0 <= p, p < n, at(src(p))), z3.And(0 <= inv(p), inv(p) < ln, idx(inv(p)) == p)), patterns=[inv(p), src(p)]))
    sym_exhaust(it)
    r = Seq(arr, ln, kind, 'Fresh')
    r.filter_of = (idx, inv)
    return r


def drop_index(interp, it, gen, node, env, kind):
    """[v for i, v in enumerate(seq) if i != c]  (the "all cells but one" idiom), c not depending on i, v: the elements of
    seq in order with position c left out (nothing left out when c is not a position of seq) -- exact (T6)."""
    if not (isinstance(it, ZipIter) and not it.longest and len(it.inners) == 2 and isinstance(it.inners[0], CountIter)
            and isinstance(it.inners[1], SrcIter) and it.inners[1].arr is not None and len(gen.ifs) == 1
            and isinstance(gen.target, ast.Tuple) and len(gen.target.elts) == 2 and all(isinstance(e, ast.Name) for e in gen.target.elts)
            and isinstance(getattr(node, 'elt', None), ast.Name) and node.elt.id == gen.target.elts[1].id):
        return None
    cnt, src = it.inners
    if not (is_conc_int(cnt.cur) and cnt.cur == 0 and is_conc_int(cnt.step) and cnt.step == 1):
        return None
    iname, vname = gen.target.elts[0].id, gen.target.elts[1].id
    c = gen.ifs[0]
    if not (isinstance(c, ast.Compare) and len(c.ops) == 1 and isinstance(c.ops[0], ast.NotEq)):
        return None
    l, r = c.left, c.comparators[0]
    if isinstance(l, ast.Name) and l.id == iname:
        other = r
    elif isinstance(r, ast.Name) and r.id == iname:
        other = l
    else:
        return None
    if any(isinstance(n, ast.Name) and n.id in (iname, vname) for n in ast.walk(other)):
        return None
    cv = interp.eval(other, env)
    if not isinstance(cv, (int, SInt)) or isinstance(cv, bool):
        return None
    ct = to_int(cv)
    n = z3.simplify(src.n - src.pos)
    inside = z3.And(0 <= ct, ct < n)
    ln = z3.If(inside, n - 1, n)
    arr = smt.fresh_arr('dropped')
    q = smt.fresh_int('q')
    emit(z3.ForAll([q], z3.Implies(z3.And(0 <= q, q < ln),
                                   z3.Select(arr, q) == z3.Select(src.arr, src.pos + z3.If(z3.And(inside, q >= ct), q + 1, q)))))
    sym_exhaust(src)
    return Seq(arr, z3.simplify(ln), kind, 'Fresh')


def ordered_complement(interp, it, gen, node, env, kind):
    """[i for i in range(n) if i not in X]  (the "all other fields" idiom): the ascending list of the integers of the
    range that are not members of X -- characterised exactly (T6): in range, not in X, strictly ascending, complete."""
    if not (isinstance(it, SrcIter) and it.arr is None and len(gen.ifs) == 1 and isinstance(gen.target, ast.Name)
            and isinstance(getattr(node, 'elt', None), ast.Name) and node.elt.id == gen.target.id):
        return None
    c = gen.ifs[0]
    if not (isinstance(c, ast.Compare) and len(c.ops) == 1 and isinstance(c.ops[0], ast.NotIn) and isinstance(c.left, ast.Name)
            and c.left.id == gen.target.id and isinstance(c.comparators[0], ast.Name)):
        return None
    X = interp.eval(c.comparators[0], env)
    lo = it.range_lo + it.pos
    n = z3.simplify(it.n - it.pos)
    hi = lo + n
    if isinstance(X, (PyList, tuple)):
        items = X.items if isinstance(X, PyList) else list(X)
        try:
            mem = lambda i: z3.Or([to_int(x) == i for x in items] or [z3.BoolVal(False)])
        except Unsupported:
            return None
    elif isinstance(X, Seq):
        def mem(i):
            p = smt.fresh_int('p')
            return z3.Exists([p], z3.And(0 <= p, p < X.len, smt.ival(z3.Select(X.arr, p)) == i))
    else:
        return None
    ln = smt.fresh_int('flen')
    arr = smt.fresh_arr('others')
    q, i = smt.fresh_int('q'), smt.fresh_int('i')
    val = lambda qq: smt.ival(z3.Select(arr, qq))
    ctx = interp.ctx
    ctx.assume(z3.And(ln >= 0, ln <= n))
    ctx.facts.append(z3.ForAll([q], z3.Implies(z3.And(0 <= q, q < ln),
                                               z3.And(smt.is_int(z3.Select(arr, q)), lo <= val(q), val(q) < hi, z3.Not(mem(val(q)))))))
    ctx.facts.append(z3.ForAll([q], z3.Implies(z3.And(0 <= q, q + 1 < ln), val(q) < val(q + 1))))
    ctx.facts.append(z3.ForAll([i], z3.Implies(z3.And(lo <= i, i < hi, z3.Not(mem(i))), z3.Exists([q], z3.And(0 <= q, q < ln, val(q) == i)))))
    sym_exhaust(it)
    r = Seq(arr, ln, kind, 'Fresh')
    r.complement_of = (X, lo, hi)
    return r


def ite_eval(interp, thunk, hyps):
    """evaluate thunk() under every branch outcome and merge the results into one If-term (no path split);
    only for pure expressions.  An exception on a feasible branch is unsupported here."""
    ctx = interp.ctx
    saved = (ctx.decisions, ctx.taken, ctx.alternatives, ctx.facts)
    results = []
    work = [[]]
    base_facts = list(ctx.facts) + list(hyps)
    try:
        while work:
            dec = work.pop()
            ctx.decisions, ctx.taken, ctx.alternatives = list(dec), [], []
            ctx.facts = list(base_facts)
            nfacts = len(ctx.facts)
            try:
                v = thunk()
            except PathEnd:
                continue
            except PyExc as e:
                raise Unsupported('element expression may raise %s' % e.kind)
            conds = ctx.facts[nfacts:]
            # facts emitted (axiom instances) and branch conditions are mixed; keep all as guards: harmless
            results.append((conds, v))
            work.extend(ctx.alternatives)
            if len(results) > 64:
                raise Unsupported('element expression has too many paths')
    finally:
        ctx.decisions, ctx.taken, ctx.alternatives, ctx.facts = saved
    if not results:
        raise PathEnd()
    # branch conditions only (decisions) distinguish the paths; emitted axiom instances are re-emitted globally
    val = None
    for conds, v in results:
        for c in conds:
            if is_axiom_instance(c):
                emit(c)
    for conds, v in reversed(results):
        guard = z3.And([c for c in conds if not is_axiom_instance(c)] or [z3.BoolVal(True)])
        vv = as_v(v)
        val = vv if val is None else z3.If(guard, vv, val)
    return SCell(val)


def is_axiom_instance(c):
    # instantiated lifting axioms mention mkint/mkseq/c!...; branch conditions are everything else.  Conservative:
    # a fact is an axiom instance if it does not mention any bound comprehension variable  -> decided by the
    # caller's fresh names 'cj!'; here: facts without 'cj!' are global.
    return 'cj!' not in c.sexpr()


# ------------------------------------------------------------------------------------------ builtin functions

def _b(name):
    def deco(f):
        BUILTINS[name] = Builtin(name, f)
        return f
    return deco


BUILTINS = {}
BUILTINS['int'] = TypeObj('int', ['NUM'], lambda v: z3.Or(smt.is_int(v), smt.is_bool(v)))
BUILTINS['float'] = TypeObj('float', ['NUM'], lambda v: z3.And(z3.Not(smt.is_int(v)), z3.Not(smt.is_bool(v))))
BUILTINS['bool'] = TypeObj('bool', ['NUM'], lambda v: smt.is_bool(v))
BUILTINS['str'] = TypeObj('str', ['TEXT'])
BUILTINS['bytes'] = TypeObj('bytes', ['BYTES'])
BUILTINS['list'] = TypeObj('list', ['LIST'])
BUILTINS['tuple'] = TypeObj('tuple', ['TUPLE'])
BUILTINS['dict'] = TypeObj('dict', [])
BUILTINS['set'] = TypeObj('set', [])
BUILTINS['object'] = TypeObj('object', [])
BUILTINS['type'] = Builtin('type', lambda interp, args, kw, node: type_of(interp, args[0], node))
for _e in list(EXC_PARENTS) + ['BaseException']:
    BUILTINS[_e] = ExcClass(_e)
BUILTINS['True'], BUILTINS['False'], BUILTINS['None'] = True, False, None
BUILTINS['NotImplemented'] = Opaque('NotImplemented')


class TypeOf(object):
    def __init__(self, v):
        self.v = v


def type_of(interp, v, node):
    return TypeOf(v)


def getattr_builtin(interp, obj, attr, node=None):
    if isinstance(obj, TypeOf) and attr == '__name__':
        v = obj.v
        if isinstance(v, SCell):
            # case split on the value class so that the name is a concrete string
            for cname in smt.CLS_NAMES[:-1]:
                if interp.ctx.branch(smt.cls(v.t) == smt.CL[cname], 'type name'):
                    return smt.TYPENAME[cname]
            return SCell(smt.fresh_v('typename'))
        if isinstance(v, tuple):
            return 'tuple'
        if isinstance(v, PyList):
            return v.kind
        if isinstance(v, Instance):
            return v.cls.name
        return type(v).__name__
    if isinstance(obj, ExternalModule):
        return lookup_external(obj.name, attr)
    if isinstance(obj, (Seq, PyList, tuple)):
        return Builtin('seq.' + attr, lambda interp, args, kw, node_, o=obj, a=attr: seq_method(interp, o, a, args, kw, node_))
    if isinstance(obj, ADict) and attr == 'get':
        def _get(interp, args, kw, node_, o=obj):
            ck = o.key(args[0])
            if interp.ctx.branch(z3.Select(o.has, ck), 'key present'):
                return SCell(z3.Select(o.val, ck))
            return args[1] if len(args) > 1 else None
        return Builtin('dict.get', _get)
    if isinstance(obj, SDeque):
        def _dq(interp, args, kw, node_, o=obj, a=attr):
            interp.log_mutation(a, o, node_)
            if a == 'append':
                o.arr = z3.Store(o.arr, o.hi, as_v(args[0]))
                o.hi = z3.simplify(o.hi + 1)
                return None
            if a == 'popleft':
                if interp.ctx.branch(o.hi - o.lo <= 0, 'popleft on an empty deque'):
                    interp.raise_('IndexError', 'pop from an empty deque', node_)
                v = SCell(z3.Select(o.arr, o.lo))
                o.lo = z3.simplify(o.lo + 1)
                return v
            raise Unsupported('deque method %s' % a)
        return Builtin('deque.' + attr, _dq)
    if isinstance(obj, ASet) and attr == 'add':
        def _add(interp, args, kw, node_, o=obj):
            interp.log_mutation('add', o, node_)
            o.add(interp, args[0])
        return Builtin('set.add', _add)
    if isinstance(obj, SDict):
        return Builtin('dict.' + attr, lambda interp, args, kw, node_, o=obj, a=attr: dict_method(interp, o, a, args, kw, node_))
    if isinstance(obj, SCell):
        return Builtin('cell.' + attr, lambda interp, args, kw, node_, o=obj, a=attr: cell_method(interp, o, a, args, kw, node_))
    if isinstance(obj, str):
        return Builtin('str.' + attr, lambda interp, args, kw, node_, o=obj, a=attr: str_method(interp, o, a, args, kw, node_))
    if isinstance(obj, Opaque):
        if attr in obj.attrs:
            return obj.attrs[attr]
        if getattr(obj, 'methods', None) is not None and attr not in obj.methods:
            interp.raise_('AttributeError', attr, node)
        return Builtin('%s.%s' % (obj.kind, attr), lambda interp, args, kw, node_, o=obj, a=attr: opaque_method(interp, o, a, args, kw, node_))
    if isinstance(obj, CaughtExc):
        return Opaque('excattr')
    if isinstance(obj, TypeObj) and attr == '__name__':
        return obj.name
    if isinstance(obj, Closure) and attr == '__name__':
        return obj.qualname.split('.')[-1]
    raise Unsupported('attribute %s of %r at %s' % (attr, obj, interp.where(node) if node is not None else '?'))


def seq_method(interp, obj, attr, args, kw, node):
    if attr in MUTATORS:
        interp.log_mutation(attr, obj, node)
    if attr == 'append':
        if isinstance(obj, PyList):
            obj.items.append(args[0])
            return None
        obj.arr = z3.Store(obj.arr, obj.len, as_v(args[0]))
        obj.len = z3.simplify(obj.len + 1)
        if hasattr(obj, 'written'):
            obj.written()
        return None
    if attr == 'extend':
        return list_extend(interp, obj, args[0], node)
    if attr == 'insert':
        return list_insert(interp, obj, args[0], args[1], node)
    if attr == 'index':
        return seq_index(interp, obj, args[0], node)
    if attr == 'sort':
        # T1: list.sort(key=, reverse=) leaves a permutation of the same elements, ordered by key (stable)
        if isinstance(obj, PyList):
            obj.go_symbolic()
        old_arr, ln = obj.arr, obj.len
        obj.arr = smt.fresh_arr('sorted')
        q, w = smt.fresh_int('q'), smt.fresh_int('w')
        emit(z3.ForAll([q], z3.Implies(z3.And(0 <= q, q < ln), z3.Exists([w], z3.And(0 <= w, w < ln, z3.Select(obj.arr, q) == z3.Select(old_arr, w))))))
        interp.trace.append(('list.sort', obj, kw.get('key'), kw.get('reverse')))
        return None
    if attr == 'pop' and isinstance(obj, PyList):
        try:
            return obj.items.pop(*[a for a in args])
        except IndexError:
            interp.raise_('IndexError', None, node)
    if attr == 'remove' and isinstance(obj, PyList):
        k = seq_index(interp, obj, args[0], node)
        del obj.items[k]
        return None
    if attr == 'remove' and isinstance(obj, Seq):
        k = seq_index(interp, obj, args[0], node)
        delitem(interp, obj, k, node)
        return None
    if attr == 'count':
        if isinstance(obj, (tuple, PyList)):
            items = obj.items if isinstance(obj, PyList) else obj
            c = 0
            for it in items:
                if interp.truth(py_equal(interp, it, args[0])):
                    c += 1
            return c
    raise Unsupported('sequence method %s on %r at %s' % (attr, obj, interp.where(node)))


def dict_method(interp, obj, attr, args, kw, node):
    if attr in MUTATORS:
        interp.log_mutation(attr, obj, node)
    if attr == 'get':
        i = obj._find(interp, args[0])
        return obj.vals[i] if i is not None else (args[1] if len(args) > 1 else None)
    if attr == 'keys':
        return PyList(list(obj.keys), 'list')
    if attr == 'values':
        return PyList(list(obj.vals), 'list')
    if attr == 'items':
        return PyList([(k, v) for k, v in zip(obj.keys, obj.vals)], 'list')
    if attr == 'pop':
        i = obj._find(interp, args[0])
        if i is None:
            if len(args) > 1:
                return args[1]
            interp.raise_('KeyError', args[0], node)
        v = obj.vals[i]
        del obj.keys[i]
        del obj.vals[i]
        return v
    if attr == 'update':
        for k, v in (args[0].conc_items(interp) if isinstance(args[0], SDict) else []):
            obj.setitem(interp, k, v)
        for k, v in kw.items():
            obj.setitem(interp, k, v)
        return None
    if attr == 'setdefault':
        i = obj._find(interp, args[0])
        if i is None:
            obj.setitem(interp, args[0], args[1] if len(args) > 1 else None)
            return args[1] if len(args) > 1 else None
        return obj.vals[i]
    if attr == 'copy':
        return obj.copy(interp)
    raise Unsupported('dict method %s' % attr)


def cell_method(interp, obj, attr, args, kw, node):
    """method call on an opaque cell value: uninterpreted, may raise (AttributeError / TypeError ...)"""
    if attr in MUTATORS:
        interp.log_mutation(attr, obj, node)
        raise Unsupported('mutating method %s on an opaque cell at %s' % (attr, interp.where(node)))
    if attr == 'index':
        return seq_index(interp, obj, args[0], node)
    f = z3.Function('meth_%s_%d' % (attr, len(args)), *([V] * (len(args) + 1) + [V]))
    ok = z3.Function('meth_%s_%d_ok' % (attr, len(args)), *([V] * (len(args) + 1) + [B]))
    vs = [obj.t] + [as_v(a) for a in args]
    if interp.ctx.branch(ok(*vs), 'method %s defined' % attr):
        return SCell(f(*vs))
    interp.raise_('AttributeError', attr, node)


def str_method(interp, obj, attr, args, kw, node):
    if all(isinstance(a, str) for a in args):
        return getattr(obj, attr)(*args)
    return SCell(smt.fresh_v('strm'))


def opaque_method(interp, obj, attr, args, kw, node):
    return call_opaque(interp, Opaque(obj.kind + '.' + attr, obj.name + '.' + attr, {'self': obj}), args, kw, node)


def call_opaque(interp, fn, args, kwargs, node):
    h = getattr(interp, 'opaque_hook', None)
    if h is not None:
        return h(interp, fn, args, kwargs, node)
    raise Unsupported('call of external %r at %s' % (fn, interp.where(node) if node is not None else '?'))


def ucall_terms(name, vs):
    """(result, raises, exception object) terms of the uninterpreted callback `name` applied to V-terms vs"""
    n = len(vs)
    f = z3.Function('ucall_%s_%d' % (name, n), *([V] * n + [V]))
    rs = z3.Function('ucall_%s_%d_raises' % (name, n), *([V] * n + [B]))
    ex = z3.Function('ucall_%s_%d_exc' % (name, n), *([V] * n + [V]))
    return f(*vs), rs(*vs), ex(*vs)


def call_ucall(interp, fn, args, kwargs, node):
    """user callback: uninterpreted function of its (lifted) arguments; deterministic; may raise"""
    args = [to_seq(interp, a, 'list', node) if isinstance(a, (MapIter, SrcIter, ZipIter, ListIter, GenObj)) else a for a in args]
    fn.last_args = args
    vs = [as_v(a if not isinstance(a, Instance) else instance_value(interp, a)) for a in args]
    if not vs:
        vs = [as_v(0)]
    r, raises, exc = ucall_terms(fn.name, vs)
    fn.calls.append(vs)
    if fn.may_raise and interp.ctx.branch(raises, 'callback %s raises' % fn.name):
        e = PyExc('UserError', SCell(exc), interp.where(node) if node is not None else None)
        e.ucall = (fn.name, vs)
        raise e
    if fn.result == 'bool':
        return SBool(smt.truthy(r))
    return SCell(r, untrusted=True)


def instance_value(interp, inst):
    """V-term standing for an interpreted instance handed to a callback (Record -> its row)"""
    if '_tuple' in inst.attrs:
        return inst.attrs['_tuple']
    if 'row' in inst.attrs:
        return inst.attrs['row']
    if '_v' in inst.attrs:
        return inst.attrs['_v']
    v = SCell(smt.fresh_v('inst_' + inst.cls.name))
    inst.attrs['_v'] = v
    return v


def derives_from_tuple(cls):
    stack = [cls]
    while stack:
        c = stack.pop()
        for b in getattr(c, 'bases', []):
            if isinstance(b, TypeObj) and b.name == 'tuple':
                return True
            if isinstance(b, ClassObj):
                stack.append(b)
    return False


def super_call(interp, node, env):
    """super(Cls, self).method(args) for tuple subclasses: the built-in tuple method on the underlying contents"""
    sup = node.func.value
    selfobj = interp.eval(sup.args[1], env) if len(sup.args) == 2 else env.lookup('self')
    meth = node.func.attr
    args = [interp.eval(a, env) for a in node.args]
    if isinstance(selfobj, Instance) and '_tuple' in selfobj.attrs:
        under = selfobj.attrs['_tuple']
        if meth == '__getitem__':
            return getitem(interp, under, args[0], node)
        if meth == '__len__':
            return _len(interp, [under], {}, node)
        if meth == '__iter__':
            return get_iter(interp, under, node)
    if meth == '__new__':
        return selfobj
    # super(Cls, self).method(...): first base of Cls (depth-first) that defines the method
    if isinstance(selfobj, Instance) and len(sup.args) == 2:
        cls = interp.eval(sup.args[0], env)
        if isinstance(cls, ClassObj):
            for base in cls.bases:
                if isinstance(base, ClassObj):
                    f = base.find(meth)
                    if f:
                        kwargs = {k.arg: interp.eval(k.value, env) for k in node.keywords if k.arg}
                        return interp.call(BoundMethod(f[0], selfobj), args, kwargs, node)
            if meth == '__init__':
                return None
    raise Unsupported('super().%s at %s' % (meth, interp.where(node)))


def with_stmt(interp, node, env):
    """`with expr as name:` for external (Opaque) context managers: enter/exit are recorded in the effect trace;
    __exit__ runs on every way out of the body (it closes the object and does not swallow exceptions: T7)"""
    h = getattr(interp, 'with_hook', None)
    if h is not None:
        return h(interp, node, env)
    objs = []
    for item in node.items:
        obj = interp.eval(item.context_expr, env)
        if not isinstance(obj, Opaque):
            raise Unsupported('with statement over %r at %s' % (obj, interp.where(node)))
        interp.trace.append(('with-enter', obj))
        objs.append(obj)
        if item.optional_vars is not None:
            interp.assign(item.optional_vars, obj, env)
    try:
        interp.exec_block(node.body, env)
    finally:
        import sys
        et = sys.exc_info()[0]
        from .interp import _Return, _Break, _Continue
        if et is None or issubclass(et, (PyExc, _Return, _Break, _Continue)):
            for obj in reversed(objs):
                interp.trace.append(('with-exit', obj))


@_b('len')
def _len(interp, args, kw, node):
    v = args[0]
    if isinstance(v, (tuple, str)):
        return len(v)
    if isinstance(v, PyList):
        return len(v.items)
    if isinstance(v, (Seq, SDeque)):
        n = z3.simplify(v.len)
        return n.as_long() if z3.is_int_value(n) else SInt(n)
    if isinstance(v, SCell):
        emit(smt.seq_len(v.t) >= 0)
        return SInt(smt.seq_len(v.t))
    if isinstance(v, SDict):
        return len(v.keys)
    if isinstance(v, SSet):
        return len(v.items)
    if isinstance(v, Instance):
        f = v.cls.find('__len__')
        if f:
            return interp.call(BoundMethod(f[0], v), [], {})
        if '_tuple' in v.attrs:
            return _len(interp, [v.attrs['_tuple']], kw, node)
    raise Unsupported('len(%r) at %s' % (v, interp.where(node)))


@_b('iter')
def _iter(interp, args, kw, node):
    return get_iter(interp, args[0], node)


@_b('next')
def _next(interp, args, kw, node):
    it = args[0]
    try:
        return next_(interp, it if not isinstance(it, GenObj) else get_iter(interp, it), node)
    except PyExc as e:
        if e.kind == 'StopIteration' and len(args) > 1:
            return args[1]
        raise


@_b('isinstance')
def _isinstance(interp, args, kw, node):
    return instance_test(interp, args[0], args[1])


@_b('callable')
def _callable(interp, args, kw, node):
    v = args[0]
    if isinstance(v, (Closure, Builtin, UCall, ClassObj, BoundMethod, Partial, ItemGetter, TypeObj)):
        return True
    if isinstance(v, SCell):
        return SBool(z3.Function('is_callable', V, B)(v.t))
    if isinstance(v, Instance):
        return v.cls.find('__call__') is not None
    return False


@_b('range')
def _range(interp, args, kw, node):
    if len(args) == 1:
        return RangeObj(0, args[0])
    if len(args) == 2:
        return RangeObj(args[0], args[1])
    raise Unsupported('range with step')


BUILTINS['xrange'] = BUILTINS['range']


@_b('reversed')
def _reversed(interp, args, kw, node):
    """reversed(seq): the elements last to first (T6); concrete sequences are reversed eagerly, symbolic ones get r[q] = s[len-1-q]"""
    v = args[0]
    if isinstance(v, (tuple, list)):
        return ListIter(list(reversed(v)))
    if isinstance(v, PyList):
        return ListIter(list(reversed(v.items)))
    s = v if isinstance(v, Seq) else view_seq(v)
    arr = smt.fresh_arr('reversed')
    q = smt.fresh_int('q')
    emit(z3.ForAll([q], z3.Implies(z3.And(0 <= q, q < s.len), z3.Select(arr, q) == z3.Select(s.arr, s.len - 1 - q)), patterns=[z3.Select(arr, q)]))
    return SrcIter(arr, s.len, 'reversed', origin='Fresh')


@_b('enumerate')
def _enumerate(interp, args, kw, node):
    it = get_iter(interp, args[0], node)
    start = args[1] if len(args) > 1 else kw.get('start', 0)
    return ZipIter([CountIter(start, 1), it])


@_b('zip')
def _zip(interp, args, kw, node):
    return ZipIter([get_iter(interp, a, node) for a in args])


@_b('map')
def _map(interp, args, kw, node):
    fn = args[0]
    if len(args) != 2:
        raise Unsupported('map with several iterables')
    src = args[1]
    it = get_iter(interp, src, node)
    return MapIter(it, lambda x: (True, interp.call(fn, [x], {})))


@_b('filter')
def _filter(interp, args, kw, node):
    fn = args[0]
    it = get_iter(interp, args[1], node)
    return MapIter(it, lambda x: (interp.truth(interp.call(fn, [x], {}) if fn is not None else x), x))


@_b('any')
def _any(interp, args, kw, node):
    for x in iter_concrete(interp, args[0]):
        if interp.truth(x):
            return True
    return False


@_b('all')
def _all(interp, args, kw, node):
    for x in iter_concrete(interp, args[0]):
        if not interp.truth(x):
            return False
    return True


@_b('repr')
def _repr(interp, args, kw, node):
    return SCell(smt.fresh_v('repr'))


@_b('hasattr')
def _hasattr(interp, args, kw, node):
    o, a = args
    if isinstance(o, Instance):
        return a in o.attrs or o.cls.find(a) is not None
    if isinstance(o, (Closure, Builtin)):
        return a in ('__call__', '__name__')
    if isinstance(o, SCell):
        return SBool(z3.Function('hasattr_%s' % a, V, B)(o.t))
    if isinstance(o, (Seq, PyList, tuple)):
        return a in ('__iter__', '__len__', '__getitem__')
    if isinstance(o, Opaque):
        return a in o.attrs or a in (getattr(o, 'methods', None) or ())
    return False


@_b('getattr')
def _getattr(interp, args, kw, node):
    try:
        return interp.getattr(args[0], args[1], node)
    except PyExc as e:
        if e.kind == 'AttributeError' and len(args) > 2:
            return args[2]
        raise


def _minmax(interp, args, kw, node, which):
    """min/max over a concrete-length collection with an optional key (T1): the FIRST extremal element"""
    items = iter_concrete(interp, args[0]) if len(args) == 1 else list(args)
    if not items:
        if 'default' in kw:
            return kw['default']
        interp.raise_('ValueError', '%s() arg is an empty sequence' % which, node)
    key = kw.get('key')
    kf = (lambda x: interp.call(key, [x], {})) if key is not None else (lambda x: x)
    best, kb = items[0], kf(items[0])
    op = ast.Lt() if which == 'min' else ast.Gt()
    for x in items[1:]:
        kx = kf(x)
        if interp.truth(compare(interp, op, kx, kb, node)):
            best, kb = x, kx
    return best


@_b('min')
def _min(interp, args, kw, node):
    return _minmax(interp, args, kw, node, 'min')


@_b('max')
def _max(interp, args, kw, node):
    return _minmax(interp, args, kw, node, 'max')


@_b('sorted')
def _sorted(interp, args, kw, node):
    raise Unsupported('sorted()')


@_b('sum')
def _sum(interp, args, kw, node):
    """sum over a concrete-length iterable (fold of +), or of a constant over a symbolic iterator: c * remaining (T2)"""
    it = get_iter(interp, args[0], node)
    start = args[1] if len(args) > 1 else kw.get('start', 0)
    if is_concrete_iter(it):
        acc = start
        for x in iter_concrete(interp, it):
            acc = binop(interp, ast.Add(), acc, x, node)
        return acc
    if isinstance(it, MapIter) and isinstance(it.inner, SrcIter) and it.inner.arr is not None:
        n = z3.simplify(sym_remaining(it.inner))
        keep, val = it.fn(SCell(smt.fresh_v('sum_elem')))
        if keep is True and is_conc_int(val) and is_conc_int(start):
            sym_exhaust(it.inner)
            return SInt(z3.simplify(start + val * n))
    raise Unsupported('sum() over a symbolic iterable')


@_b('print')
def _print(interp, args, kw, node):
    return None


@_b('id')
def _id(interp, args, kw, node):
    return SInt(smt.fresh_int('id'))


@_b('super')
def _super(interp, args, kw, node):
    raise Unsupported('super()')


@_b('partial')
def _partial(interp, args, kw, node):
    return Partial(args[0], args[1:], kw)


@_b('itemgetter')
def _itemgetter(interp, args, kw, node):
    if len(args) == 1 and isinstance(args[0], StarSeq):
        sq = args[0].seq
        if interp.ctx.branch(sq.len == 0, 'itemgetter()'):
            interp.raise_('TypeError', 'itemgetter expected 1 argument, got 0', node)
        if interp.ctx.branch(sq.len == 1, 'itemgetter(single)'):
            return ItemGetter([SInt(smt.ival(z3.Select(sq.arr, 0)))])
        return ItemGetter(sq)
    if not args:
        interp.raise_('TypeError', 'itemgetter expected 1 argument, got 0', node)
    return ItemGetter(list(args))


@_b('attrgetter')
def _attrgetter(interp, args, kw, node):
    names = list(args)
    def f(interp, a, kw_, node_):
        vals = [interp.getattr(a[0], n, node_) for n in names]
        return vals[0] if len(vals) == 1 else tuple(vals)
    return Builtin('attrgetter', f)


@_b('chain')
def _chain(interp, args, kw, node):
    items = []
    for a in args:
        if isinstance(a, (Seq, SCell)) or (isinstance(a, SrcIter) and not is_concrete_iter(a)):
            # chain of symbolic sequences: concatenate
            acc = None
            for b in args:
                s = view_seq(b) if not isinstance(b, SrcIter) else drain(interp, b, 'list', node)
                acc = s if acc is None else concat(interp, acc, s)
            return get_iter(interp, acc, node)
        items.extend(iter_concrete(interp, a))
    return ListIter(items)


@_b('count')
def _count(interp, args, kw, node):
    start = args[0] if args else kw.get('start', 0)
    step = args[1] if len(args) > 1 else kw.get('step', 1)
    return CountIter(start, step)


@_b('zip_longest')
def _zip_longest(interp, args, kw, node):
    return ZipIter([get_iter(interp, a, node) for a in args], longest=True, fill=kw.get('fillvalue'))


@_b('islice')
def _islice(interp, args, kw, node):
    """islice over an iterator of concrete remaining length with concrete bounds (T2)"""
    it = get_iter(interp, args[0], node)
    bounds = list(args[1:])
    interp.trace.append(('islice', args[0], tuple(bounds)))
    if len(bounds) == 1:
        bounds = [0, bounds[0]]                      # islice(it, stop)
    if len(bounds) == 3 and (bounds[2] is None or bounds[2] == 1):
        bounds = bounds[:2]
    if isinstance(it, SrcIter) and not is_concrete_iter(it) and len(bounds) == 2 and it.arr is not None and \
            isinstance(bounds[0], (int, SInt)) and (bounds[1] is None or isinstance(bounds[1], (int, SInt))) and not (is_conc_int(bounds[0]) and bounds[1] is None):
        return ISliceIter(it, bounds[0], bounds[1])      # consumed by list()/tuple() (drain_islice) or by a for loop (islice_window)
    if isinstance(it, SrcIter) and not is_concrete_iter(it) and len(bounds) == 2 and is_conc_int(bounds[0]) and bounds[0] >= 0 and bounds[1] is None:
        # islice(it, start, None): skips `start` elements (or fewer if the iterator ends), then the rest
        it.pos = z3.If(it.pos + bounds[0] <= it.n, it.pos + bounds[0], it.n)
        return it
    if is_concrete_iter(it) and all(b is None or is_conc_int(b) for b in bounds):
        import itertools as _it
        items = iter_concrete(interp, it)
        return ListIter(list(_it.islice(items, *bounds)))
    raise Unsupported('islice over a symbolic iterator / symbolic bounds')


@_b('groupby')
def _groupby(interp, args, kw, node):
    """itertools.groupby over an iterator of CONCRETE remaining length (T2): maximal runs of consecutive elements with
    == keys; used for header-only instances and shape-bounded symbolic execution (cells stay symbolic)"""
    it = get_iter(interp, args[0], node)
    key = kw.get('key', args[1] if len(args) > 1 else None)
    if not is_concrete_iter(it):
        return symbolic_groupby(interp, it, key, node)
    items = iter_concrete(interp, it)
    groups, cur, curk = [], None, None
    for x in items:
        k = interp.call(key, [x], {}) if key is not None else x
        if cur is not None and interp.truth(py_equal(interp, curk, k)):
            cur.append(x)
        else:
            cur, curk = [x], k
            groups.append((k, cur))
    return ListIter([(k, ListIter(g)) for k, g in groups])


grp_key = z3.Function('grp_key', V, V)        # the key object of a group (what the key function returned)
grp_inner = z3.Function('grp_inner', V, V)    # its .inner (petl Comparable keys)
grp_rows = z3.Function('grp_rows', V, V)      # the group's elements, as a sequence


class GroupKey(Opaque):
    def __init__(self, e):
        Opaque.__init__(self, 'groupkey', 'k', {'inner': SCell(grp_inner(e))})
        self.e = e

    def as_v_term(self):
        return grp_key(self.e)


def symbolic_groupby(interp, it, key, node):
    """itertools.groupby over an iterator of SYMBOLIC length, at group level (T2): some number G >= 0 of groups
    (G >= 1 iff there is an element), each a non-empty run; group j is an opaque element e with key grp_key(e) and
    element sequence grp_rows(e).  That the runs partition the input and are maximal is T2 itself (trusted)."""
    n = z3.simplify(sym_remaining(it))
    G = smt.fresh_int('G')
    garr = smt.fresh_arr('groups')
    interp.ctx.assume(z3.And(G >= 0, G <= n, (G >= 1) == (n >= 1)))
    q = smt.fresh_int('q')
    interp.ctx.facts.append(z3.ForAll([q], smt.seq_len(grp_rows(z3.Select(garr, q))) >= 1))
    sym_exhaust(it)
    gi = SrcIter(garr, G, 'groupby')
    gi.group_source = it
    gi.keyfn = key
    kf = getattr(interp, 'group_key_factory', None)

    def deliver(e):
        rows = get_iter(interp, view_seq(SCell(grp_rows(e.t))), node)
        rows.group_elem = e.t            # which group this iterator runs over (ghost)
        return True, ((kf(e.t) if kf is not None else GroupKey(e.t)), rows)
    hook = getattr(interp, 'on_groupby', None)
    if hook is not None:
        hook(gi)
    return MapIter(gi, deliver)


class ProductIter(SrcIter):
    """itertools.product(a, b, ...) over symbolic inputs (T2): n1 * n2 * ... tuples, one element of each input, in lexicographic
    (first input slowest) order.  A contracted loop sees ONE arbitrary tuple: fresh positions i_k < n_k."""

    def __init__(self, interp, bases):
        self.bases = bases
        total = smt.fresh_int('nprod')
        sizes = [z3.simplify(b.n - b.pos) for b in bases]
        prod = sizes[0]
        for s_ in sizes[1:]:
            prod = prod * s_
        interp.ctx.assume(z3.And(total >= 0, total == prod))
        emit(z3.And([z3.Implies(s_ == 0, total == 0) for s_ in sizes] + [z3.Implies(z3.And([s_ > 0 for s_ in sizes]), total > 0)]))
        SrcIter.__init__(self, None, total, 'product', 'Fresh')
        self.sizes = sizes


@_b('product')
def _product(interp, args, kw, node):
    import itertools as _it
    try:
        lists = [iter_concrete(interp, a) for a in args]
    except Unsupported:
        lists = None
    if lists is not None:
        return ListIter([tuple(t) for t in _it.product(*lists)])
    bases = []
    for a in args:
        it = get_iter(interp, a, node)
        if not (isinstance(it, SrcIter) and it.arr is not None):
            raise Unsupported('itertools.product over %r' % (a,))
        bases.append(it)
    return ProductIter(interp, bases)


def _opfn(astop):
    return Builtin('operator.' + astop.__name__, lambda interp, args, kw, node: compare(interp, astop(), args[0], args[1], node))


def _contains_fn(interp, args, kw, node):
    return contains(interp, args[0], args[1], node)


EXTERNAL = {
    ('operator', 'lt'): _opfn(ast.Lt), ('operator', 'le'): _opfn(ast.LtE), ('operator', 'gt'): _opfn(ast.Gt),
    ('operator', 'ge'): _opfn(ast.GtE), ('operator', 'eq'): _opfn(ast.Eq), ('operator', 'ne'): _opfn(ast.NotEq),
    ('operator', 'is_'): _opfn(ast.Is), ('operator', 'is_not'): _opfn(ast.IsNot),
    ('operator', 'contains'): Builtin('operator.contains', _contains_fn),
    ('operator', 'itemgetter'): BUILTINS['itemgetter'], ('operator', 'attrgetter'): BUILTINS['attrgetter'],
    ('functools', 'partial'): BUILTINS['partial'], ('itertools', 'chain'): BUILTINS['chain'],
    ('itertools', 'count'): BUILTINS['count'], ('itertools', 'zip_longest'): BUILTINS['zip_longest'],
    ('itertools', 'islice'): BUILTINS['islice'], ('itertools', 'groupby'): BUILTINS['groupby'],
    ('itertools', 'product'): BUILTINS['product'],
    ('collections', 'deque'): Builtin('collections.deque', lambda interp, args, kw, node: _new_deque(interp, args, node)),
}


def _new_deque(interp, args, node):
    if args:
        raise Unsupported('deque(iterable)')
    return SDeque()


def lookup_external(modname, name):
    top = modname.split('.')[0]
    if (top, name) in EXTERNAL:
        return EXTERNAL[(top, name)]
    if name in ('Decimal',):
        return TypeObj('Decimal', ['NUM'], lambda v: z3.And(z3.Not(smt.is_int(v)), z3.Not(smt.is_bool(v))))
    if top == 'datetime' or name in ('date', 'datetime', 'time'):
        if name in ('date',):
            return TypeObj('date', ['DATE', 'DATETIME'])
        if name == 'datetime':
            return TypeObj('datetime', ['DATETIME'])
        if name == 'time':
            return TypeObj('time', ['TIME'])
    if top == 'sys' and name == 'version_info':
        return Opaque('version_info', attrs={'major': 3, 'minor': 12})
    if top == 'collections' and name == 'OrderedDict':
        return BUILTINS['dict']
    return Opaque('external', '%s.%s' % (modname, name))
