"""pyvc.machine -- the interpreter proper (expressions, statements, calls, loops with contracts)."""
import ast
import z3
from . import smt
from .smt import V, I, B
from .values import (SInt, SBool, SCell, Seq, PyList, Unsupported, _t, as_v, view_seq, seq_of_items, emit)
from .interp import *
from .interp import _Return, _Break, _Continue, _walk_own
from . import builtins as bi


def is_conc(x):
    return x is None or isinstance(x, (bool, int, str, float, bytes))


class Interp(object):
    def __init__(self, program, ctx, loop_specs=None, summaries=None, config=None):
        self.program, self.ctx = program, ctx
        self.loop_specs = loop_specs or {}       # (function qualname, ordinal) -> LoopSpec
        self.summaries = summaries or {}         # qualname -> python callable(interp, args, kwargs) -> value
        self.trace = []                          # effect trace (C15-C17)
        self.mutations = []                      # frame log (C03): (op, origin, where)
        self.pulls = {}                          # ghost: iterator name -> events
        self.depth = 0
        self.fn_stack = []
        self.config = config or {}
        self.yield_hook = None
        self.gen_depth = 0
        self.ghost = {}
        self.loop_guards = []                    # containers that outlive an iteration of a contracted loop (see guard_loop)

    # ------------------------------------------------------------------ module loading
    def load_module(self, name):
        m = self.program.module(name)
        if m.loaded:
            return m
        m.loaded = True
        env = m.env
        env.vars['__name__'] = name
        for node in m.tree.body:
            self.exec_toplevel(node, m)
        return m

    def exec_toplevel(self, node, m):
        env = m.env
        if isinstance(node, ast.FunctionDef):
            env.vars[node.name] = Closure(node, env, m.name + '.' + node.name, m)
        elif isinstance(node, ast.ClassDef):
            env.vars[node.name] = self.make_class(node, env, m)
        elif isinstance(node, (ast.Import, ast.ImportFrom)):
            self.do_import(node, env, m)
        elif isinstance(node, ast.Assign):
            try:
                v = self.eval(node.value, env)
                for t in node.targets:
                    self.assign(t, v, env)
            except (Unsupported, PyExc, KeyError):
                for t in node.targets:
                    if isinstance(t, ast.Name):
                        env.vars[t.id] = Opaque('module-constant', t.id)
        elif isinstance(node, ast.If):
            # only  if PY2: ... else: ...   style switches
            try:
                c = self.eval(node.test, env)
            except (Unsupported, KeyError, PyExc):
                return
            if isinstance(c, bool):
                for n in (node.body if c else node.orelse):
                    self.exec_toplevel(n, m)
        elif isinstance(node, ast.Try):
            for n in node.body:
                try:
                    self.exec_toplevel(n, m)
                except (Unsupported, KeyError, PyExc):
                    pass

    def make_class(self, node, env, m):
        bases = []
        for b in node.bases:
            try:
                bases.append(self.eval(b, env))
            except (KeyError, Unsupported):
                bases.append(None)
        c = ClassObj(node.name, node, m, bases)
        for n in node.body:
            if isinstance(n, ast.FunctionDef):
                c.methods[n.name] = Closure(n, env, m.name + '.' + node.name + '.' + n.name, m)
            elif isinstance(n, ast.Assign) and isinstance(n.targets[0], ast.Name):
                try:
                    c.attrs[n.targets[0].id] = self.eval(n.value, env)
                except (Unsupported, KeyError, PyExc):
                    pass
        return c

    def do_import(self, node, env, m):
        if isinstance(node, ast.ImportFrom):
            if node.module == '__future__':
                return
            modname = node.module or ''
            if node.level:
                base = m.name.split('.')
                base = base[:len(base) - node.level]
                modname = '.'.join(base + ([node.module] if node.module else []))
            for a in node.names:
                nm = a.asname or a.name
                if modname.startswith('petl'):
                    try:
                        sub = self.load_module(modname)
                        if a.name in sub.env.vars:
                            env.vars[nm] = sub.env.vars[a.name]
                            continue
                    except (FileNotFoundError, Unsupported):
                        pass
                    try:
                        env.vars[nm] = ModuleRef(self.load_module(modname + '.' + a.name))
                        continue
                    except (FileNotFoundError, Unsupported, IsADirectoryError):
                        pass
                b = bi.lookup_external(modname, a.name)
                env.vars[nm] = b
        else:
            for a in node.names:
                nm = a.asname or a.name.split('.')[0]
                if a.name.startswith('petl'):
                    env.vars[nm] = ModuleRef(self.load_module(a.name))
                else:
                    env.vars[nm] = bi.ExternalModule(a.name.split('.')[0] if not a.asname else a.name)

    # ------------------------------------------------------------------ helpers
    def truth(self, v):
        """Python truthiness as a Python bool (branches if symbolic)"""
        if isinstance(v, SBool):
            return self.ctx.branch(v.t)
        if isinstance(v, SInt):
            return self.ctx.branch(v.t != 0)
        if isinstance(v, SCell):
            return self.ctx.branch(smt.truthy(v.t))
        if isinstance(v, Seq):
            return self.ctx.branch(v.len > 0)
        if isinstance(v, PyList):
            return len(v.items) > 0
        if isinstance(v, bi.SDict):
            return self.ctx.branch(v.size > 0) if v.size is not None else True
        if z3.is_expr(v):
            return self.ctx.branch(v)
        if isinstance(v, (Closure, Builtin, Instance, ClassObj, Opaque, SrcIter, MapIter, UCall, BoundMethod)):
            if isinstance(v, Instance):
                f = v.cls.find('__len__')
                if f:
                    return self.truth(self.call(BoundMethod(f[0], v), [], {}))
            return True
        return bool(v)

    def truth_term(self, v):
        """truthiness as a z3 Bool without branching"""
        if isinstance(v, SBool):
            return v.t
        if isinstance(v, SInt):
            return v.t != 0
        if isinstance(v, SCell):
            return smt.truthy(v.t)
        if isinstance(v, Seq):
            return v.len > 0
        return z3.BoolVal(self.truth(v))

    def where(self, node):
        fn = self.fn_stack[-1] if self.fn_stack else '?'
        return '%s:%s' % (fn, getattr(node, 'lineno', '?'))

    def raise_(self, kind, payload=None, node=None):
        raise PyExc(kind, payload, self.where(node) if node is not None else None)

    # ------------------------------------------------------------------ expressions
    def eval(self, node, env):
        m = getattr(self, 'e_' + type(node).__name__, None)
        if m is None:
            raise Unsupported('expression %s at %s' % (type(node).__name__, self.where(node)))
        return m(node, env)

    def e_Constant(self, node, env):
        return node.value

    def e_Name(self, node, env):
        try:
            return env.lookup(node.id)
        except KeyError:
            b = bi.BUILTINS.get(node.id)
            if b is not None:
                return b
            raise Unsupported('unbound name %s at %s' % (node.id, self.where(node)))

    def e_Tuple(self, node, env):
        items = self.eval_items(node.elts, env)
        return tuple(items)

    def e_List(self, node, env):
        return PyList(self.eval_items(node.elts, env), 'list')

    def e_Set(self, node, env):
        return bi.make_set(self, self.eval_items(node.elts, env))

    def e_Dict(self, node, env):
        d = bi.SDict(self)
        for k, v in zip(node.keys, node.values):
            d.setitem(self, self.eval(k, env), self.eval(v, env))
        return d

    def eval_items(self, elts, env):
        items = []
        for e in elts:
            if isinstance(e, ast.Starred):
                items.extend(self.iter_concrete(self.eval(e.value, env)))
            else:
                items.append(self.eval(e, env))
        return items

    def e_Lambda(self, node, env):
        return Closure(node, env, (self.fn_stack[-1] if self.fn_stack else '') + '.<lambda>', None)

    def e_IfExp(self, node, env):
        return self.eval(node.body, env) if self.truth(self.eval(node.test, env)) else self.eval(node.orelse, env)

    def e_BoolOp(self, node, env):
        isand = isinstance(node.op, ast.And)
        v = None
        for sub in node.values:
            v = self.eval(sub, env)
            if sub is node.values[-1]:
                return v
            t = self.truth(v)
            if isand and not t:
                return v
            if not isand and t:
                return v
        return v

    def e_UnaryOp(self, node, env):
        v = self.eval(node.operand, env)
        if isinstance(node.op, ast.Not):
            if isinstance(v, SBool):
                return SBool(z3.Not(v.t))
            if isinstance(v, (SCell, SInt, Seq)):
                return SBool(z3.Not(self.truth_term(v)))
            return not self.truth(v)
        if isinstance(node.op, ast.USub):
            if isinstance(v, SCell):
                v = SInt(smt.ival(v.t))
            return -v
        raise Unsupported('unary op at %s' % self.where(node))

    def e_BinOp(self, node, env):
        a, b = self.eval(node.left, env), self.eval(node.right, env)
        return bi.binop(self, node.op, a, b, node)

    def e_Compare(self, node, env):
        left = self.eval(node.left, env)
        result = None
        for op, rnode in zip(node.ops, node.comparators):
            right = self.eval(rnode, env)
            result = self.compare(op, left, right, node)
            if rnode is not node.comparators[-1]:
                if not self.truth(result):
                    return result
            left = right
        return result

    def compare(self, op, a, b, node=None):
        return bi.compare(self, op, a, b, node)

    def e_Attribute(self, node, env):
        obj = self.eval(node.value, env)
        return self.getattr(obj, node.attr, node)

    def getattr(self, obj, attr, node=None):
        if isinstance(obj, Instance):
            if attr in obj.attrs:
                return obj.attrs[attr]
            f = obj.cls.find(attr)
            if f:
                return BoundMethod(f[0], obj)
            if attr in obj.cls.attrs:
                return obj.cls.attrs[attr]
            g = obj.cls.find('__getattr__')
            if g:
                return self.call(BoundMethod(g[0], obj), [attr], {})
            self.raise_('AttributeError', attr, node)
        if isinstance(obj, ModuleRef):
            try:
                return obj.module.env.vars[attr]
            except KeyError:
                raise Unsupported('module attribute %s.%s' % (obj.module.name, attr))
        if isinstance(obj, ClassObj):
            f = obj.find(attr)
            if f:
                return f[0]
            if attr in obj.attrs:
                return obj.attrs[attr]
            if attr == '__name__':
                return obj.name
            if attr == '__new__':
                # object.__new__(cls): a bare instance, no __init__ (and hence no contract of the constructor)
                return Builtin('object.__new__', lambda interp, args, kw, node_: Instance(args[0]))
        return bi.getattr_builtin(self, obj, attr, node)

    def e_Subscript(self, node, env):
        obj = self.eval(node.value, env)
        if isinstance(node.slice, ast.Slice):
            lo = self.eval(node.slice.lower, env) if node.slice.lower is not None else None
            hi = self.eval(node.slice.upper, env) if node.slice.upper is not None else None
            if node.slice.step is not None:
                raise Unsupported('slice step at %s' % self.where(node))
            return bi.getslice(self, obj, lo, hi, node)
        idx = self.eval(node.slice, env)
        return self.getitem(obj, idx, node)

    def getitem(self, obj, idx, node=None):
        if isinstance(obj, Instance):
            f = obj.cls.find('__getitem__')
            if f:
                return self.call(BoundMethod(f[0], obj), [idx], {})
        return bi.getitem(self, obj, idx, node)

    def e_Call(self, node, env):
        # module-logger calls are no-ops (extraction drop, DESIGN 2.1)
        if isinstance(node.func, ast.Name) and node.func.id in LOGGERS:
            return None
        if isinstance(node.func, ast.Attribute) and isinstance(node.func.value, ast.Name) and node.func.value.id in LOGGERS:
            return None
        # super(Cls, self).method(...)
        if isinstance(node.func, ast.Attribute) and isinstance(node.func.value, ast.Call) and \
                isinstance(node.func.value.func, ast.Name) and node.func.value.func.id == 'super':
            return bi.super_call(self, node, env)
        fn = self.eval(node.func, env)
        args = []
        for a in node.args:
            if isinstance(a, ast.Starred):
                sv = self.eval(a.value, env)
                if isinstance(sv, Seq) and not z3.is_int_value(z3.simplify(sv.len)):
                    args.append(bi.StarSeq(sv))      # *args of symbolic length
                else:
                    args.extend(self.iter_concrete(sv))
            else:
                args.append(self.eval(a, env))
        kwargs = {}
        for k in node.keywords:
            if k.arg is None:
                d = self.eval(k.value, env)
                kwargs.update(bi.dict_concrete(self, d))
            else:
                kwargs[k.arg] = self.eval(k.value, env)
        # frame log: mutating method calls
        if isinstance(node.func, ast.Attribute) and node.func.attr in MUTATORS:
            recv = self.eval(node.func.value, env) if not isinstance(fn, BoundMethod) else None
        return self.call(fn, args, kwargs, node)

    def e_GeneratorExp(self, node, env):
        return self.comprehension(node, env, 'gen')

    def e_ListComp(self, node, env):
        return self.comprehension(node, env, 'list')

    def e_SetComp(self, node, env):
        return self.comprehension(node, env, 'set')

    def e_DictComp(self, node, env):
        return self.comprehension(node, env, 'dict')

    def e_JoinedStr(self, node, env):
        return SCell(smt.fresh_v('fstr'))

    def e_Yield(self, node, env):
        v = self.eval(node.value, env) if node.value is not None else None
        self.do_yield(v, node)
        return None

    def do_yield(self, v, node):
        if self.yield_hook is None:
            raise Unsupported('yield outside a generator harness at %s' % self.where(node))
        self.yield_hook(v, node)

    # ------------------------------------------------------------------ comprehensions
    def comprehension(self, node, env, kind):
        gen = node.generators[0]
        if len(node.generators) != 1:
            raise Unsupported('nested comprehension at %s' % self.where(node))
        src = self.eval(gen.iter, env)
        return bi.comprehension(self, node, gen, src, env, kind)

    def iter_concrete(self, v):
        """python list of the items of a concrete-length iterable"""
        return bi.iter_concrete(self, v)

    # ------------------------------------------------------------------ calls
    def call(self, fn, args, kwargs, node=None):
        self.depth += 1
        if self.depth > 60:
            raise Unsupported('recursion depth')
        try:
            return self._call(fn, args, kwargs, node)
        finally:
            self.depth -= 1

    def _call(self, fn, args, kwargs, node):
        if isinstance(fn, Builtin):
            return fn.fn(self, args, kwargs, node)
        if isinstance(fn, BoundMethod):
            return self._call(fn.fn, [fn.selfobj] + list(args), kwargs, node)
        if isinstance(fn, Closure):
            if fn.qualname in self.summaries:
                return self.summaries[fn.qualname](self, args, kwargs, node)
            return self.call_closure(fn, args, kwargs, node)
        if isinstance(fn, ClassObj):
            return self.instantiate(fn, args, kwargs, node)
        if isinstance(fn, ExcClass):
            return ExcValue(fn.name, args)
        if isinstance(fn, UCall):
            return bi.call_ucall(self, fn, args, kwargs, node)
        if isinstance(fn, TypeObj):
            return bi.call_type(self, fn, args, kwargs, node)
        if isinstance(fn, Instance):
            f = fn.cls.find('__call__')
            if f:
                return self._call(BoundMethod(f[0], fn), args, kwargs, node)
        if isinstance(fn, bi.Partial):
            kw = dict(fn.kwargs)
            kw.update(kwargs)
            return self._call(fn.fn, list(fn.args) + list(args), kw, node)
        if isinstance(fn, bi.ItemGetter):
            return fn.call(self, args, node)
        if isinstance(fn, Opaque):
            return bi.call_opaque(self, fn, args, kwargs, node)
        raise Unsupported('call of %r at %s' % (fn, self.where(node) if node is not None else '?'))

    def instantiate(self, cls, args, kwargs, node):
        if cls.qualname() in self.summaries if hasattr(cls, 'qualname') else False:
            pass
        qn = cls.module.name + '.' + cls.name
        if qn in self.summaries:
            return self.summaries[qn](self, args, kwargs, node)
        if bi.is_exception_class(cls):
            return ExcValue(cls.name, args)
        inst = Instance(cls)
        if bi.derives_from_tuple(cls):
            # tuple subclass (petl.util.base.Record): tuple.__new__(cls, row) fixes the contents
            inst.attrs['_tuple'] = bi.to_seq(self, args[0], 'tuple', node) if args else ()
        f = cls.find('__init__')
        if f:
            self._call(BoundMethod(f[0], inst), args, kwargs, node)
        return inst

    def bind_args(self, fn, args, kwargs):
        a = fn.node.args
        names = [p.arg for p in a.posonlyargs + a.args]
        defaults = a.defaults
        local = {}
        args = list(args)
        kwargs = dict(kwargs)
        nd = len(names) - len(defaults)
        for i, nm in enumerate(names):
            if i < len(args):
                local[nm] = args[i]
            elif nm in kwargs:
                local[nm] = kwargs.pop(nm)
            elif i >= nd:
                local[nm] = self.eval(defaults[i - nd], fn.env)
            else:
                raise PyExc('TypeError', 'missing argument %s' % nm)
        extra = args[len(names):]
        if a.vararg and len(extra) == 1 and isinstance(extra[0], bi.StarSeq):
            sq = extra[0].seq
            local[a.vararg.arg] = Seq(sq.arr, sq.len, 'tuple', 'Fresh')
        elif a.vararg:
            local[a.vararg.arg] = tuple(extra)
        elif extra:
            raise PyExc('TypeError', 'too many positional arguments')
        for p, d in zip(a.kwonlyargs, a.kw_defaults):
            if p.arg in kwargs:
                local[p.arg] = kwargs.pop(p.arg)
            elif d is not None:
                local[p.arg] = self.eval(d, fn.env)
            else:
                raise PyExc('TypeError', 'missing kw-only argument')
        if a.kwarg:
            d = bi.SDict(self)
            for k, v in kwargs.items():
                d.setitem(self, k, v)
            local[a.kwarg.arg] = d
        elif kwargs:
            raise PyExc('TypeError', 'unexpected keyword %s' % list(kwargs))
        return local

    def call_closure(self, fn, args, kwargs, node=None):
        local = self.bind_args(fn, args, kwargs)
        env = Env(local, fn.env)
        if isinstance(fn.node, ast.Lambda):
            self.fn_stack.append(fn.qualname)
            try:
                return self.eval(fn.node.body, env)
            finally:
                self.fn_stack.pop()
        if fn.is_generator and self.gen_depth_allowed(fn):
            return bi.GenObj(self, fn, env)
        return self.run_body(fn, env)

    def gen_depth_allowed(self, fn):
        return True

    def run_body(self, fn, env):
        self.fn_stack.append(fn.qualname)
        try:
            self.exec_block(fn.node.body, env)
            return None
        except _Return as r:
            return r.value
        finally:
            self.fn_stack.pop()

    # ------------------------------------------------------------------ statements
    def exec_block(self, stmts, env):
        for s in stmts:
            self.exec(s, env)

    def exec(self, node, env):
        m = getattr(self, 's_' + type(node).__name__, None)
        if m is None:
            raise Unsupported('statement %s at %s' % (type(node).__name__, self.where(node)))
        return m(node, env)

    def s_Expr(self, node, env):
        if isinstance(node.value, ast.Constant):
            return
        self.eval(node.value, env)

    def s_Pass(self, node, env):
        pass

    def s_Global(self, node, env):
        raise Unsupported('global statement at %s' % self.where(node))

    def s_Nonlocal(self, node, env):
        raise Unsupported('nonlocal statement at %s' % self.where(node))

    def s_Import(self, node, env):
        self.do_import(node, env, self.program.module(self.fn_stack[0].rsplit('.', 1)[0]) if False else _FakeMod(self.fn_stack[-1]))

    s_ImportFrom = s_Import

    def s_Assign(self, node, env):
        v = self.eval(node.value, env)
        for t in node.targets:
            self.assign(t, v, env)

    def s_AnnAssign(self, node, env):
        if node.value is not None:
            self.assign(node.target, self.eval(node.value, env), env)

    def assign(self, target, v, env):
        if isinstance(target, ast.Name):
            env.vars[target.id] = v
        elif isinstance(target, (ast.Tuple, ast.List)):
            items = self.iter_concrete(v)
            if len(items) != len(target.elts):
                self.raise_('ValueError', 'unpack', target)
            for t, it in zip(target.elts, items):
                self.assign(t, it, env)
        elif isinstance(target, ast.Attribute):
            obj = self.eval(target.value, env)
            if isinstance(obj, Instance):
                self.log_mutation('setattr', obj, target, attr=target.attr)
                obj.attrs[target.attr] = v
            elif isinstance(obj, (Opaque, bi.ExternalModule, ModuleRef)):
                self.log_mutation('setattr', obj, target, attr=target.attr)
                if isinstance(obj, Opaque):
                    obj.attrs[target.attr] = v
            else:
                raise Unsupported('attribute store on %r at %s' % (obj, self.where(target)))
        elif isinstance(target, ast.Subscript):
            obj = self.eval(target.value, env)
            if isinstance(target.slice, ast.Slice):
                raise Unsupported('slice store at %s' % self.where(target))
            idx = self.eval(target.slice, env)
            self.log_mutation('setitem', obj, target)
            bi.setitem(self, obj, idx, v, target)
        else:
            raise Unsupported('assignment target at %s' % self.where(target))

    def log_mutation(self, op, obj, node, attr=None):
        """frame obligation (C03/C01): only objects created by this activation and not yet yielded may be mutated"""
        origin = getattr(obj, 'origin', None)
        if isinstance(obj, (SCell,)):
            origin = 'Source'
        self.mutations.append((op, origin, self.where(node), attr, obj))
        if op == 'setattr':
            return      # attribute stores are judged by the write-set analysis (C01), not here
        for g in self.loop_guards:
            if id(obj) in g['ids'] and id(obj) not in g['allowed']:
                # soundness condition of the loop rules: an arbitrary iteration is analysed with the state the contract describes;
                # a container that was created before the loop and is mutated in the body through a name the contract does not
                # cover (an alias) carries state from one iteration to the next behind the rule's back
                self.ctx.oblige('loop rule (%s): %s at line %s mutates a container that outlives the iteration and is not covered by the loop contract'
                                % (g['label'], op, getattr(node, 'lineno', '?')), z3.BoolVal(False), self.where(node), 'frame')
        # 'ViewState': state owned by the view object itself (a cache); its mutation is justified by the rely/guarantee
        # obligations of the contract that declares it, not by freshness
        ok = origin in ('Fresh', 'Ghost', 'ViewState', None) and not isinstance(obj, SCell)
        self.ctx.oblige('frame: %s at line %s touches only an object created here and not yet yielded (it is %s)'
                        % (op, getattr(node, 'lineno', '?'), origin), z3.BoolVal(bool(ok)), self.where(node), 'frame')

    def s_AugAssign(self, node, env):
        cur = self.eval(_load(node.target), env)
        rhs = self.eval(node.value, env)
        if isinstance(cur, (Seq, PyList)) and cur.kind == 'list' and isinstance(node.op, ast.Add):
            self.log_mutation('iadd', cur, node)
            bi.list_extend(self, cur, rhs, node)
            return
        if isinstance(node.op, ast.Add) and ((isinstance(cur, Seq) and cur.kind == 'src') or
                                             (isinstance(cur, SCell) and isinstance(rhs, (Seq, tuple, PyList)))):
            # a source row may be a list: += would extend it in place
            self.log_mutation('iadd (in place if the row is a list)', cur, node)
        v = bi.binop(self, node.op, cur, rhs, node)
        self.assign(node.target, v, env)

    def s_Delete(self, node, env):
        for t in node.targets:
            if isinstance(t, ast.Subscript):
                obj = self.eval(t.value, env)
                self.log_mutation('delitem', obj, t)
                if isinstance(t.slice, ast.Slice):
                    raise Unsupported('del slice at %s' % self.where(t))
                bi.delitem(self, obj, self.eval(t.slice, env), t)
            elif isinstance(t, ast.Name):
                env.vars.pop(t.id, None)
            else:
                raise Unsupported('del target at %s' % self.where(t))

    def s_If(self, node, env):
        if self.truth(self.eval(node.test, env)):
            self.exec_block(node.body, env)
        else:
            self.exec_block(node.orelse, env)

    def s_Return(self, node, env):
        raise _Return(self.eval(node.value, env) if node.value is not None else None)

    def s_Break(self, node, env):
        raise _Break()

    def s_Continue(self, node, env):
        raise _Continue()

    def s_Assert(self, node, env):
        if not self.truth(self.eval(node.test, env)):
            self.raise_('AssertionError', None, node)

    def s_Raise(self, node, env):
        if node.exc is None:
            cur = getattr(self, 'handling', None)
            if cur is None:
                raise Unsupported('bare raise outside handler')
            raise cur
        v = self.eval(node.exc, env)
        if isinstance(v, ExcClass):
            v = ExcValue(v.name, [])
        if isinstance(v, ClassObj):
            v = ExcValue(v.name, [])
        if isinstance(v, ExcValue):
            raise PyExc(v.kind, v, self.where(node))
        if isinstance(v, bi.CaughtExc):
            raise v.exc
        if isinstance(v, SCell):       # re-raising an opaque exception object delivered by a callback
            raise PyExc('UserError', v, self.where(node))
        raise Unsupported('raise of %r at %s' % (v, self.where(node)))

    def s_FunctionDef(self, node, env):
        env.vars[node.name] = Closure(node, env, (self.fn_stack[-1] if self.fn_stack else '') + '.<locals>.' + node.name, None)

    def s_ClassDef(self, node, env):
        env.vars[node.name] = self.make_class(node, env, _FakeMod(self.fn_stack[-1] if self.fn_stack else ''))

    def s_Try(self, node, env):
        try:
            try:
                self.exec_block(node.body, env)
            except PyExc as e:
                for h in node.handlers:
                    if self.handler_matches(h, e, env):
                        self.trace.append(('except', e.kind, h.lineno))      # ghost marker in the effect trace
                        if h.name:
                            env.vars[h.name] = bi.CaughtExc(e)
                        old = getattr(self, 'handling', None)
                        self.handling = e
                        try:
                            self.exec_block(h.body, env)
                        finally:
                            self.handling = old
                        break
                else:
                    raise
            else:
                self.exec_block(node.orelse, env)
        finally:
            if node.finalbody:
                # (a PathEnd / Unsupported unwinding through here must not run program code)
                import sys
                et = sys.exc_info()[0]
                if et is None or issubclass(et, (PyExc, _Return, _Break, _Continue)):
                    self.exec_block(node.finalbody, env)

    def handler_matches(self, h, e, env):
        if h.type is None:
            return True
        t = self.eval(h.type, env)
        kinds = t if isinstance(t, tuple) else (t,)
        for k in kinds:
            name = k.name if isinstance(k, (ExcClass, ClassObj)) else None
            if name is None:
                raise Unsupported('except clause type %r' % (k,))
            if exc_matches(e.kind, name):
                return True
            # an opaque exception raised by a user callback / external call is of unknown class:
            # it is caught by `except Exception` only (callbacks are assumed not to raise BaseException)
            if e.kind in ('UserError', 'ExternalError'):
                if name in ('Exception', 'BaseException'):
                    return True
                # the class of an exception raised by a callback is unknown: it may or may not be a <name>
                tag = e.payload.t if isinstance(e.payload, SCell) else z3.Const('exc!%d' % id(e), V)
                isa = z3.Function('exc_isinstance_%s' % name, V, B)
                if self.ctx.branch(isa(tag), 'callback exception is a %s' % name):
                    return True
        return False

    def s_With(self, node, env):
        return bi.with_stmt(self, node, env)

    # ------------------------------------------------------------------ loops
    def loop_key(self, node):
        fn = self.fn_stack[-1] if self.fn_stack else '?'
        return fn, node

    def find_spec(self, node):
        fn = self.fn_stack[-1] if self.fn_stack else '?'
        for (qn, ordinal), spec in self.loop_specs.items():
            if qn == fn or fn.endswith(qn) or qn.endswith(fn) or fn.startswith(qn + '.<locals>'):
                try:
                    _, fnode, _ = self.program.find(qn) if '<locals>' not in qn else (None, None, None)
                except Unsupported:
                    fnode = None
                if fnode is None:
                    continue
                loops = loops_of(fnode)
                if ordinal < len(loops) and loops[ordinal] is node:
                    return spec
        return None

    def s_For(self, node, env):
        src = self.eval(node.iter, env)
        if isinstance(src, bi.GenObj) and src.items is None and not any(isinstance(n, ast.Break) for n in ast.walk(node)):
            # `for x in gen(...)`: run the generator's body in place; at each of its yields run this loop's body with
            # the target bound to the yielded value (so contracted loops inside the generator compose with this one)
            outer_hook = self.yield_hook

            def on_inner_yield(v, ynode):
                saved = self.yield_hook
                self.yield_hook = outer_hook
                try:
                    self.assign(node.target, v, env)
                    try:
                        self.exec_block(node.body, env)
                    except _Continue:
                        pass
                    except _Return as r:
                        # the consumer returns from inside its loop: the generator is abandoned at this yield.  Carried through the
                        # generator's own frames as a distinct exception (its loops / run_body must not mistake it for their own).
                        raise _ConsumerReturn(r)
                finally:
                    self.yield_hook = saved
            self.yield_hook = on_inner_yield
            try:
                self.run_body(src.fn, src.env)
            except _ConsumerReturn as cr:
                raise cr.ret
            finally:
                self.yield_hook = outer_hook
            src.items = []
            self.exec_block(node.orelse, env)
            return
        it = bi.get_iter(self, src, node)
        spec = self.find_spec(node)
        if bi.is_concrete_iter(it) and (spec is None or bi.base_iter(it) is None):
            completed = True
            while True:
                try:
                    x = bi.next_(self, it, node)
                except PyExc as e:
                    if e.kind == 'StopIteration' and getattr(e, 'from_next', False) and e.it is it:
                        break
                    raise
                self.assign(node.target, x, env)
                try:
                    self.exec_block(node.body, env)
                except _Break:
                    completed = False
                    break
                except _Continue:
                    continue
            if completed:
                self.exec_block(node.orelse, env)
            return
        if spec is None:
            raise Unsupported('loop over a symbolic sequence without a loop contract at %s' % self.where(node))
        return self.contract_for(node, env, it, spec)

    def contract_for(self, node, env, it, spec):
        ctx = self.ctx
        base = bi.base_iter(it)
        if base is None:
            raise Unsupported('loop contract on an iterator without a symbolic base at %s' % self.where(node))
        k0 = base.pos
        label = spec.label or ('loop@%s' % self.where(node))
        if isinstance(it, bi.ZipIter) and not it.longest:
            # zip() stops at the shortest input: the contracted loop is driven by the first, so all must be equally long
            others = [i for i in it.inners if isinstance(i, SrcIter) and i is not base]
            for o in others:
                ctx.oblige('%s: zip() over sequences of equal remaining length' % label, (o.n - o.pos) == (base.n - base.pos), self.where(node), 'zip')
        if spec.delta is not None:
            return self.stateless_for(node, env, it, spec, base, label)
        # 1. invariant holds on entry
        st = LoopState(self, env, SInt(k0))
        st.k0 = SInt(k0)
        ctx.oblige('%s: invariant on entry' % label, spec.invariant(st), self.where(node), 'inv-entry')
        # 2. havoc
        k = smt.fresh_int('k')
        self.havoc(node, env, spec)
        if spec.rebind is not None:
            spec.rebind(LoopState(self, env, SInt(k)))
        base.pos = k
        ctx.assume(z3.And(k0 <= k, k <= base.n))
        self.lockstep(it, base, k, k0)
        st = LoopState(self, env, SInt(k))
        st.k0 = SInt(k0)
        ctx.assume(spec.invariant(st))
        # 3. fork: one more iteration, or exit
        if ctx.branch(k < base.n, 'loop continues'):
            x = bi.next_(self, it, node)
            self.assign(node.target, x, env)
            self.loop_guards.append(self.guard_loop(node, env, spec, label))
            try:
                self.exec_block(node.body, env)
            except _Continue:
                pass
            except _Break:
                return
            finally:
                self.loop_guards.pop()
            st2 = LoopState(self, env, SInt(base.pos))
            st2.k0 = SInt(k0)
            ctx.oblige('%s: invariant preserved' % label, spec.invariant(st2), self.where(node), 'inv-step')
            raise PathEnd()
        else:
            base.exhausted_seen = True
            self.exec_block(node.orelse, env)

    def lockstep(self, it, base, k, k0):
        """zip(a, b, ...): when the driving iterator is moved to position k the others have advanced by the same amount"""
        if isinstance(it, bi.ZipIter) and not it.longest:
            for o in it.inners:
                if isinstance(o, SrcIter) and o is not base:
                    o.pos = z3.simplify(o.pos + (k - k0))
            it.pos0 = it.pos0       # (count() values are computed from the base position)

    def stateless_for(self, node, env, it, spec, base, label):
        """stateless-body rule: one arbitrary iteration with everything the body assigns havocked"""
        ctx = self.ctx
        k0 = base.pos
        k = smt.fresh_int('k')
        pre_out = ctx.out
        if spec.invariant is not None:
            # hybrid rule: carried state pinned by an invariant (a function of the position), emission stated per iteration
            st0 = LoopState(self, env, SInt(k0))
            st0.k0 = SInt(k0)
            ctx.oblige('%s: carried-state invariant on entry' % label, spec.invariant(st0), self.where(node), 'inv-entry')
        if getattr(base, 'table', None) is not None and getattr(self, 'check_pulls', True):
            ctx.oblige('%s: before the first data row is requested at most the header row has been pulled' % label,
                       k0 <= 1 + spec.lookahead, self.where(node), 'pull')
        for t in (getattr(ctx, 'tables', []) if getattr(self, 'check_pulls', True) and getattr(ctx, 'in_iteration', None) is None else []):
            for other in getattr(t, 'iterators', []):
                if other is not base and not getattr(other, 'pull_checked', False) and not getattr(other, 'looped', False):
                    other.pull_checked = True
                    ctx.oblige('%s: no other source iterator has been drained before the data loop (no materialisation)' % label,
                               other.pos <= 1, self.where(node), 'pull')
        self.havoc(node, env, spec)
        if spec.rebind is not None:
            spec.rebind(LoopState(self, env, SInt(k)))
        longest = isinstance(it, bi.ZipIter) and it.longest
        if longest:
            # zip_longest(a, b, ...): runs for max(remaining) steps; at step j input i stands at min(j, remaining_i) (T2)
            if not all(isinstance(i, SrcIter) for i in it.inners):
                raise Unsupported('zip_longest over non-source iterators in a contracted loop at %s' % self.where(node))
            starts = [(i, i.pos, z3.simplify(i.n - i.pos)) for i in it.inners]
            total = starts[0][2]
            for _, _, r in starts[1:]:
                total = z3.If(r > total, r, total)
            end = z3.simplify(k0 + total)
            ctx.assume(z3.And(k0 <= k, k <= end))
            for i, p0, r in starts:
                i.pos = z3.simplify(p0 + z3.If(k - k0 < r, k - k0, r))
        else:
            end = base.n
            ctx.assume(z3.And(k0 <= k, k <= base.n))
            base.pos = k
            self.lockstep(it, base, k, k0)
        if spec.invariant is not None:
            sti = LoopState(self, env, SInt(k))
            sti.k0 = SInt(k0)
            ctx.assume(spec.invariant(sti))
        if ctx.branch(k < end, 'loop continues'):
            dout = Seq(smt.fresh_arr('dout'), z3.IntVal(0), 'list', 'Ghost')
            ctx.out = dout
            ctx.in_iteration = (label, SInt(k))
            try:
                x = bi.next_(self, it, node)
            except PyExc:
                ctx.failed_segment = (label, dout)
                ctx.out = Seq(smt.fresh_arr('after_exc'), z3.IntVal(0), 'list', 'Ghost')
                raise
            self.assign(node.target, x, env)
            st = LoopState(self, env, SInt(k))
            st.k0 = SInt(k0)
            st.x = x
            st.base = base
            st.trace_start = len(self.trace)
            self.loop_guards.append(self.guard_loop(node, env, spec, label))
            try:
                self.exec_block(node.body, env)
            except _Continue:
                pass
            except _Break:
                raise Unsupported('break inside a loop verified by the stateless-body rule at %s' % self.where(node))
            except PyExc:
                # the iteration is cut short: what an enclosing handler yields from here on goes to a new segment
                ctx.failed_segment = (label, dout)
                ctx.out = Seq(smt.fresh_arr('after_exc'), z3.IntVal(0), 'list', 'Ghost')
                raise
            finally:
                self.loop_guards.pop()
            spec.delta(st, x, dout)
            if spec.invariant is not None:
                st2 = LoopState(self, env, SInt(base.pos))
                st2.k0 = SInt(k0)
                ctx.oblige('%s: carried-state invariant preserved' % label, spec.invariant(st2), self.where(node), 'inv-step')
            # C02 (laziness): one iteration pulls exactly its own row -- no read-ahead, no materialisation
            if getattr(self, 'check_pulls', True) and not longest:
                ctx.oblige('%s: an iteration pulls no source row besides its own (no read-ahead)' % label,
                           base.pos == k + 1, self.where(node), 'pull')
            raise PathEnd()
        else:
            base.exhausted_seen = True
            base.looped = True       # consumed row by row by a contracted loop (not materialised)
            if longest:
                for i in it.inners:
                    i.exhausted_seen = True
                    i.looped = True
            # after the loop the trace is  pre ++ concat_k delta(S[k])  (meta-theorem); post-loop yields go to a new
            # segment so that the harness can state obligations on them separately
            ctx.pre_loop_out = pre_out
            ctx.out = Seq(smt.fresh_arr('post_out'), z3.IntVal(0), 'list', 'Ghost')
            ctx.after_loop = label
            if spec.on_exit is not None:
                ls = LoopState(self, env, SInt(base.n))
                ls.k0 = SInt(k0)
                spec.on_exit(ls, z3.simplify(base.n - k0))
            self.exec_block(node.orelse, env)

    def guard_loop(self, node, env, spec, label):
        """the containers reachable from the local variables when a contracted loop starts; those bound to names the contract
        covers (assigned / mutated in the body, hence havocked, or declared in spec.types) may be mutated by the body"""
        kinds = (Seq, PyList, bi.SDict, bi.ADict, bi.ASet, bi.ACounter, bi.SDeque)
        covered = set(spec.types) | set(spec.extra_havoc)
        for n in ast.walk(node):
            if isinstance(n, ast.Name) and isinstance(n.ctx, (ast.Store, ast.Del)):
                covered.add(n.id)
            if isinstance(n, ast.Call) and isinstance(n.func, ast.Attribute) and n.func.attr in MUTATORS and isinstance(n.func.value, ast.Name):
                covered.add(n.func.value.id)
            if isinstance(n, ast.Subscript) and isinstance(n.ctx, (ast.Store, ast.Del)) and isinstance(n.value, ast.Name):
                covered.add(n.value.id)
            if isinstance(n, ast.AugAssign) and isinstance(n.target, ast.Name):
                covered.add(n.target.id)
        ids, allowed = set(), set()
        e = env
        depth = 0
        while e is not None and depth < 3:          # the activation's own frames (closures), not the module globals
            for nm, v in e.vars.items():
                if isinstance(v, kinds) and getattr(v, 'origin', None) not in ('Source',):
                    ids.add(id(v))
                    if nm in covered:
                        allowed.add(id(v))
            e = e.parent
            depth += 1
        return {'ids': ids, 'allowed': allowed, 'label': label}

    def havoc(self, node, env, spec):
        assigned, mutated, names = set(), set(), set()
        for n in ast.walk(node):
            if isinstance(n, ast.Name):
                names.add(n.id)
                if isinstance(n.ctx, (ast.Store, ast.Del)):
                    assigned.add(n.id)
            if isinstance(n, ast.Call) and isinstance(n.func, ast.Attribute) and n.func.attr in MUTATORS \
                    and isinstance(n.func.value, ast.Name):
                mutated.add(n.func.value.id)
            if isinstance(n, (ast.Subscript,)) and isinstance(n.ctx, (ast.Store, ast.Del)) and isinstance(n.value, ast.Name):
                mutated.add(n.value.id)
            if isinstance(n, ast.AugAssign) and isinstance(n.target, ast.Name):
                assigned.add(n.target.id)
        # the loop target of *this* loop is assigned by the loop itself before anything reads it
        own = set(n.id for n in ast.walk(node.target) if isinstance(n, ast.Name)) if isinstance(node, ast.For) else set()
        for nm in sorted((assigned - own) | set(spec.extra_havoc)):
            if not env.has(nm):
                continue
            cur = env.lookup(nm)
            ty = spec.types.get(nm)
            if ty == 'keep':
                continue
            if isinstance(cur, (SrcIter, MapIter)):
                continue         # iterators: their position is havocked by the loop rule itself
            try:
                self.set_var(env, nm, self.fresh_like(cur, nm, ty))
            except Unsupported:
                if spec.rebind is None:
                    raise        # (with a rebind callback the contract re-creates such objects itself)
        for nm in sorted(mutated - assigned):
            if not env.has(nm):
                continue
            cur = env.lookup(nm)
            if spec.types.get(nm) == 'keep':
                continue
            self.havoc_in_place(cur, nm)
        for nm in sorted(names):
            if env.has(nm):
                cur = env.lookup(nm)
                b = bi.base_iter(cur) if isinstance(cur, (SrcIter, MapIter)) else None
                if b is not None and nm not in assigned and spec.types.get(nm) != 'keep':
                    pass     # positions of other iterators advanced in the body: declared through extra_havoc
        if spec.delta is None and self.ctx.out is not None and any(isinstance(n, (ast.Yield, ast.YieldFrom)) for n in ast.walk(node)):
            self.havoc_in_place(self.ctx.out, 'out')

    def set_var(self, env, nm, v):
        e = env
        while e is not None:
            if nm in e.vars:
                e.vars[nm] = v
                return
            e = e.parent

    def fresh_like(self, cur, nm, ty=None):
        if ty == 'int' or (ty is None and (isinstance(cur, SInt) or (isinstance(cur, int) and not isinstance(cur, bool)))):
            return SInt(smt.fresh_int(nm))
        if ty == 'bool' or (ty is None and isinstance(cur, (SBool, bool))):
            return SBool(smt.fresh_bool(nm))
        if ty == 'seq' or (ty is None and isinstance(cur, Seq)):
            ln = smt.fresh_int(nm + '_len')
            self.ctx.assume(ln >= 0)
            return Seq(smt.fresh_arr(nm), ln, getattr(cur, 'kind', 'list'), getattr(cur, 'origin', 'Fresh'))
        if ty == 'cell' or (ty is None and (cur is None or isinstance(cur, (SCell, str)))):
            return SCell(smt.fresh_v(nm))
        if isinstance(cur, PyList) and ty is None:
            ln = smt.fresh_int(nm + '_len')
            self.ctx.assume(ln >= 0)
            return Seq(smt.fresh_arr(nm), ln, cur.kind, cur.origin)
        raise Unsupported('cannot havoc %s = %r (give a type in the loop contract)' % (nm, cur))

    def havoc_in_place(self, cur, nm):
        if isinstance(cur, Seq):
            cur.arr = smt.fresh_arr(nm)
            cur.len = smt.fresh_int(nm + '_len')
            self.ctx.assume(cur.len >= 0)
        elif isinstance(cur, (bi.SDict, bi.ADict, bi.ACounter, bi.ASet, bi.SDeque)):
            cur.havoc(self, nm)
        elif isinstance(cur, PyList):
            cur.go_symbolic()
            self.havoc_in_place(cur, nm)
        else:
            raise Unsupported('cannot havoc object %s = %r' % (nm, cur))

    def s_While(self, node, env):
        spec = self.find_spec(node)
        if spec is None:
            n = 0
            while self.truth(self.eval(node.test, env)):
                n += 1
                if n > 64:
                    raise Unsupported('while loop without contract does not terminate concretely at %s' % self.where(node))
                try:
                    self.exec_block(node.body, env)
                except _Break:
                    return
                except _Continue:
                    continue
            self.exec_block(node.orelse, env)
            return
        ctx = self.ctx
        label = spec.label or ('while@%s' % self.where(node))
        st = LoopState(self, env, None)
        ctx.oblige('%s: invariant on entry' % label, spec.invariant(st), self.where(node), 'inv-entry')
        self.havoc(node, env, spec)
        for nm in spec.extra_havoc:
            cur = env.lookup(nm)
            if isinstance(cur, (SrcIter, MapIter)):
                b = bi.base_iter(cur)
                p = smt.fresh_int(nm + '_pos')
                ctx.assume(z3.And(b.pos <= p, p <= b.n))
                b.pos = p
        for g in spec.ghost:
            self.ghost[g] = SInt(smt.fresh_int('ghost_' + g))
        st = LoopState(self, env, None)
        if spec.rebind is not None:
            spec.rebind(st)
        ctx.assume(spec.invariant(st))
        if self.truth(self.eval(node.test, env)):
            st.trace_start = len(self.trace)
            ctx.in_iteration = (label, None)
            self.loop_guards.append(self.guard_loop(node, env, spec, label))
            broke = False
            try:
                self.exec_block(node.body, env)
            except _Continue:
                pass
            except _Break:
                broke = True
            finally:
                self.loop_guards.pop()
            if broke:
                if getattr(spec, 'on_break', None) is not None:
                    spec.on_break(st)        # the iteration that leaves the loop: its per-iteration obligations
                return
            if spec.after_body is not None:
                spec.after_body(st)
            ctx.oblige('%s: invariant preserved' % label, spec.invariant(LoopState(self, env, None)), self.where(node), 'inv-step')
            raise PathEnd()
        else:
            if getattr(spec, 'at_exit', None) is not None:
                spec.at_exit(LoopState(self, env, None))
            if spec.stop_after:
                raise PathEnd()
            self.exec_block(node.orelse, env)


class _ConsumerReturn(Exception):
    def __init__(self, ret):
        self.ret = ret


class ModuleRef(object):
    def __init__(self, module):
        self.module = module

    def __repr__(self): return 'ModuleRef(%s)' % self.module.name


class _FakeMod(object):
    def __init__(self, name):
        self.name = name


def _load(target):
    t = ast.parse(ast.unparse(target), mode='eval').body
    ast.copy_location(t, target)
    for n in ast.walk(t):
        ast.copy_location(n, target)
    return t
