"""pyvc.api -- what a sidecar contract module uses: registration of verification tasks, harness helpers,
obligation discharge and result records."""
import ast, hashlib, json, time, traceback
import z3
from . import smt
from .smt import V, I, B
from .values import (SInt, SBool, SCell, Seq, PyList, Unsupported, _t, as_v, view_seq, seq_of_items, emit,
                     And_, Or_, Not_, Implies_, ite, length, forall, exists, row_eq)
from .interp import (Ctx, explore, Program, PyExc, PathEnd, LoopSpec, STable, SrcIter, UCall, Opaque, Instance,
                     Closure, Env, loops_of, Obligation)
from .machine import Interp, ModuleRef
from . import builtins as bi

TASKS = []


class Task(object):
    def __init__(self, name, fn, functions, props, kind='vc', assumptions=()):
        self.name, self.fn, self.functions, self.props, self.kind = name, fn, functions, props, kind
        self.assumptions = list(assumptions)


def vc(name, functions=(), props=(), kind='vc', assumptions=()):
    """register a verification task.  kind: 'vc' (unbounded deductive), 'lemma' (about the spec only),
    'shape' (symbolic execution at a fixed finite shape: bounded, never counted as proved)"""
    def deco(fn):
        TASKS.append(Task(name, fn, list(functions), list(props), kind, assumptions))
        return fn
    return deco


class ObResult(object):
    def __init__(self, task, name, status, backend, seconds, where, kind, detail='', model=None):
        self.task, self.name, self.status, self.backend, self.seconds = task, name, status, backend, seconds
        self.where, self.kind, self.detail, self.model = where, kind, detail, model

    def to_json(self):
        return dict(task=self.task, obligation=self.name, status=self.status, backend=self.backend,
                    seconds=round(self.seconds, 4), where=self.where, kind=self.kind, detail=self.detail,
                    model=self.model)


class Harness(object):
    def __init__(self, task, program, both=False):
        self.task, self.program, self.both = task, program, both
        self.results = []
        self.paths = 0
        self.unsupported = None
        self.expect_refuted = {}       # canaries: obligation name -> must be refuted
        self.t0 = time.time()

    # ---- running
    def interp(self, ctx, loops=None, summaries=None):
        it = Interp(self.program, ctx, loop_specs=loops or {}, summaries=summaries or {})
        return it

    def explore(self, body, max_paths=4000):
        """body(ctx) -> None; states obligations through ctx.oblige; every path's obligations are discharged"""
        ctxs = explore(body, max_paths)
        self.paths += len(ctxs)
        seen = set()
        for pi, ctx in enumerate(ctxs):
            for ob in ctx.obligations:
                self.discharge(ob, pi)
            for fv in ctx.frame_violations:
                self.results.append(ObResult(self.task.name, 'frame: ' + fv[0], 'sat', 'frame-analysis', 0.0, fv[1], 'frame', fv[2]))
        # vacuity guard: the hypotheses of (a sample of) the explored paths must not be contradictory -- otherwise every obligation
        # on them holds for no reason (an inconsistent axiom or precondition in the contract).  `False` must NOT be provable.
        with_obs = [c for c in ctxs if c.obligations]
        sample = with_obs[:1] + with_obs[len(with_obs) // 2:len(with_obs) // 2 + 1] + with_obs[-1:] if with_obs else []
        seen_ids, verdicts = set(), []
        import z3 as _z3
        for c in sample:
            if id(c) in seen_ids:
                continue
            seen_ids.add(id(c))
            s_ = _z3.Solver()
            s_.set('timeout', 2500)
            for f in c.obligations[-1].hyps:
                s_.add(f)
            verdicts.append(s_.check())
        if verdicts:
            # a single infeasible path (one whose infeasibility the explorer could not see in time) is harmless; ALL sampled paths
            # contradictory means the contract's own axioms / preconditions are inconsistent
            st = 'canary-verified' if all(v == _z3.unsat for v in verdicts) else 'canary-ok'
            self.results.append(ObResult(self.task.name, 'canary: the hypotheses of the explored paths are not contradictory (False is not provable; %d paths sampled)' % len(verdicts),
                                         st, 'z3-%s' % _z3.get_version_string(), 0.0, '', 'canary'))
        return ctxs

    def discharge(self, ob, path_index=0):
        failed = getattr(self, 'n_failed', 0)
        if failed >= 3:
            # this task has already lost three obligations (its verdict is settled): do not spend the long budgets, the second
            # solver and the retries on every further obligation the changed code breaks
            r = smt.prove(ob.hyps, ob.goal, timeout_ms=smt.Z3_FIRST_MS, use_cvc5=False, quick=True)
        else:
            r = smt.prove(ob.hyps, ob.goal, both=self.both, cvc5_first=(getattr(ob, 'solver', None) == 'cvc5'))
        if r.status != 'unsat':
            self.n_failed = failed + 1
        model = None
        if r.status == 'sat' and r.model is not None:
            model = model_summary(r.model)
        status = r.status
        self.results.append(ObResult(self.task.name, '%s [path %d]' % (ob.name, path_index), status, r.backend, r.seconds,
                                     ob.where, ob.kind, r.detail, model))
        return r

    def lemma(self, name, hyps, goal, kind='lemma'):
        ob = Obligation(name, list(smt.VALUE_AXIOMS) + [_t(h) for h in hyps], _t(goal), '', kind)
        return self.discharge(ob)

    def canary(self, name, hyps, goal):
        """an obligation that MUST be refuted (guards against contradictory hypotheses, DESIGN 2.8)"""
        r = smt.prove(list(smt.VALUE_AXIOMS) + [_t(h) for h in hyps], _t(goal), use_cvc5=False, timeout_ms=5000)
        st = {'sat': 'canary-ok', 'unsat': 'canary-verified'}.get(r.status, 'canary-unknown')
        self.results.append(ObResult(self.task.name, 'canary: ' + name, st, r.backend, r.seconds, '', 'canary'))
        return st == 'canary-ok'


def model_summary(m, limit=40):
    out = {}
    try:
        for d in m.decls()[:limit]:
            if d.arity() == 0:
                out[d.name()] = str(m[d])
    except Exception:
        pass
    return out


# ------------------------------------------------------------------------------------------ harness helpers

def sym_table(ctx, name, nmin=1):
    """a source table with at least nmin rows; every row has length >= 0"""
    t = STable(name)
    if not hasattr(ctx, 'tables'):
        ctx.tables = []
    ctx.tables.append(t)
    ctx.assume(t.n >= nmin)
    j = smt.fresh_int('r')
    ctx.facts.append(z3.ForAll([j], smt.seq_len(z3.Select(t.rows, j)) >= 0))
    return t


def fixed_table(ctx, name, nrows):
    """a source table with exactly nrows rows (concrete), symbolic contents"""
    t = STable(name)
    t.n = z3.IntVal(nrows)
    j = smt.fresh_int('r')
    ctx.facts.append(z3.ForAll([j], smt.seq_len(z3.Select(t.rows, j)) >= 0))
    return t


def rows_are_sequences(ctx, t):
    """rows of a table are lists or tuples (in particular: not None)"""
    j = smt.fresh_int('r')
    ctx.facts.append(z3.ForAll([j], z3.Or(smt.cls(z3.Select(t.rows, j)) == smt.LIST, smt.cls(z3.Select(t.rows, j)) == smt.TUPLE)))


def rectangular(ctx, t):
    """every row has the header's length (the precondition of the rectangular-table properties)"""
    j = smt.fresh_int('r')
    ctx.facts.append(z3.ForAll([j], z3.Implies(z3.And(0 <= j, j < t.n), smt.seq_len(z3.Select(t.rows, j)) == smt.seq_len(z3.Select(t.rows, 0)))))


def sym_cell(name):
    return SCell(z3.Const(name, V))


def sym_int(name):
    return SInt(z3.Int(name))


def sym_bool(name):
    return SBool(z3.Bool(name))


def sym_seq(ctx, name, kind='list', origin='Source'):
    ln = z3.Int(name + '!len')
    ctx.assume(ln >= 0)
    return Seq(z3.Array(name, I, V), ln, kind, origin)


def closure_of(interp, qualname):
    """Closure / class for a qualified name in /repo (module is loaded through the interpreter)"""
    parts = qualname.split('.')
    for k in range(len(parts) - 1, 0, -1):
        modname = '.'.join(parts[:k])
        try:
            m = interp.load_module(modname)
        except (FileNotFoundError, IsADirectoryError):
            continue
        obj = None
        try:
            obj = m.env.vars[parts[k]]
        except KeyError:
            raise Unsupported('binding lost: %s' % qualname)
        for p in parts[k + 1:]:
            obj = interp.getattr(obj, p)
        return obj
    raise Unsupported('binding lost: %s' % qualname)


class GenRun(object):
    """result of running a generator function to completion on one path"""

    def __init__(self):
        self.exc = None
        self.out = None
        self.returned = None


def run_generator(interp, fn, args, kwargs=None, out_name='out'):
    """run generator function `fn` (Closure) on args; yields are appended to ctx.out (a Seq of V)"""
    ctx = interp.ctx
    ctx.out = Seq(smt.fresh_arr(out_name), z3.IntVal(0), 'list', 'Ghost')
    yielded_objs = []

    def on_yield(v, node):
        if isinstance(v, (Seq, PyList)):
            if v.origin == 'Fresh':
                v.origin = 'Yielded'
            elif v.origin in ('Source', 'Shared', 'Yielded') and v.kind == 'list':
                pass
        try:
            vv = as_v(v)
        except Unsupported:
            vv = smt.fresh_v('opaque_yield')        # an external object: identity is tracked by the contract's own hook
        ctx.out.arr = z3.Store(ctx.out.arr, ctx.out.len, vv)
        ctx.out.len = z3.simplify(ctx.out.len + 1)
        h = getattr(interp, 'on_yield', None)
        if h is not None:
            h(v, node)

    interp.yield_hook = on_yield
    res = GenRun()
    local = interp.bind_args(fn, args, kwargs or {})
    env = Env(local, fn.env)
    try:
        res.returned = interp.run_body(fn, env)
    except PyExc as e:
        # PEP 479: StopIteration escaping a generator body becomes RuntimeError
        if e.kind == 'StopIteration':
            e = PyExc('RuntimeError', 'generator raised StopIteration', e.origin)
        res.exc = e
    res.out = ctx.out
    res.env = env
    return res


def out_row(out, i):
    """the i-th yielded value viewed as a row"""
    v = z3.Select(out.arr, _t(i))
    return Seq(smt.seq_arr(v), smt.seq_len(v), 'tuple', 'Ghost')


def src_row(table, i):
    v = z3.Select(table.rows, _t(i))
    return Seq(smt.seq_arr(v), smt.seq_len(v), 'src', 'Source')


def function_hash(program, qualname):
    try:
        return hashlib.sha256(program.source_of(qualname).encode()).hexdigest()[:16]
    except Exception as e:
        return 'unresolved: %s' % e


def run_task(task, root='/repo', both=False):
    program = Program(root)
    h = Harness(task, program, both=both)
    t0 = time.time()
    try:
        task.fn(h)
    except Unsupported as e:
        h.unsupported = str(e)
    except PyExc as e:
        h.unsupported = 'uncaught interpreted exception %s at %s' % (e.kind, e.origin)
    except KeyError as e:
        tb = traceback.format_exc()
        if 'in lookup' in tb and 'raise KeyError(name)' in tb:
            # a contract looked up a local variable the function no longer has: binding lost (undecided), not a fault
            h.unsupported = 'binding lost: the contract refers to local variable %s, which the function no longer has' % e
        else:
            h.unsupported = 'engine fault: %s\n%s' % (e, tb[-1500:])
            h.fault = True
    except Exception as e:
        h.unsupported = 'engine fault: %s\n%s' % (e, traceback.format_exc()[-1500:])
        h.fault = True
    return dict(task=task.name, kind=task.kind, props=task.props, functions=task.functions,
                hashes={q: function_hash(program, q) for q in task.functions},
                paths=h.paths, seconds=round(time.time() - t0, 3), unsupported=h.unsupported,
                fault=getattr(h, 'fault', False), assumptions=task.assumptions,
                results=[r.to_json() for r in h.results])
