"""pyvc.values -- symbolic value wrappers shared by the interpreter and by the contract (spec) language.

Operators are overloaded so that a contract can be written as ordinary Python over these wrappers; the things
Python does not let us overload (and/or/not/len/if) are the spec combinators And_/Or_/Not_/Implies_/ite/length.
"""
import z3
from . import smt
from .smt import V, I, B, ARR


class Unsupported(Exception):
    """The function under contract left the supported subset (DESIGN 2.2): the deductive part is undecided."""


def _t(x):
    """z3 Int/Bool term of a python int/bool or wrapper"""
    if isinstance(x, SInt) or isinstance(x, SBool):
        return x.t
    if isinstance(x, bool):
        return z3.BoolVal(x)
    if isinstance(x, int):
        return z3.IntVal(x)
    if z3.is_expr(x):
        return x
    raise Unsupported('not an int/bool term: %r' % (x,))


class SBool(object):
    __slots__ = ('t',)

    def __init__(self, t):
        self.t = t

    def __bool__(self):
        raise Unsupported('symbolic bool used as a Python bool (use the spec combinators / interpreter branch)')

    def __and__(self, o): return SBool(z3.And(self.t, _t(o)))
    def __rand__(self, o): return SBool(z3.And(_t(o), self.t))
    def __or__(self, o): return SBool(z3.Or(self.t, _t(o)))
    def __ror__(self, o): return SBool(z3.Or(_t(o), self.t))
    def __invert__(self): return SBool(z3.Not(self.t))
    def __eq__(self, o): return SBool(self.t == _t(o))
    def __ne__(self, o): return SBool(self.t != _t(o))
    __hash__ = None

    def __repr__(self): return 'SBool(%s)' % self.t


class SInt(object):
    __slots__ = ('t',)

    def __init__(self, t):
        self.t = t

    def __bool__(self):
        raise Unsupported('symbolic int used as a Python bool')

    def __add__(self, o): return SInt(self.t + _t(o))
    def __radd__(self, o): return SInt(_t(o) + self.t)
    def __sub__(self, o): return SInt(self.t - _t(o))
    def __rsub__(self, o): return SInt(_t(o) - self.t)
    def __mul__(self, o): return SInt(self.t * _t(o))
    def __rmul__(self, o): return SInt(_t(o) * self.t)
    def __neg__(self): return SInt(-self.t)
    def __lt__(self, o): return SBool(self.t < _t(o))
    def __le__(self, o): return SBool(self.t <= _t(o))
    def __gt__(self, o): return SBool(self.t > _t(o))
    def __ge__(self, o): return SBool(self.t >= _t(o))
    def __eq__(self, o): return SBool(self.t == _t(o))
    def __ne__(self, o): return SBool(self.t != _t(o))
    __hash__ = None

    def __repr__(self): return 'SInt(%s)' % self.t


class SCell(object):
    """An arbitrary Python value of sort V.  `==` between cells in a *spec* is identity of the V term (the very
    same object/value); Python-level `==` executed by the interpreter is smt.py_eq."""
    __slots__ = ('t', 'wrapped', 'untrusted')

    def __init__(self, t, wrapped=False, untrusted=False):
        self.t = t
        self.wrapped = wrapped        # True: the tuple-of-Comparables form of a list/tuple value (smt.wrapv)
        self.untrusted = untrusted    # True: result of a user callback: iterating it may fail (lazily)

    def __bool__(self):
        raise Unsupported('symbolic cell used as a Python bool')

    def __eq__(self, o): return SBool(self.t == as_v(o))
    def __ne__(self, o): return SBool(self.t != as_v(o))
    __hash__ = None

    def __repr__(self): return 'SCell(%s)' % self.t


class Seq(object):
    """A Python list / tuple (or a source row, kind 'src') of cells: contents `arr`, length `len`.
    Mutable (fields are updated functionally by the interpreter); `origin` drives the frame obligations of C03:
      Fresh    created by this activation and not yet yielded
      Yielded  created by this activation, already handed to the consumer
      Source   belongs to an input table / argument
      Shared   reachable from self.<attr>"""

    def __init__(self, arr, ln, kind='list', origin='Fresh'):
        self.arr, self.len, self.kind, self.origin = arr, ln, kind, origin

    def __getitem__(self, i):          # spec-level access: no bounds check (specs guard their indices)
        return SCell(z3.Select(self.arr, _t(i)))

    def length(self):
        return SInt(self.len)

    def __repr__(self): return 'Seq<%s,%s>(len=%s)' % (self.kind, self.origin, self.len)


class PyList(object):
    """A list/tuple of concrete length whose items are arbitrary interpreter values (iterators, Seqs, closures ...)."""

    def __init__(self, items, kind='list', origin='Fresh'):
        self.items, self.kind, self.origin = list(items), kind, origin

    def go_symbolic(self):
        """turn this very object (identity kept, aliases follow) into a Seq with the same contents"""
        s = seq_of_items(self.items, self.kind, self.origin)
        self.__class__ = Seq
        del self.items
        self.arr, self.len = s.arr, s.len
        return self

    def __repr__(self): return 'PyList%r' % (self.items,)


# -------------------------------------------------------------------------------- lifting values into V

_lifted_str = {}
_facts_sink = [None]      # the active context installs a function that receives instantiated axioms


def emit(fact):
    if _facts_sink[0] is not None:
        _facts_sink[0](fact)


def set_sink(fn):
    _facts_sink[0] = fn
    _lifted_str.clear()


def v_none():
    c = z3.Const('c!None', V)
    emit(smt.cls(c) == smt.NONE)
    return c


def v_str(s):
    if s not in _lifted_str:
        c = z3.Const('c!str!%d' % len(_lifted_str), V)
        for other in _lifted_str.values():
            emit(z3.Not(smt.py_eq(c, other)))
            emit(c != other)
        _lifted_str[s] = c
        # native order between the string literals the code mentions is the Python order
    c = _lifted_str[s]
    emit(smt.cls(c) == smt.TEXT)
    emit(smt.truthy(c) == z3.BoolVal(bool(s)))
    for o, oc in _lifted_str.items():
        if o != s:
            emit(smt.nlt(c, oc) == z3.BoolVal(s < o))
    return c


def v_int(t):
    t = _t(t)
    c = smt.mkint(t)
    emit(z3.And(smt.cls(c) == smt.NUM, smt.ival(c) == t, smt.num(c) == z3.ToReal(t), smt.is_int(c),
                smt.truthy(c) == (t != 0)))
    return c


def v_bool(t):
    t = _t(t)
    c = smt.mkbool(t)
    emit(z3.And(smt.cls(c) == smt.NUM, smt.ival(c) == z3.If(t, 1, 0), smt.num(c) == z3.If(t, 1.0, 0.0), smt.is_bool(c),
                smt.truthy(c) == t))
    return c


def v_seq(s):
    kind = smt.LIST if s.kind == 'list' else smt.TUPLE
    c = smt.mkseq(s.arr, s.len, kind)
    emit(z3.And(smt.seq_arr(c) == s.arr, smt.seq_len(c) == s.len, smt.cls(c) == kind, smt.truthy(c) == (s.len > 0)))
    return c


def as_v(x):
    """V term of any first-order value"""
    if isinstance(x, SCell):
        return x.t
    if x is None:
        return v_none()
    if isinstance(x, (bool, SBool)):
        return v_bool(x)
    if isinstance(x, (int, SInt)):
        return v_int(x)
    if isinstance(x, str):
        return v_str(x)
    if isinstance(x, Seq):
        return v_seq(x)
    if isinstance(x, tuple):
        return v_seq(seq_of_items(list(x), 'tuple'))
    if isinstance(x, PyList):
        return v_seq(seq_of_items(x.items, x.kind))
    if z3.is_expr(x) and x.sort() == V:
        return x
    if hasattr(x, 'as_v_term'):
        return x.as_v_term()
    raise Unsupported('cannot lift %r into V' % (x,))


def seq_of_items(items, kind='list', origin='Fresh'):
    arr = smt.fresh_arr('lit')
    a = arr
    for k, it in enumerate(items):
        a = z3.Store(a, k, as_v(it))
    return Seq(a, z3.IntVal(len(items)), kind, origin)


def view_seq(x, origin='Source'):
    """sequence view of a value"""
    if isinstance(x, Seq):
        return x
    if isinstance(x, SCell):
        emit(smt.seq_len(x.t) >= 0)
        return Seq(smt.seq_arr(x.t), smt.seq_len(x.t), 'src', origin)
    if isinstance(x, (tuple, list)):
        return seq_of_items(list(x), 'tuple' if isinstance(x, tuple) else 'list')
    if isinstance(x, PyList):
        return seq_of_items(x.items, x.kind, x.origin)
    raise Unsupported('not a sequence: %r' % (x,))


# -------------------------------------------------------------------------------- spec combinators

def And_(*xs):
    return SBool(z3.And([_t(x) for x in xs])) if xs else SBool(z3.BoolVal(True))


def Or_(*xs):
    return SBool(z3.Or([_t(x) for x in xs])) if xs else SBool(z3.BoolVal(False))


def Not_(x):
    return SBool(z3.Not(_t(x)))


def Implies_(a, b):
    return SBool(z3.Implies(_t(a), _t(b)))


def ite(c, a, b):
    c = _t(c)
    if isinstance(a, (SCell,)) or isinstance(b, SCell) or a is None or b is None or isinstance(a, str) or isinstance(b, str):
        return SCell(z3.If(c, as_v(a), as_v(b)))
    if isinstance(a, (SBool, bool)) and isinstance(b, (SBool, bool)):
        return SBool(z3.If(c, _t(a), _t(b)))
    return SInt(z3.If(c, _t(a), _t(b)))


def length(x):
    if isinstance(x, Seq):
        return SInt(x.len)
    if isinstance(x, SCell):
        return SInt(smt.seq_len(x.t))
    return len(x)


def forall(lo, hi, f, name='q'):
    """forall j. lo <= j < hi => f(j)   (array-property fragment)"""
    j = smt.fresh_int(name)
    body = _t(f(SInt(j)))
    return SBool(z3.ForAll([j], z3.Implies(z3.And(_t(lo) <= j, j < _t(hi)), body)))


def exists(lo, hi, f, name='e'):
    j = smt.fresh_int(name)
    body = _t(f(SInt(j)))
    return SBool(z3.Exists([j], z3.And(_t(lo) <= j, j < _t(hi), body)))


def row_eq(a, b):
    """two sequences have the same length and the very same cells"""
    a, b = view_seq(a), view_seq(b)
    j = smt.fresh_int('re')
    return SBool(z3.And(a.len == b.len,
                        z3.ForAll([j], z3.Implies(z3.And(0 <= j, j < a.len), z3.Select(a.arr, j) == z3.Select(b.arr, j)))))
