"""pyvc.interp -- forward symbolic execution of petl's own AST (DESIGN 2.2 - 2.6).

One *path* is one deterministic run of the interpreter under a list of branch decisions; paths are explored by
re-execution (no state copying), so the heap is simply the interpreter's Python objects.  A loop whose trip count is
symbolic needs a loop contract (invariant) from the sidecar; loops over sequences of concrete length are unrolled.
"""
import ast, os
import z3
from . import smt
from .smt import V, I, B
from .values import (SInt, SBool, SCell, Seq, PyList, Unsupported, _t, as_v, view_seq, seq_of_items, set_sink, emit)
from . import values as vals

MUTATORS = {'append', 'extend', 'insert', 'pop', 'sort', 'remove', 'reverse', 'clear', 'update', 'setdefault',
            'popitem', 'popleft', 'appendleft', 'add', 'discard'}
LOGGERS = {'debug', 'info', 'warning', 'logger', 'logging'}


class PathEnd(Exception):
    """stop exploring this path (after an inductive step, an infeasible assumption ...)"""


class PyExc(Exception):
    """an exception of the interpreted program"""

    def __init__(self, kind, payload=None, origin=None):
        Exception.__init__(self, kind)
        self.kind, self.payload, self.origin = kind, payload, origin


class _Return(Exception):
    def __init__(self, value):
        self.value = value


class _Break(Exception):
    pass


class _Continue(Exception):
    pass


EXC_PARENTS = {'IndexError': 'LookupError', 'KeyError': 'LookupError', 'LookupError': 'Exception',
               'StopIteration': 'Exception', 'TypeError': 'Exception', 'ValueError': 'Exception',
               'AttributeError': 'Exception', 'RuntimeError': 'Exception', 'EOFError': 'Exception',
               'FieldSelectionError': 'Exception', 'ArgumentError': 'Exception', 'DuplicateKeyError': 'Exception',
               'ZeroDivisionError': 'ArithmeticError', 'ArithmeticError': 'Exception', 'AssertionError': 'Exception',
               'UserError': 'Exception', 'ExternalError': 'Exception', 'OSError': 'Exception', 'IOError': 'Exception',
               'NameError': 'Exception', 'UnboundLocalError': 'NameError', 'SourceError': 'Exception',
               'Exception': 'BaseException', 'GeneratorExit': 'BaseException', 'KeyboardInterrupt': 'BaseException'}


def exc_matches(kind, handler_kind):
    k = kind
    while k is not None:
        if k == handler_kind:
            return True
        k = EXC_PARENTS.get(k)
    return False


GHOST_CHOICES = {'choice', 'source_fails', 'db_fails', 'io_fails', 'asindices_fails', 'source_fails_in_load', 'in_opaque_dict'}


class Obligation(object):
    def __init__(self, name, hyps, goal, where='', kind='post', solver=None):
        self.name, self.hyps, self.goal, self.where, self.kind = name, list(hyps), goal, where, kind
        self.solver = solver         # 'cvc5': ask cvc5 first (quantifier alternations it decides at once and z3 does not)


BRANCH_IDS = set()       # AST ids of facts that are branch conditions (as opposed to assumptions / emitted axioms)


class Ctx(object):
    """state of one path"""

    def __init__(self, decisions=()):
        self.decisions = list(decisions)
        self.taken = []
        self.alternatives = []
        self.facts = list(smt.VALUE_AXIOMS)
        self.obligations = []
        self.frame_violations = []
        self.notes = []
        self.out = None              # Seq of yielded values (set by the harness)
        self.nfork = 0
        set_sink(self.facts.append)

    def assume(self, f):
        f = _t(f)
        if z3.is_false(z3.simplify(f)):
            raise PathEnd()
        self.facts.append(f)

    def oblige(self, name, goal, where='', kind='post', solver=None):
        self.obligations.append(Obligation(name, self.facts, _t(goal), where, kind, solver))

    def cut(self, name, lemma, where=''):
        """intermediate lemma: proved here as an obligation of its own (from the facts so far), then available to what follows"""
        self.oblige(name, lemma, where, 'post')
        self.facts.append(_t(lemma))

    def branch(self, cond, label=''):
        """decide a symbolic condition; returns a Python bool; schedules the other side"""
        if isinstance(cond, bool):
            return cond
        c = z3.simplify(_t(cond))
        if z3.is_true(c):
            return True
        if z3.is_false(c):
            return False
        i = len(self.taken)
        if i < len(self.decisions):
            d = self.decisions[i]
            self.taken.append(d)
            f = c if d else z3.Not(c)
            self.facts.append(f)
            BRANCH_IDS.add(f.get_id())
            return d
        if z3.is_const(c) and c.decl().kind() == z3.Z3_OP_UNINTERPRETED and c.decl().name().split('!')[0] in GHOST_CHOICES:
            can_t = can_f = True         # a fresh ghost choice (a fault that may or may not happen ...): both sides feasible
        else:
            can_t = self.feasible(c)
            can_f = self.feasible(z3.Not(c))
        if can_t and can_f:
            self.alternatives.append(self.taken + [False])
            d = True
        elif can_t:
            d = True
        elif can_f:
            d = False
        else:
            raise PathEnd()
        self.taken.append(d)
        f = c if d else z3.Not(c)
        self.facts.append(f)
        BRANCH_IDS.add(f.get_id())
        return d

    def feasible(self, extra):
        """incremental feasibility check; unknown counts as feasible"""
        if getattr(self, '_sfacts', None) is not self.facts or self._synced > len(self.facts):
            self._solver = z3.Solver()
            self._solver.set('timeout', 1500)
            self._sfacts, self._synced = self.facts, 0
        for f in self.facts[self._synced:]:
            self._solver.add(f)
        self._synced = len(self.facts)
        return self._solver.check(extra) != z3.unsat

    def choose(self, n, label=''):
        """non-deterministic choice among n alternatives (returns index)"""
        for k in range(n - 1):
            if self.branch(smt.fresh_bool('choice'), label):
                return k
        return n - 1


def explore(run, max_paths=4000):
    """run(ctx) for every path; returns list of ctx"""
    work = [[]]
    done = []
    while work:
        dec = work.pop()
        ctx = Ctx(dec)
        try:
            run(ctx)
        except PathEnd:
            pass
        done.append(ctx)
        work.extend(ctx.alternatives)
        if len(done) > max_paths:
            raise Unsupported('more than %d paths' % max_paths)
    return done


# ---------------------------------------------------------------------------------------------- objects

class Env(object):
    def __init__(self, vars=None, parent=None):
        self.vars = vars if vars is not None else {}
        self.parent = parent

    def lookup(self, name):
        e = self
        while e is not None:
            if name in e.vars:
                return e.vars[name]
            e = e.parent
        raise KeyError(name)

    def has(self, name):
        try:
            self.lookup(name)
            return True
        except KeyError:
            return False


class Closure(object):
    def __init__(self, node, env, qualname, module):
        self.node, self.env, self.qualname, self.module = node, env, qualname, module
        self.is_generator = isinstance(node, ast.FunctionDef) and any(
            isinstance(n, (ast.Yield, ast.YieldFrom)) for n in _walk_own(node))

    def __repr__(self): return 'Closure(%s)' % self.qualname


def _walk_own(fn):
    """walk a function body without descending into nested defs/lambdas"""
    stack = list(fn.body)
    while stack:
        n = stack.pop()
        yield n
        for c in ast.iter_child_nodes(n):
            if isinstance(c, (ast.FunctionDef, ast.Lambda, ast.ClassDef)):
                continue
            stack.append(c)


class ClassObj(object):
    def __init__(self, name, node, module, bases):
        self.name, self.node, self.module, self.bases = name, node, module, bases
        self.methods = {}
        self.attrs = {}

    def find(self, name):
        if name in self.methods:
            return self.methods[name], self
        for b in self.bases:
            if isinstance(b, ClassObj):
                r = b.find(name)
                if r:
                    return r
        return None

    def __repr__(self): return 'Class(%s)' % self.name


class Instance(object):
    def __init__(self, cls):
        self.cls, self.attrs = cls, {}
        self.origin = 'Fresh'

    def as_v_term(self):
        """V term of a tuple-subclass instance (petl Record): its contents"""
        if '_tuple' in self.attrs:
            return as_v(self.attrs['_tuple'])
        raise Unsupported('cannot lift %r into V' % (self,))

    def __repr__(self): return 'Instance(%s)' % self.cls.name


class BoundMethod(object):
    def __init__(self, fn, selfobj):
        self.fn, self.selfobj = fn, selfobj


class Builtin(object):
    def __init__(self, name, fn):
        self.name, self.fn = name, fn

    def __repr__(self): return 'Builtin(%s)' % self.name


class ExcClass(object):
    def __init__(self, name):
        self.name = name

    def __repr__(self): return 'ExcClass(%s)' % self.name


class ExcValue(object):
    def __init__(self, kind, args):
        self.kind, self.args = kind, args


class TypeObj(object):
    """a Python type used in isinstance(): a set of value classes plus refinements"""

    def __init__(self, name, classes, pred=None):
        self.name, self.classes, self.pred = name, classes, pred

    def __repr__(self): return 'Type(%s)' % self.name


class STable(object):
    """a symbolic source table: rows[0] is the header (if n >= 1); each row is a V viewed as a sequence"""

    def __init__(self, name, nmin=0):
        self.name = name
        self.rows = z3.Array(name + '!rows', I, V)
        self.n = z3.Int(name + '!n')
        self.nmin = nmin
        self.iters = 0

    def row(self, i):
        return SCell(z3.Select(self.rows, _t(i)))


class SrcIter(object):
    """iterator over an STable / Seq with ghost position (the pull counter of C02)"""

    def __init__(self, rows_arr, n, name, origin='Source'):
        self.arr, self.n, self.name, self.origin = rows_arr, n, name, origin
        self.pos = z3.IntVal(0)
        self.exhausted_seen = False


class LiveSeqIter(SrcIter):
    """iterator over a list that other activations may extend while it is being iterated (Python list iterators are
    live: each next() looks at the CURRENT length and contents)"""

    def __init__(self, seq, name):
        self.seq = seq
        self.name, self.origin = name, seq.origin
        self.pos = z3.IntVal(0)
        self.exhausted_seen = False
        self.elem_seq = seq

    arr = property(lambda self: self.seq.arr, lambda self, v: None)
    n = property(lambda self: self.seq.len, lambda self, v: None)


class MapIter(object):
    """lazy generator expression / map over an iterator:  (elt for target in inner if conds)"""

    def __init__(self, inner, fn):
        self.inner, self.fn = inner, fn


class ListIter(object):
    def __init__(self, items):
        self.items, self.i = list(items), 0


class Opaque(object):
    """an external object (file, csv writer, DB connection ...) whose calls are recorded in the effect trace"""

    def __init__(self, kind, name=None, attrs=None):
        self.kind, self.name, self.attrs = kind, name or kind, attrs or {}

    def __repr__(self): return 'Opaque(%s)' % self.name


class UCall(object):
    """uninterpreted user callback: deterministic function of its arguments that may raise"""

    def __init__(self, name, may_raise=True, result='cell'):
        self.name, self.may_raise, self.result = name, may_raise, result
        self.calls = []

    def as_v_term(self):
        return z3.Const('fn!' + self.name, V)


# ---------------------------------------------------------------------------------------------- modules

class Module(object):
    def __init__(self, name, path):
        self.name, self.path = name, path
        self.src = open(path).read()
        self.tree = ast.parse(self.src)
        self.env = Env({})
        self.loaded = False


class Program(object):
    """the petl sources, parsed from the working tree on every run"""

    def __init__(self, root='/repo'):
        self.root = root
        self.modules = {}

    def module(self, name):
        if name not in self.modules:
            rel = name.replace('.', '/')
            path = os.path.join(self.root, rel + '.py')
            if not os.path.exists(path):
                path = os.path.join(self.root, rel, '__init__.py')
            self.modules[name] = Module(name, path)
        return self.modules[name]

    def find(self, qualname):
        """'petl.transform.basics.itercut' or 'petl.comparison.Comparable.__lt__' -> (module, node, classnode|None)"""
        parts = qualname.split('.')
        for k in range(len(parts) - 1, 0, -1):
            modname = '.'.join(parts[:k])
            rel = os.path.join(self.root, modname.replace('.', '/'))
            if os.path.exists(rel + '.py'):
                m = self.module(modname)
                node, owner = m.tree, None
                for p in parts[k:]:
                    found = None
                    for c in (node.body if hasattr(node, 'body') else []):
                        if isinstance(c, (ast.FunctionDef, ast.ClassDef)) and c.name == p:
                            found = c
                    if found is None:
                        # nested closures: search the whole subtree
                        for c in ast.walk(node):
                            if isinstance(c, (ast.FunctionDef, ast.ClassDef)) and c.name == p and c is not node:
                                found = c
                                break
                    if found is None:
                        raise Unsupported('binding lost: %s not found in %s' % (p, modname))
                    if isinstance(node, ast.ClassDef):
                        owner = node
                    node = found
                return m, node, owner
        raise Unsupported('binding lost: no module for %s' % qualname)

    def source_of(self, qualname):
        m, node, _ = self.find(qualname)
        return ast.get_source_segment(m.src, node)


def loops_of(fn_node):
    """for/while loops and comprehensions of a function in source order (ordinals are the sidecar keys)"""
    res = []
    for n in ast.walk(fn_node):
        if isinstance(n, (ast.For, ast.While)):
            res.append(n)
    res.sort(key=lambda n: (n.lineno, n.col_offset))
    return res


class LoopSpec(object):
    """sidecar loop contract.
       invariant(st) -> SBool; st gives st.k (elements consumed by this loop), st[name] (current value), st.out
       types: {'name': 'int'|'bool'|'cell'|'seq'|'keep'} overrides for havocked variables
       decreases: for while loops"""

    def __init__(self, invariant=None, types=None, label='', extra_havoc=(), unroll=None, delta=None):
        """invariant(st): inductive invariant.  delta(st, x, dout): *stateless-body rule* -- the body is run once for an
        arbitrary element x with every carried variable havocked and an empty output trace dout; delta states the
        obligations on what this one iteration emitted (the composition over all iterations is the engine's
        meta-theorem, DESIGN 2.4)."""
        self.invariant, self.types, self.label, self.extra_havoc, self.unroll = invariant, types or {}, label, extra_havoc, unroll
        self.delta = delta
        self.on_exit = None          # callback(ls, iterations: z3 Int) when a stateless loop ran to exhaustion
        self.ghost = ()              # names in interp.ghost (SInt counters of the contract) havocked with the loop
        self.stop_after = False      # end the path when the loop exits (the contract covers the function up to here)
        self.rebind = None           # callback(ls) after the havoc: (re)create interpreter-level objects the invariant talks about
        self.after_body = None       # callback(ls) at the end of the symbolic iteration of a while loop (per-iteration obligations)
        self.lookahead = 0           # rows the function may legitimately hold before the loop starts (documented one-row look-ahead)


class LoopState(object):
    def __init__(self, interp, env, k, k0=None):
        self.interp, self.env, self.k = interp, env, k

    def __getitem__(self, name):
        try:
            v = self.env.lookup(name)
        except KeyError:
            # the contract names a local variable the function no longer has (renamed / restructured code): the proof cannot be
            # re-established for this tree -- undecided, not a checker fault and not a violation
            raise Unsupported('binding lost: the contract refers to local variable %r, which the function no longer has' % name)
        if isinstance(v, PyList):
            try:
                return seq_of_items(v.items, v.kind, v.origin)      # read-only symbolic view of a concrete list
            except Unsupported:
                return v
        return v

    @property
    def out(self):
        return self.interp.ctx.out
