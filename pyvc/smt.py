"""pyvc.smt -- the SMT value model (DESIGN 2.3) and the solver layer (DESIGN 2.7).

Sorts
  V        uninterpreted: every Python value that can sit in a cell, a row, a key ...
  Cls      finite datatype: the value classes the ordering of C04 distinguishes
  rows / sequences are (Array Int V, length) pairs; a V can be *viewed* as a sequence through
  seq_arr/seq_len, as an integer through ival, and sequences / ints are injected into V with
  mkseq / mkint (axioms instantiated at each use, never quantified).

Trusted facts about Python values (T4 of DESIGN 2.5) are the VALUE_AXIOMS below; they are listed in every
evidence file.
"""
import itertools, os, subprocess, sys, tempfile, time
import z3
from z3 import (And, Or, Not, Implies, If, ForAll, Exists, Int, IntVal, BoolVal, Const, Function, IntSort,
                BoolSort, RealSort, ArraySort, DeclareSort, EnumSort, Select, Store, Solver, sat, unsat, unknown,
                simplify, is_true, is_false)

z3.set_param('smt.random_seed', 0)

V = DeclareSort('V')
I = IntSort()
B = BoolSort()
ARR = ArraySort(I, V)

CLS_NAMES = ['NONE', 'NUM', 'BYTES', 'TEXT', 'DATE', 'DATETIME', 'TIME', 'TUPLE', 'LIST', 'OTHER']
Cls, _CL = EnumSort('Cls', CLS_NAMES)
CL = dict(zip(CLS_NAMES, _CL))
NONE, NUM, BYTES, TEXT, DATE, DATETIME, TIME, TUPLE, LIST, OTHER = _CL
# type(x).__name__ for a representative of each class (only used by Comparable's fall-back, via _typestr)
TYPENAME = {'NONE': 'NoneType', 'NUM': 'int', 'BYTES': 'bytes', 'TEXT': 'str', 'DATE': 'date',
            'DATETIME': 'datetime', 'TIME': 'time', 'TUPLE': 'tuple', 'LIST': 'list', 'OTHER': 'object'}

cls = Function('cls', V, Cls)
num = Function('num', V, RealSort())            # numeric value of a NUM
ival = Function('ival', V, I)                    # integer view
nlt = Function('nlt', V, V, B)                   # native '<' inside one class (non-NUM)
py_eq = Function('py_eq', V, V, B)               # truth of  a == b
truthy = Function('truthy', V, B)                # bool(a)
seq_arr = Function('seq_arr', V, ARR)            # sequence view of a value
seq_len = Function('seq_len', V, I)
mkint = Function('mkint', I, V)
mkbool = Function('mkbool', B, V)
mkseq = Function('mkseq', ARR, I, Cls, V)        # injection of a sequence (contents, length, TUPLE|LIST)
is_int = Function('py_is_int', V, B)
is_bool = Function('py_is_bool', V, B)
is_str = lambda v: cls(v) == TEXT
is_none = lambda v: cls(v) == NONE

_x, _y, _z = z3.Consts('x!v y!v z!v', V)
same = lambda a, b: cls(a) == cls(b)
ORDERED = lambda a: And(cls(a) != NUM, cls(a) != NONE, cls(a) != OTHER)   # classes with a native order among themselves

VALUE_AXIOMS = [
    # == : an equivalence, False across classes, numeric equality on numbers, all Nones equal
    ForAll([_x], py_eq(_x, _x)),
    ForAll([_x, _y], py_eq(_x, _y) == py_eq(_y, _x)),
    ForAll([_x, _y, _z], Implies(And(py_eq(_x, _y), py_eq(_y, _z)), py_eq(_x, _z))),
    ForAll([_x, _y], Implies(Not(same(_x, _y)), Not(py_eq(_x, _y)))),
    ForAll([_x, _y], Implies(And(cls(_x) == NUM, cls(_y) == NUM), py_eq(_x, _y) == (num(_x) == num(_y)))),
    ForAll([_x, _y], Implies(And(cls(_x) == NONE, cls(_y) == NONE), py_eq(_x, _y))),
    # native < inside one class: strict total order modulo ==
    ForAll([_x, _y], Implies(nlt(_x, _y), And(same(_x, _y), Not(py_eq(_x, _y)), Not(nlt(_y, _x))))),
    ForAll([_x, _y, _z], Implies(And(nlt(_x, _y), nlt(_y, _z)), nlt(_x, _z))),
    ForAll([_x, _y, _z], Implies(And(nlt(_x, _y), py_eq(_y, _z)), nlt(_x, _z))),
    ForAll([_x, _y, _z], Implies(And(py_eq(_x, _y), nlt(_y, _z)), nlt(_x, _z))),
    ForAll([_x, _y], Implies(And(same(_x, _y), ORDERED(_x)), Or(nlt(_x, _y), py_eq(_x, _y), nlt(_y, _x)))),
    ForAll([_x], Implies(cls(_x) == NONE, Not(truthy(_x)))),
    ForAll([_x], Implies(Or(is_int(_x), is_bool(_x)), And(cls(_x) == NUM, num(_x) == z3.ToReal(ival(_x))))),
]
VALUE_AXIOM_TEXT = [
    "T4: == is an equivalence; False across value classes; numeric equality inside NUM (bool/int/float/Decimal); None == None",
    "T4: native < inside one non-numeric class is a strict total order compatible with ==; < across classes raises TypeError",
    "T4: NaN, timezone-aware/naive datetime mixes and objects with user-defined comparisons are outside the value domain (class OTHER has == only)",
]

# nested values: the tuple-of-Comparables a list/tuple value is stored as by Comparable.__init__
wrapv = Function('wrapv', V, V)
WRAP_AXIOMS = [
    ForAll([_x], Implies(Or(cls(_x) == TUPLE, cls(_x) == LIST), cls(wrapv(_x)) == TUPLE)),
    ForAll([_x], wrapv(wrapv(_x)) == wrapv(_x)),
]

_fresh = itertools.count()


FRESH_LOG = []          # every fresh constant, in creation order (used to skolemise per-element witnesses, see builtins.ite_paths)


def fresh(prefix, sort):
    c = Const('%s!%d' % (prefix, next(_fresh)), sort)
    FRESH_LOG.append(c)
    return c


def fresh_int(prefix='i'):
    return fresh(prefix, I)


def fresh_bool(prefix='b'):
    return fresh(prefix, B)


def fresh_v(prefix='v'):
    return fresh(prefix, V)


def fresh_arr(prefix='a'):
    return fresh(prefix, ARR)


# ------------------------------------------------------------------------------------------------ solving

Z3_TIMEOUT_MS = int(os.environ.get('PYVC_Z3_MS', '45000'))
Z3_FIRST_MS = int(os.environ.get('PYVC_Z3_FIRST_MS', '6000'))
CVC5_QUICK_S = int(os.environ.get('PYVC_CVC5_QUICK_S', '8'))
CVC5_TIMEOUT_S = int(os.environ.get('PYVC_CVC5_S', '90'))
CVC5 = '/usr/bin/cvc5'


class Result(object):
    __slots__ = ('status', 'backend', 'seconds', 'model', 'detail')

    def __init__(self, status, backend, seconds, model=None, detail=''):
        self.status, self.backend, self.seconds, self.model, self.detail = status, backend, seconds, model, detail


def _smt2(hyps, goal):
    s = Solver()
    for h in hyps:
        s.add(h)
    s.add(Not(goal))
    return '(set-logic ALL)\n' + s.sexpr() + '\n(check-sat)\n'


def run_cvc5(text, timeout_s=None):
    timeout_s = timeout_s or CVC5_TIMEOUT_S
    fd, path = tempfile.mkstemp(suffix='.smt2', prefix='pyvc_')
    try:
        with os.fdopen(fd, 'w') as f:
            f.write(text)
        try:
            p = subprocess.run([CVC5, '--tlimit=%d' % (timeout_s * 1000), path], capture_output=True, text=True,
                               timeout=timeout_s + 10)
            out = p.stdout.strip().split('\n')[0] if p.stdout.strip() else 'unknown'
        except subprocess.TimeoutExpired:
            out = 'unknown'
        return out if out in ('sat', 'unsat') else 'unknown'
    finally:
        os.unlink(path)


def prove(hyps, goal, timeout_ms=None, use_cvc5=True, both=False, cvc5_first=False, quick=False):
    """Is (/\\ hyps) => goal valid?  status: 'unsat' (discharged) | 'sat' (refuted; model attached) | 'unknown'."""
    t0 = time.time()
    if is_false(simplify(goal)):
        # a concrete check failed on this path (typestate / frame obligations): refuted unless the path itself is infeasible
        s0 = Solver()
        s0.set('timeout', timeout_ms or Z3_TIMEOUT_MS)
        for h in hyps:
            s0.add(h)
        r0 = s0.check()
        if r0 == unsat:
            return Result('unsat', 'z3-%s' % z3.get_version_string(), time.time() - t0, detail='path infeasible')
        why = str(s0.reason_unknown()) if r0 == unknown else ''
        if r0 == unknown and ('timeout' in why or 'cancel' in why or 'memout' in why or 'resource' in why):
            # the solver ran out of budget (e.g. a loaded machine): do not call this a refutation
            c = run_cvc5(_smt2(hyps, BoolVal(False))) if use_cvc5 and os.path.exists(CVC5) else 'unknown'
            if c == 'unsat':
                return Result('unsat', 'cvc5-1.0.3', time.time() - t0, detail='path infeasible')
            m = finite_shape_model(hyps)
            if m is not None:
                return Result('sat', 'z3-%s' % z3.get_version_string(), time.time() - t0, model=m[1],
                              detail='the obligation is false on a path that is feasible at the finite shape %s' % m[0])
            return Result('unknown', 'z3+cvc5', time.time() - t0, detail='false goal; feasibility of the path undecided within the budget (%s)' % why)
        return Result('sat', 'z3-%s' % z3.get_version_string(), time.time() - t0,
                      model=(s0.model() if r0 == sat else None),
                      detail='the obligation is false on a path that the solver could not refute (%s)' % (why or 'sat'))
    if cvc5_first and use_cvc5 and os.path.exists(CVC5) and not is_false(simplify(goal)):
        c = run_cvc5(_smt2(hyps, goal))
        if c == 'unsat':
            return Result('unsat', 'cvc5-1.0.3', time.time() - t0, detail='cvc5 asked first')
    budget = timeout_ms or Z3_TIMEOUT_MS
    first = min(budget, Z3_FIRST_MS)
    asked_cvc5 = False
    s = Solver()
    s.set('timeout', first)
    for h in hyps:
        s.add(h)
    s.add(Not(goal))
    r = s.check()
    if r == unknown and first < budget:
        # staged: a short z3 attempt, then cvc5 (which decides many quantifier alternations at once), then z3 with the full budget
        if use_cvc5 and os.path.exists(CVC5) and not cvc5_first:
            c = run_cvc5(_smt2(hyps, goal), timeout_s=CVC5_QUICK_S)
            if c == 'unsat':
                return Result('unsat', 'cvc5-1.0.3', time.time() - t0, detail='after a short z3 attempt')
            if c == 'sat':
                return Result('sat', 'cvc5-1.0.3', time.time() - t0, detail='cvc5 sat (no model extracted)')
        s = Solver()
        s.set('timeout', budget)
        for h in hyps:
            s.add(h)
        s.add(Not(goal))
        r = s.check()
    if os.environ.get('PYVC_STATS'):
        try:
            st = s.statistics()
            rl = [st.get_key_value(k) for k in st.keys() if k == 'rlimit count']
            if time.time() - t0 > 0.5:
                open('/tmp/pyvc_stats.log', 'a').write('STATS %s %.2fs rlimit=%s\n' % (r, time.time() - t0, rl))
        except Exception:
            pass
    if r == unsat:
        res = Result('unsat', 'z3-%s' % z3.get_version_string(), time.time() - t0)
        if both and use_cvc5:
            c = run_cvc5(_smt2(hyps, goal))
            res.detail = 'cvc5:' + c
            if c == 'sat':
                res.status, res.detail = 'disagree', 'z3 unsat / cvc5 sat'
        return res
    if r == sat:
        return Result('sat', 'z3-%s' % z3.get_version_string(), time.time() - t0, model=s.model())
    if use_cvc5 and os.path.exists(CVC5) and not asked_cvc5:
        c = run_cvc5(_smt2(hyps, goal))
        if c == 'unsat':
            return Result('unsat', 'cvc5-1.0.3', time.time() - t0)
        if c == 'sat':
            return Result('sat', 'cvc5-1.0.3', time.time() - t0, detail='cvc5 sat (no model extracted)')
    if quick:
        return Result('unknown', 'z3', time.time() - t0, detail='quick mode (the task had already lost obligations): ' + str(s.reason_unknown()))
    m = finite_shape_model(list(hyps) + [Not(goal)])
    if m is not None:
        return Result('sat', 'z3-%s' % z3.get_version_string(), time.time() - t0, model=m[1],
                      detail='countermodel at the finite shape %s (the general query was undecided)' % m[0])
    # last resort before giving up: quantifier instantiation is sensitive to the search order, and a loaded machine eats the
    # wall-clock budget -- retry once with another seed and twice the budget (costs time only where a proof is being lost)
    for seed in (11,):
        s2 = Solver()
        s2.set('timeout', 2 * (timeout_ms or Z3_TIMEOUT_MS))
        s2.set('random_seed', seed)
        s2.set('smt.random_seed', seed)
        for h in hyps:
            s2.add(h)
        s2.add(Not(goal))
        r2 = s2.check()
        if r2 == unsat:
            return Result('unsat', 'z3-%s' % z3.get_version_string(), time.time() - t0, detail='discharged on retry (seed %d)' % seed)
        if r2 == sat:
            return Result('sat', 'z3-%s' % z3.get_version_string(), time.time() - t0, model=s2.model())
    return Result('unknown', 'z3+cvc5', time.time() - t0, detail=str(s.reason_unknown()))


def finite_shape_model(hyps, shapes=(2, 3, 1, 4), timeout_ms=4000):
    """countermodel search at finite scope (DESIGN 4): pin every length-like integer constant (table sizes, sequence
    lengths) to a small value; with the shape concrete the solver answers sat with a model although the general query is
    undecided.  Returns (shape description, model) or None."""
    import re
    from z3 import z3util
    consts = {}
    for h in hyps:
        try:
            for v in z3util.get_vars(h):
                if v.sort() == I and (re.search(r'(!n|!len)$', str(v)) or re.match(r'^(G|flen)!\d+$', str(v))):
                    consts[str(v)] = v
        except Exception:
            pass
    if not consts:
        return None
    for p in shapes:
        s = Solver()
        s.set('timeout', timeout_ms)
        for h in hyps:
            s.add(h)
        for v in consts.values():
            s.add(v == p)
        if s.check() == sat:
            return ('all of %s = %d' % (sorted(consts), p), s.model())
    # independent small values: let the solver pick each length in 0..3, then pin what it picked (two-stage)
    s = Solver()
    s.set('timeout', 3 * timeout_ms)
    for h in hyps:
        s.add(h)
    for v in consts.values():
        s.add(And(v >= 0, v <= 3))
    if s.check() == sat:
        m = s.model()
        return ('lengths within 0..3: %s' % {k: str(m.eval(v)) for k, v in consts.items()}, m)
    import itertools as _it
    names = sorted(consts)
    if len(names) <= 5:
        for combo in _it.product((0, 1, 2), repeat=len(names)):
            s = Solver()
            s.set('timeout', 1500)
            for h in hyps:
                s.add(h)
            for nm, val in zip(names, combo):
                s.add(consts[nm] == val)
            if s.check() == sat:
                return ('%s' % dict(zip(names, combo)), s.model())
    return None


def feasible(hyps, extra, timeout_ms=1500):
    """May hyps /\\ extra hold?  unknown counts as feasible (an infeasible path only adds vacuous obligations)."""
    s = Solver()
    s.set('timeout', timeout_ms)
    for h in hyps:
        s.add(h)
    s.add(extra)
    return s.check() != unsat
