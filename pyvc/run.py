"""pyvc.run -- run verification tasks of contract modules; prints a JSON report.
usage: python3-vt -m pyvc.run [--root /repo] [--both] [--jobs N] [--task NAME] contracts/c04_comparison.py ..."""
import argparse, importlib.util, json, os, sys, time, multiprocessing


def load(path):
    from pyvc import api
    api.TASKS[:] = []
    name = 'contract_' + os.path.basename(path)[:-3]
    spec = importlib.util.spec_from_file_location(name, path)
    mod = importlib.util.module_from_spec(spec)
    spec.loader.exec_module(mod)
    return [t for t in api.TASKS if t.fn.__module__ == name]


def _run(arg):
    path, tname, root, both = arg
    from pyvc import api
    tasks = [t for t in load(path) if t.name == tname]
    return api.run_task(tasks[0], root=root, both=both)


def run_modules(paths, root='/repo', both=False, jobs=None, only=None):
    work = []
    for p in paths:
        for t in load(p):
            if only and t.name not in only:
                continue
            work.append((p, t.name, root, both))
    jobs = jobs or min(16, max(1, len(work)))
    # every task runs in a process of its own (maxtasksperchild=1): fresh-name counters and solver state then do not depend on
    # which tasks happened to run before it in the same worker, so a task's queries -- and verdicts -- are reproducible
    with multiprocessing.Pool(max(1, jobs), maxtasksperchild=1) as pool:
        return pool.map(_run, work, chunksize=1)


def main():
    ap = argparse.ArgumentParser()
    ap.add_argument('--root', default='/repo')
    ap.add_argument('--both', action='store_true')
    ap.add_argument('--jobs', type=int)
    ap.add_argument('--task', action='append')
    ap.add_argument('--json')
    ap.add_argument('modules', nargs='+')
    a = ap.parse_args()
    t0 = time.time()
    reports = run_modules(a.modules, a.root, a.both, a.jobs, a.task)
    bad = 0
    for r in reports:
        st = {}
        for o in r['results']:
            st[o['status']] = st.get(o['status'], 0) + 1
        print('%-28s paths=%-4d %6.2fs %s %s' % (r['task'], r['paths'], r['seconds'], st, ('UNSUPPORTED: ' + r['unsupported']) if r['unsupported'] else ''))
        for o in r['results']:
            if o['status'] not in ('unsat', 'canary-ok'):
                bad += 1
                print('    %-10s %s  %s %s' % (o['status'], o['obligation'], o['where'], json.dumps(o['model'])[:300] if o['model'] else ''))
    print('total %.2fs, %d not discharged' % (time.time() - t0, bad))
    if a.json:
        json.dump(reports, open(a.json, 'w'), indent=1)


if __name__ == '__main__':
    main()
