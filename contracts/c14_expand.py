"""C14 -- "unpack, capture, split and splitdown expand one field as documented while leaving all other fields unchanged",
per data row, for ALL tables (any number of rows, any row lengths), by the stateless-body rule:

  split     out = row (minus the split cell unless include_original) ++ prog.split(cell, maxsplit)
  capture   out = row (minus the cell unless include_original) ++ match.groups()      | ++ fill when there is no match
            and a fill is given | TransformError when there is no match and no fill
  splitdown one output row per piece of prog.split(cell): the row with the cell replaced by the piece, cut/padded to the header
  unpack    out = row (minus the cell unless include_original) ++ the first n values of the cell, padded with `missing`

The regular-expression engine is an uninterpreted, deterministic function of (value, arguments) (T6: re); the field is
addressed by a valid non-negative index (the name form resolves to one through flds.index: bounded check)."""
import z3
from pyvc.api import *
from pyvc.values import _t
from pyvc import smt, builtins as bi
from pyvc.smt import V
from pyvc.interp import Opaque, PyExc

RX = 'petl.transform.regex.'
UP = 'petl.transform.unpacks.'
SPLIT = z3.Function('re_split', V, V, V)          # (value, maxsplit) -> list of pieces
MATCHES = z3.Function('re_matches', V, z3.BoolSort())
GROUPS = z3.Function('re_groups', V, V)           # value -> tuple of groups
BAD = z3.Function('re_typeerror', V, z3.BoolSort())   # the value is not something the regex engine accepts


def install_re(it, ctx):
    def hook(interp, fn, args, kwargs, node):
        name = fn.name
        if name.endswith('re.compile'):
            return Opaque('regex', 'prog')
        if name == 'prog.split':
            v = as_v(args[0])
            if ctx.branch(BAD(v), 'the cell is not a string'):
                raise PyExc('TypeError', None, interp.where(node))
            r = SCell(SPLIT(v, as_v(args[1]) if len(args) > 1 else as_v(0)))
            ctx.facts.append(smt.seq_len(r.t) >= 1)
            return r
        if name == 'prog.search':
            v = as_v(args[0])
            if ctx.branch(BAD(v), 'the cell is not a string'):
                raise PyExc('TypeError', None, interp.where(node))
            if ctx.branch(MATCHES(v), 'the pattern matches'):
                return Opaque('match', 'match', {'_value': v})
            return None
        if name == 'match.groups':
            v = fn.attrs['self'].attrs['_value']
            r = SCell(GROUPS(v))
            ctx.facts.append(smt.seq_len(r.t) >= 0)
            return r
        raise Unsupported('external call %s' % name)
    it.opaque_hook = hook


def kept_then(o, row, f, include_original, extra):
    """o == (row without position f unless include_original) ++ extra"""
    q = smt.fresh_int('q')
    base = row.len if include_original else row.len - 1
    src = (lambda q_: z3.Select(row.arr, q_)) if include_original else (lambda q_: z3.Select(row.arr, z3.If(q_ >= f, q_ + 1, q_)))
    return z3.And(o.len == base + extra.len,
                  z3.ForAll([q], z3.Implies(z3.And(0 <= q, q < o.len),
                                            z3.Select(o.arr, q) == z3.If(q < base, src(q), z3.Select(extra.arr, q - base)))))


def setup(ctx, it):
    S = sym_table(ctx, 'S', nmin=1)
    rows_are_sequences(ctx, S)
    f = sym_int('field')
    ctx.assume(z3.And(0 <= f.t, f.t < src_row(S, 0).len))
    it.check_pulls = True
    return S, f


def escapes(ctx, res, name, allowed):
    if res.exc is not None:
        inloop = getattr(ctx, 'in_iteration', None)
        ctx.oblige('%s: only %s escape, from the row that causes it' % (name, ' / '.join(allowed)),
                   z3.BoolVal(res.exc.kind in allowed and inloop is not None), res.exc.origin or '')
        return True
    return False


def make_split(inc):
    @vc('C14.itersplit.%s' % ('keep' if inc else 'drop'), functions=[RX + 'itersplit'], props=['C14', 'C03', 'C02'],
        assumptions=['re through an uninterpreted contract (T6); field = valid non-negative index', 'stateless-body rule (engine meta-theorem)'])
    def task(h):
        def body(ctx):
            def delta(ls, x, dout):
                row = view_seq(x)
                parts = view_seq(SCell(SPLIT(z3.Select(row.arr, f.t), as_v(maxsplit))))
                ctx.oblige('itersplit: one output row = the row%s followed by the pieces of the cell; every other cell unchanged, in place' %
                           ('' if inc else ' without the split cell'),
                           z3.And(dout.len == 1, kept_then(out_row(dout, 0), row, f.t, inc, parts)))
            it = h.interp(ctx, loops={(RX + 'itersplit', 0): LoopSpec(delta=delta, label='rows')})
            install_re(it, ctx)
            S, f = setup(ctx, it)
            maxsplit = sym_int('maxsplit')
            res = run_generator(it, closure_of(it, RX + 'itersplit'), [S, f, 'pat', None, inc, maxsplit, 0])
            escapes(ctx, res, 'itersplit', ('IndexError', 'TypeError'))
        h.explore(body)
    return task


def make_capture(inc, fill):
    @vc('C14.itercapture.%s.%s' % ('keep' if inc else 'drop', 'fill' if fill else 'nofill'), functions=[RX + 'itercapture'], props=['C14', 'C03', 'C02'],
        assumptions=['re through an uninterpreted contract (T6); field = valid non-negative index', 'stateless-body rule (engine meta-theorem)'])
    def task(h):
        def body(ctx):
            def delta(ls, x, dout):
                row = view_seq(x)
                v = z3.Select(row.arr, f.t)
                extra = view_seq(SCell(GROUPS(v)))
                fl = view_seq(fillv) if fill else None
                o = out_row(dout, 0)
                good = z3.And(dout.len == 1, kept_then(o, row, f.t, inc, extra))
                if fill:
                    goal = z3.If(MATCHES(v), good, z3.And(dout.len == 1, kept_then(o, row, f.t, inc, fl)))
                else:
                    goal = z3.And(MATCHES(v), good)       # (the no-match case raises: judged by `escapes`)
                ctx.oblige('itercapture: one output row = the row%s followed by the captured groups%s; every other cell unchanged' %
                           ('' if inc else ' without the cell', ' (the fill values when there is no match)' if fill else ''), goal)
            it = h.interp(ctx, loops={(RX + 'itercapture', 0): LoopSpec(delta=delta, label='rows')})
            install_re(it, ctx)
            S, f = setup(ctx, it)
            fillv = sym_seq(ctx, 'fill') if fill else None
            res = run_generator(it, closure_of(it, RX + 'itercapture'), [S, f, 'pat', None, inc, 0, fillv])
            escapes(ctx, res, 'itercapture', ('IndexError', 'TypeError') + (() if fill else ('TransformError',)))
        h.explore(body)
    return task


for inc in (False, True):
    make_split(inc)
    for fill in (False, True):
        make_capture(inc, fill)


@vc('C14.itersplitdown', functions=[RX + 'itersplitdown'], props=['C14', 'C03', 'C02'],
    assumptions=['re through an uninterpreted contract (T6); field = valid non-negative index', 'nested stateless-body rule (engine meta-theorem)'])
def splitdown(h):
    def body(ctx):
        def inner(ls, x, dout):
            row = view_seq(ls['row'])
            o = out_row(dout, 0)
            q = smt.fresh_int('q')
            hl = src_row(S, 0).len
            ctx.oblige('itersplitdown: each piece yields one row of header width: the piece in the split field, every other cell of the row unchanged',
                       z3.And(dout.len == 1, o.len == hl,
                              z3.ForAll([q], z3.Implies(z3.And(0 <= q, q < hl), z3.Select(o.arr, q) == z3.If(q == f.t, as_v(x), z3.Select(row.arr, q))))))

        def outer(ls, x, dout):
            pass
        it = h.interp(ctx, loops={(RX + 'itersplitdown', 0): LoopSpec(delta=outer, label='rows'),
                                  (RX + 'itersplitdown', 1): LoopSpec(delta=inner, label='pieces')})
        install_re(it, ctx)
        S, f = setup(ctx, it)
        res = run_generator(it, closure_of(it, RX + 'itersplitdown'), [S, f, 'pat', sym_int('maxsplit'), 0])
        escapes(ctx, res, 'itersplitdown', ('IndexError', 'TypeError'))
    h.explore(body)


def make_unpack(inc):
    @vc('C14.iterunpack.%s' % ('keep' if inc else 'drop'), functions=[UP + 'iterunpack'], props=['C14', 'C03', 'C02'],
        assumptions=['field = valid non-negative index whose name occurs once in the header; newfields = a tuple of n >= 0 new field names',
                     'the cell is a sequence', 'stateless-body rule (engine meta-theorem)'])
    def task(h):
        def body(ctx):
            def delta(ls, x, dout):
                row = view_seq(x)
                cell = view_seq(SCell(z3.Select(row.arr, f.t)))
                o = out_row(dout, 0)
                q = smt.fresh_int('q')
                base = row.len if inc else row.len - 1
                src = (lambda q_: z3.Select(row.arr, q_)) if inc else (lambda q_: z3.Select(row.arr, z3.If(q_ >= f.t, q_ + 1, q_)))
                ctx.oblige('iterunpack: one output row = the row%s followed by exactly n values: the first n values of the cell, padded with `missing`' %
                           ('' if inc else ' without the unpacked cell'),
                           z3.And(dout.len == 1, o.len == base + n.t,
                                  z3.ForAll([q], z3.Implies(z3.And(0 <= q, q < o.len),
                                                            z3.Select(o.arr, q) == z3.If(q < base, src(q),
                                                                                         z3.If(q - base < cell.len, z3.Select(cell.arr, q - base), missing.t))))))
            it = h.interp(ctx, loops={(UP + 'iterunpack', 0): LoopSpec(delta=delta, label='rows')})
            S, f = setup(ctx, it)
            newfields = sym_seq(ctx, 'newfields', 'tuple')
            n = SInt(newfields.len)
            missing = sym_cell('missing')
            x_ = z3.Const('x!u', V)
            ctx.facts.append(z3.ForAll([x_], z3.Not(smt.py_eq(bi._strf(x_), smt.mkint(f.t)))))       # a field name (a str) is never == an int index
            res = run_generator(it, closure_of(it, UP + 'iterunpack'), [S, f, newfields, inc, missing])
            escapes(ctx, res, 'iterunpack', ('IndexError', 'TypeError'))
        h.explore(body)
    return task


make_unpack(False)
make_unpack(True)


def make_unpackdict(inc):
    @vc('C14.iterunpackdict.%s' % ('keep' if inc else 'drop'), functions=[UP + 'iterunpackdict'], props=['C14', 'C03', 'C02'],
        assumptions=['keys given explicitly (two keys: the loop body is uniform in their number); the field is addressed by a name that occurs in the header',
                     'subscripting a cell is an uninterpreted partial function that may raise', 'stateless-body rule (engine meta-theorem)'])
    def task(h):
        def body(ctx):
            def delta(ls, x, dout):
                row = view_seq(x)
                f = _t(ls['fidx'])
                o = out_row(dout, 0)
                q = smt.fresh_int('q')
                base = row.len if inc else row.len - 1
                src = (lambda q_: z3.Select(row.arr, q_)) if inc else (lambda q_: z3.Select(row.arr, z3.If(q_ >= f, q_ + 1, q_)))
                ctx.oblige('iterunpackdict: one output row = the row%s followed by one cell per key; every other cell unchanged, in place' %
                           ('' if inc else ' without the dict cell'),
                           z3.And(dout.len == 1, o.len == base + 2,
                                  z3.ForAll([q], z3.Implies(z3.And(0 <= q, q < base), z3.Select(o.arr, q) == src(q)))))
                # the two appended cells: the dict's value for the key, or `missing` when the lookup fails (incl. a row too short to have the cell)
                cell = z3.Select(row.arr, f)
                exp = lambda kk: z3.If(z3.Or(f >= row.len, BAD(cell, kk.t)), missing.t, GET(cell, kk.t))
                ctx.oblige('iterunpackdict: the appended cells are, in key order, cell[key] -- or `missing` when that lookup raises IndexError / KeyError / TypeError',
                           z3.And(z3.Select(o.arr, base) == exp(k1), z3.Select(o.arr, base + 1) == exp(k2)))
            box = {}
            it = h.interp(ctx, loops={(UP + 'iterunpackdict', 1): LoopSpec(delta=delta, label='rows')})
            spec = it.loop_specs[(UP + 'iterunpackdict', 1)]
            spec.rebind = lambda ls: box.__setitem__('lookups', [])
            S = sym_table(ctx, 'S', nmin=1)
            rows_are_sequences(ctx, S)
            k1, k2, missing = sym_cell('k1'), sym_cell('k2'), sym_cell('missing')
            field = sym_cell('field')
            ctx.assume(smt.cls(field.t) == smt.TEXT)
            # d[key] on a cell: value, or an exception of one of the three classes the code catches (anything else would escape)
            GET = z3.Function('dict_item', smt.V, smt.V, smt.V)
            BAD = z3.Function('dict_item_fails', smt.V, smt.V, z3.BoolSort())

            def getitem_hook(interp, obj, idx, node):
                return None
            orig_getitem = it.getitem

            def getitem(obj, idx, node=None):
                if isinstance(obj, SCell) and (idx is k1 or idx is k2):
                    if ctx.branch(BAD(obj.t, idx.t), 'the lookup in the cell fails'):
                        box['lookups'].append(missing.t)
                        it.raise_('KeyError', idx, node)
                    v = GET(obj.t, idx.t)
                    box['lookups'].append(v)
                    return SCell(v)
                return orig_getitem(obj, idx, node)
            it.getitem = getitem
            res = run_generator(it, closure_of(it, UP + 'iterunpackdict'), [S, field, PyList([k1, k2], 'list'), inc, 1000, missing])
            if res.exc is not None:
                inloop = getattr(ctx, 'in_iteration', None)
                ctx.oblige('iterunpackdict: only ValueError for an unknown field (before any row) or IndexError for a row too short for the field escapes',
                           z3.BoolVal((res.exc.kind == 'ValueError' and inloop is None) or (res.exc.kind == 'IndexError' and inloop is not None)), res.exc.origin or '')
        h.explore(body)
    return task


make_unpackdict(False)
make_unpackdict(True)


# ------------------------------------------------------------------------------------------------ search (C13)
def make_search(complement):
    @vc('C13.itersearch.%s' % ('complement' if complement else 'match'), functions=[RX + 'itersearch'], props=['C13', 'C03', 'C02'],
        assumptions=['re through an uninterpreted contract (T6); one field given by a valid index; rows long enough to have the cell '
                     '(shorter rows: known finding KF2, decided by the bounded check)', 'stateless-body rule (engine meta-theorem)'])
    def task(h):
        def body(ctx):
            def delta(ls, x, dout):
                row = view_seq(x)
                cell = z3.Select(row.arr, f.t)
                m = MATCHES(bi._strf(cell))
                keep = z3.Not(m) if complement else m
                ctx.oblige('itersearch%s: a row is kept iff the pattern %s the text of the addressed cell; kept rows are yielded once, unchanged' %
                           (' (complement)' if complement else '', 'does NOT match' if complement else 'matches'),
                           z3.If(keep, z3.And(dout.len == 1, _t(row_eq(out_row(dout, 0), x))), dout.len == 0))
            it = h.interp(ctx, loops={(RX + 'itersearch', 0): LoopSpec(delta=delta, label='rows'), (RX + 'itersearch', 1): LoopSpec(delta=delta, label='rows (complement)')})
            install_re(it, ctx)
            S, f = setup(ctx, it)
            rectangular(ctx, S)
            x_ = z3.Const('x!s', V)
            ctx.facts.append(z3.ForAll([x_], z3.Not(BAD(bi._strf(x_)))))          # text_type(v) is always a string
            res = run_generator(it, closure_of(it, RX + 'itersearch'), [S, 'pat', f, 0, complement])
            if res.exc is not None:
                ctx.oblige('itersearch: never raises on a rectangular table', z3.BoolVal(False), res.exc.origin or '')
                return
            if getattr(ctx, 'after_loop', None):
                pre = ctx.pre_loop_out
                ctx.oblige('itersearch: the header first, once, unchanged; nothing after the last row',
                           z3.And(pre.len == 1, _t(row_eq(out_row(pre, 0), src_row(S, 0))), res.out.len == 0))
        h.explore(body)
    return task


make_search(False)
make_search(True)


@vc('C13.search.wrappers', functions=[RX + 'search', RX + 'searchcomplement', RX + 'SearchView.__init__', RX + 'SearchView.__iter__'], props=['C13'],
    assumptions=['generator functions are lazy: calling one binds its arguments'])
def search_wrappers(h):
    """search(t, [field,] pattern, flags=, complement=) and searchcomplement(...) build the same view from the same arguments -- field,
    pattern and flags identical, only `complement` differs -- so the two results partition the table (C13.itersearch.*); the view hands
    exactly these to itersearch."""
    for with_field in (False, True):
        def body(ctx, with_field=with_field):
            it = h.interp(ctx)
            T = Opaque('table', 't')
            field, pattern, flags = sym_cell('field'), sym_cell('pattern'), sym_cell('flags')
            args = [T, field, pattern] if with_field else [T, pattern]
            res = {}
            for name, comp in (('search', False), ('searchcomplement', True)):
                v = it.call(closure_of(it, RX + name), list(args), {'flags': flags})
                a = getattr(v, 'attrs', {})
                ok = a.get('table') is T and a.get('pattern') is pattern and a.get('flags') is flags and \
                    (a.get('field') is field if with_field else a.get('field') is None) and a.get('complement') is comp
                ctx.oblige('%s: the view gets the table, %s, the pattern, the caller\'s flags and complement=%s' % (name, 'the field' if with_field else 'no field (whole row)', comp),
                           z3.BoolVal(bool(ok)))
                cls = closure_of(it, RX + 'SearchView')
                g = it.call(cls.find('__iter__')[0], [v], {})
                e = g.env.vars if isinstance(g, bi.GenObj) else {}
                ok2 = isinstance(g, bi.GenObj) and g.fn.qualname == RX + 'itersearch' and e.get('table') is T and e.get('pattern') is pattern and e.get('flags') is flags \
                    and e.get('complement') is comp and (e.get('field') is field if with_field else e.get('field') is None)
                ctx.oblige('%s: iterating the view runs itersearch with exactly these arguments' % name, z3.BoolVal(bool(ok2)))
        h.explore(body)
