"""C14 -- reshape, the streaming half: itermelt emits exactly one row per (row, variable) cell that exists; FlattenView
emits every data cell once, row-major.  (recast, pivot, transpose, unflatten, the regex expansions and the round trips are
decided by the bounded check only.)"""
import z3
from pyvc.api import *
from pyvc.values import _t
from pyvc import smt, builtins as bi
from contracts import lib_base

R = 'petl.transform.reshape.'


@vc('C14.itermelt', functions=[R + 'itermelt'], props=['C14', 'C03', 'C02', 'C20'],
    assumptions=['key and variables both given explicitly as field selections (contract of asindices); rows at least as long as the key needs',
                 'nested stateless-body rule (engine meta-theorem): out = header ++ concat over rows, over variables of the per-cell delta'])
def itermelt(h):
    def body(ctx):
        def inner(ls, x, dout):
            v, i = x                      # (variable name, variable index) of zip(variables, variables_indices)
            row = view_seq(ls['row'])
            kidx = ls['key_indices']
            ii = bi.to_int(i)
            o = out_row(dout, 0)
            q = smt.fresh_int('q')
            kcell = lambda j: z3.Select(row.arr, smt.ival(z3.Select(kidx.arr, j)))
            cellrow = z3.And(dout.len == 1, o.len == kidx.len + 2,
                             z3.ForAll([q], z3.Implies(z3.And(0 <= q, q < kidx.len), z3.Select(o.arr, q) == kcell(q))),
                             z3.Select(o.arr, kidx.len) == as_v(v), z3.Select(o.arr, kidx.len + 1) == z3.Select(row.arr, ii))
            variables, vix = view_seq(ls['variables']), view_seq(ls['variables_indices'])
            ctx.oblige('itermelt: the j-th variable name is paired with the j-th variable index (names and cells are not crossed over)',
                       z3.And(as_v(v) == z3.Select(variables.arr, ls.k.t), ii == smt.ival(z3.Select(vix.arr, ls.k.t))))
            ctx.oblige('itermelt: a (row, variable) pair yields exactly one row (key cells, variable name, that cell) if the cell exists, nothing if the row is too short',
                       z3.If(z3.And(ii >= 0, ii < row.len), cellrow, z3.If(ii >= row.len, dout.len == 0, z3.BoolVal(True))))

        def outer(ls, x, dout):
            pass
        loops = {(R + 'itermelt', 0): LoopSpec(delta=outer, label='rows'), (R + 'itermelt', 1): LoopSpec(delta=inner, label='variables')}
        it = h.interp(ctx, loops=loops, summaries=lib_base.SUMMARIES)
        S = sym_table(ctx, 'S', nmin=1)
        key, variables = sym_seq(ctx, 'key', 'tuple'), sym_seq(ctx, 'variables', 'tuple')
        ctx.assume(z3.And(key.len >= 1, variables.len >= 1))
        # rows hold the key cells (short only in the variable part)
        j, w = smt.fresh_int('r'), smt.fresh_int('w')
        hl = smt.seq_len(z3.Select(S.rows, 0))
        ctx.facts.append(z3.ForAll([j], z3.Implies(z3.And(1 <= j, j < S.n), smt.seq_len(z3.Select(S.rows, j)) <= hl)))
        fn = closure_of(it, R + 'itermelt')
        res = run_generator(it, fn, [S, key, variables, 'variable', 'value'])
        if res.exc is not None:
            inloop = getattr(ctx, 'in_iteration', None)
            ctx.oblige('itermelt: only FieldSelectionError (before the data) or IndexError for a row too short for the KEY escapes',
                       z3.BoolVal((res.exc.kind == 'FieldSelectionError' and inloop is None) or (res.exc.kind == 'IndexError' and inloop is not None)), res.exc.origin or '')
            return
        if getattr(ctx, 'after_loop', None) == 'rows':
            pre = ctx.pre_loop_out
            kidx = res.env.lookup('key_indices')
            o = out_row(pre, 0)
            hdr = src_row(S, 0)
            q = smt.fresh_int('q')
            ctx.oblige('itermelt: header = key fields, then the variable field name, then the value field name; nothing after the last row',
                       z3.And(pre.len == 1, o.len == kidx.len + 2, res.out.len == 0,
                              z3.ForAll([q], z3.Implies(z3.And(0 <= q, q < kidx.len), z3.Select(o.arr, q) == z3.Select(hdr.arr, smt.ival(z3.Select(kidx.arr, q)))))))
    h.explore(body)


@vc('C14.FlattenView', functions=[R + 'FlattenView.__iter__', 'petl.util.base.iterdata'], props=['C14', 'C03', 'C02'],
    assumptions=['nested stateless-body rule (engine meta-theorem): out = concat over data rows of their cells, row-major'])
def flatten(h):
    def body(ctx):
        def inner(ls, x, dout):
            ctx.oblige('flatten: every cell of a data row is emitted exactly once, as it is (row-major by the composition rule)',
                       z3.And(dout.len == 1, z3.Select(dout.arr, 0) == as_v(x)))

        def outer(ls, x, dout):
            pass
        qn = R + 'FlattenView.__iter__'
        it = h.interp(ctx, loops={(qn, 0): LoopSpec(delta=outer, label='rows'), (qn, 1): LoopSpec(delta=inner, label='cells')})
        S = sym_table(ctx, 'S', nmin=0)
        cls = closure_of(it, R + 'FlattenView')
        view = it.call(cls, [S], {})
        res = run_generator(it, cls.find('__iter__')[0], [view])
        if res.exc is not None:
            ctx.oblige('flatten: never raises', z3.BoolVal(False), res.exc.origin or '')
            return
        if getattr(ctx, 'after_loop', None) == 'rows':
            ctx.oblige('flatten: the header is not emitted and nothing follows the last row', z3.And(ctx.pre_loop_out.len == 0, res.out.len == 0))
    h.explore(body)


@vc('C14.UnflattenView', functions=[R + 'UnflattenView.__iter__', R + 'UnflattenView.__init__'], props=['C14', 'C03'],
    assumptions=['requires period >= 1', 'hybrid loop rule: the partial row is a function of the position (invariant), emission stated per value'])
def unflatten(h):
    """unflatten(values, period): the values are cut into consecutive windows of `period` values, each window one row, in
    order; the first window starts at the first value and the last, incomplete, window is padded with `missing` -- every
    value lands in exactly one cell, a final COMPLETE window is not lost, nothing is emitted for no values."""
    def body(ctx):
        box = {}

        def inv(ls):
            row = ls['row']
            k = ls.k.t
            q = smt.fresh_int('q')
            return z3.And(z3.If(k == 0, row.len == 0, z3.And(1 <= row.len, row.len <= period.t)), row.len <= k,
                          z3.ForAll([q], z3.Implies(z3.And(0 <= q, q < row.len), z3.Select(row.arr, q) == z3.Select(vals.arr, k - row.len + q))))

        def rebind(ls):
            box['len_before'] = ls['row'].len

        def delta(ls, x, dout):
            k = ls.k.t
            o = out_row(dout, 0)
            q = smt.fresh_int('q')
            full = box['len_before'] == period.t
            ctx.oblige('unflatten: a row is emitted exactly when a value arrives and the window before it is full; it is the `period` values that precede that value, in order',
                       z3.If(full, z3.And(dout.len == 1, o.len == period.t,
                                          z3.ForAll([q], z3.Implies(z3.And(0 <= q, q < period.t), z3.Select(o.arr, q) == z3.Select(vals.arr, k - period.t + q)))),
                             dout.len == 0))
            ctx.oblige('unflatten: windows tile the values: the pending window grows by the arriving value, or -- right after an emission -- restarts with exactly that value',
                       ls['row'].len == z3.If(full, 1, box['len_before'] + 1))
        qn = R + 'UnflattenView.__iter__'
        spec = LoopSpec(invariant=inv, delta=delta, label='values', types={'row': 'seq'})
        spec.rebind = rebind
        spec.on_exit = lambda ls, count: box.__setitem__('rem', ls['row'].len)      # the pending window when the values run out
        it = h.interp(ctx, loops={(qn, 0): spec})
        it.check_pulls = False
        vals = sym_seq(ctx, 'vals')
        period, missing = sym_int('period'), sym_cell('missing')
        ctx.assume(period.t >= 1)
        cls = closure_of(it, R + 'UnflattenView')
        view = it.call(cls, [vals, period], {'missing': missing})
        res = run_generator(it, cls.find('__iter__')[0], [view])
        if res.exc is not None:
            ctx.oblige('unflatten: never raises', z3.BoolVal(False), res.exc.origin or '')
            return
        if getattr(ctx, 'after_loop', None):
            pre, post = ctx.pre_loop_out, res.out
            row = res.env.lookup('row')
            row = row if isinstance(row, Seq) else view_seq(row)
            n = vals.len
            o = out_row(post, 0)
            q = smt.fresh_int('q')
            rem = box['rem']
            # the pending window at the end: the last `rem` = len(row) values, 1 <= rem <= period unless there were no values (invariant at exit)
            ctx.oblige('unflatten: after the last value the pending window (1..period values, the LAST ones) is emitted once, padded with `missing`; '
                       'nothing is emitted when there are no values',
                       z3.If(n == 0, post.len == 0,
                             z3.And(post.len == 1, o.len == period.t,
                                    1 <= rem, rem <= period.t, rem <= n,
                                    z3.ForAll([q], z3.Implies(z3.And(0 <= q, q < period.t),
                                                              z3.Select(o.arr, q) == z3.If(q < rem, z3.Select(vals.arr, n - rem + q), missing.t))))))
            ctx.oblige('unflatten: exactly one header row before the data', pre.len == 1)
    h.explore(body)
