"""C14 -- reshape, the streaming half: itermelt emits exactly one row per (row, variable) cell that exists; FlattenView
emits every data cell once, row-major.  (recast, pivot, transpose, unflatten, the regex expansions and the round trips are
decided by the bounded check only.)"""
import z3
from pyvc.api import *
from pyvc.values import _t
from pyvc import smt, builtins as bi
from contracts import lib_base

R = 'petl.transform.reshape.'


@vc('C14.itermelt', functions=[R + 'itermelt'], props=['C14', 'C03', 'C02', 'C20'],
    assumptions=['key and variables both given explicitly as field selections (contract of asindices); rows at least as long as the key needs',
                 'nested stateless-body rule (engine meta-theorem): out = header ++ concat over rows, over variables of the per-cell delta'])
def itermelt(h):
    def body(ctx):
        def inner(ls, x, dout):
            v, i = x                      # (variable name, variable index) of zip(variables, variables_indices)
            row = view_seq(ls['row'])
            kidx = ls['key_indices']
            ii = bi.to_int(i)
            o = out_row(dout, 0)
            q = smt.fresh_int('q')
            kcell = lambda j: z3.Select(row.arr, smt.ival(z3.Select(kidx.arr, j)))
            cellrow = z3.And(dout.len == 1, o.len == kidx.len + 2,
                             z3.ForAll([q], z3.Implies(z3.And(0 <= q, q < kidx.len), z3.Select(o.arr, q) == kcell(q))),
                             z3.Select(o.arr, kidx.len) == as_v(v), z3.Select(o.arr, kidx.len + 1) == z3.Select(row.arr, ii))
            variables, vix = view_seq(ls['variables']), view_seq(ls['variables_indices'])
            ctx.oblige('itermelt: the j-th variable name is paired with the j-th variable index (names and cells are not crossed over)',
                       z3.And(as_v(v) == z3.Select(variables.arr, ls.k.t), ii == smt.ival(z3.Select(vix.arr, ls.k.t))))
            ctx.oblige('itermelt: a (row, variable) pair yields exactly one row (key cells, variable name, that cell) if the cell exists, nothing if the row is too short',
                       z3.If(z3.And(ii >= 0, ii < row.len), cellrow, z3.If(ii >= row.len, dout.len == 0, z3.BoolVal(True))))

        def outer(ls, x, dout):
            pass
        loops = {(R + 'itermelt', 0): LoopSpec(delta=outer, label='rows'), (R + 'itermelt', 1): LoopSpec(delta=inner, label='variables')}
        it = h.interp(ctx, loops=loops, summaries=lib_base.SUMMARIES)
        S = sym_table(ctx, 'S', nmin=1)
        key, variables = sym_seq(ctx, 'key', 'tuple'), sym_seq(ctx, 'variables', 'tuple')
        ctx.assume(z3.And(key.len >= 1, variables.len >= 1))
        # rows hold the key cells (short only in the variable part)
        j, w = smt.fresh_int('r'), smt.fresh_int('w')
        hl = smt.seq_len(z3.Select(S.rows, 0))
        ctx.facts.append(z3.ForAll([j], z3.Implies(z3.And(1 <= j, j < S.n), smt.seq_len(z3.Select(S.rows, j)) <= hl)))
        fn = closure_of(it, R + 'itermelt')
        res = run_generator(it, fn, [S, key, variables, 'variable', 'value'])
        if res.exc is not None:
            inloop = getattr(ctx, 'in_iteration', None)
            ctx.oblige('itermelt: only FieldSelectionError (before the data) or IndexError for a row too short for the KEY escapes',
                       z3.BoolVal((res.exc.kind == 'FieldSelectionError' and inloop is None) or (res.exc.kind == 'IndexError' and inloop is not None)), res.exc.origin or '')
            return
        if getattr(ctx, 'after_loop', None) == 'rows':
            pre = ctx.pre_loop_out
            kidx = res.env.lookup('key_indices')
            o = out_row(pre, 0)
            hdr = src_row(S, 0)
            q = smt.fresh_int('q')
            ctx.oblige('itermelt: header = key fields, then the variable field name, then the value field name; nothing after the last row',
                       z3.And(pre.len == 1, o.len == kidx.len + 2, res.out.len == 0,
                              z3.ForAll([q], z3.Implies(z3.And(0 <= q, q < kidx.len), z3.Select(o.arr, q) == z3.Select(hdr.arr, smt.ival(z3.Select(kidx.arr, q)))))))
    h.explore(body)


@vc('C14.FlattenView', functions=[R + 'FlattenView.__iter__', 'petl.util.base.iterdata'], props=['C14', 'C03', 'C02'],
    assumptions=['nested stateless-body rule (engine meta-theorem): out = concat over data rows of their cells, row-major'])
def flatten(h):
    def body(ctx):
        def inner(ls, x, dout):
            ctx.oblige('flatten: every cell of a data row is emitted exactly once, as it is (row-major by the composition rule)',
                       z3.And(dout.len == 1, z3.Select(dout.arr, 0) == as_v(x)))

        def outer(ls, x, dout):
            pass
        qn = R + 'FlattenView.__iter__'
        it = h.interp(ctx, loops={(qn, 0): LoopSpec(delta=outer, label='rows'), (qn, 1): LoopSpec(delta=inner, label='cells')})
        S = sym_table(ctx, 'S', nmin=0)
        cls = closure_of(it, R + 'FlattenView')
        view = it.call(cls, [S], {})
        res = run_generator(it, cls.find('__iter__')[0], [view])
        if res.exc is not None:
            ctx.oblige('flatten: never raises', z3.BoolVal(False), res.exc.origin or '')
            return
        if getattr(ctx, 'after_loop', None) == 'rows':
            ctx.oblige('flatten: the header is not emitted and nothing follows the last row', z3.And(ctx.pre_loop_out.len == 0, res.out.len == 0))
    h.explore(body)
