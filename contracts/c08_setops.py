"""C08 -- hash set operations are multiset algebra (positional form):
    occA(i) = #{ j < i : a[j] == a[i] },   cntB(v) = #{ j : b[j] == v }
    hashcomplement keeps row i of a   iff  occA(i) >= cntB(a[i])       (strict: iff cntB(a[i]) == 0)
    hashintersection keeps row i of a iff  occA(i) <  cntB(a[i])
in a's order, each kept row once, unchanged.  Hence  a = complement(a, b) + intersection(a, b)  (the two keep-predicates are
complementary) and the multisets are a - b and a & b (counting argument on occA, meta-level).
collections.Counter is used through its contract (T6): Counter(rows)[v] = number of rows == v, a missing key reads 0."""
import z3
from pyvc.api import *
from pyvc.values import _t
from pyvc import smt, builtins as bi
from pyvc.smt import V, I
from pyvc.interp import Opaque, PyExc
from contracts.lib_count import counting

SO = 'petl.transform.setops.'


def rowkey(S, i):
    r = z3.Select(S.rows, i)
    return bi.canon(smt.mkseq(smt.seq_arr(r), smt.seq_len(r), smt.TUPLE))


def make(fname, strict):
    @vc('C08.%s%s' % (fname, '.strict' if strict else ''), functions=[SO + fname], props=['C08', 'C03', 'C02'],
        assumptions=['T6: collections.Counter counts rows modulo ==; rows are hashable', 'counting lemmas: C07.cnt.lemmas',
                     'hybrid loop rule: invariant on the counter + per-row emission (composition: engine meta-theorem)'])
    def task(h):
        def body(ctx):
            box = {}

            def counter_contract(interp, fn, args, kwargs, node):
                if fn.name.endswith('Counter'):
                    src = args[0]
                    base = bi.base_iter(src)
                    bi.sym_exhaust(src)                       # the Counter consumes b's data rows
                    cntB = counting(ctx, 'CB', lambda i: rowkey(B, i))
                    box['CB'] = cntB
                    arr = smt.fresh('bcnt0', z3.ArraySort(V, I))
                    kap = z3.Const('kap!c', V)
                    ctx.facts.append(z3.ForAll([kap], z3.Select(arr, kap) == cntB(kap, B.n)))
                    return bi.ACounter(arr)
                raise Unsupported('external call %s' % fn.name)

            def CA():
                if 'CA' not in box:
                    box['CA'] = counting(ctx, 'CA', lambda i: rowkey(A, i))
                return box['CA']

            def inv(ls):
                m = ls.k.t
                c = ls['bcnt'].cnt
                kap = z3.Const('kap!i', V)
                cb = lambda k_: box['CB'](k_, B.n)
                if strict and fname == 'iterhashcomplement':
                    return z3.ForAll([kap], z3.Select(c, kap) == cb(kap))
                d = lambda k_: cb(k_) - CA()(k_, m)
                return z3.ForAll([kap], z3.Select(c, kap) == z3.If(d(kap) > 0, d(kap), 0))

            def delta(ls, x, dout):
                m = ls.k.t
                km = rowkey(A, m)
                occ, cb = CA()(km, m), box['CB'](km, B.n)
                if fname == 'iterhashcomplement':
                    keep = (cb == 0) if strict else (occ >= cb)
                else:
                    keep = occ < cb
                ctx.oblige('%s: row i of a is kept iff %s; a kept row is emitted once, as a tuple of itself' %
                           (fname, ('cntB(a[i]) == 0' if strict else 'occA(i) >= cntB(a[i])') if fname == 'iterhashcomplement' else 'occA(i) < cntB(a[i])'),
                           z3.If(keep, z3.And(dout.len == 1, _t(row_eq(out_row(dout, 0), x))), dout.len == 0))
            it = h.interp(ctx, loops={(SO + fname, 0): LoopSpec(invariant=inv, delta=delta, label='rows of a')})
            it.opaque_hook = counter_contract
            it.check_pulls = False
            A, B = sym_table(ctx, 'A', nmin=1), sym_table(ctx, 'B', nmin=1)
            args = [A, B, strict] if fname == 'iterhashcomplement' else [A, B]
            res = run_generator(it, closure_of(it, SO + fname), args)
            if res.exc is not None:
                ctx.oblige('%s: never raises' % fname, z3.BoolVal(False), res.exc.origin or '')
                return
            if getattr(ctx, 'after_loop', None):
                pre = ctx.pre_loop_out
                ctx.oblige('%s: a\'s header first, once; nothing after the last row' % fname,
                           z3.And(pre.len == 1, _t(row_eq(out_row(pre, 0), src_row(A, 0))), res.out.len == 0))
        h.explore(body)
    return task


make('iterhashcomplement', False)
make('iterhashcomplement', True)
make('iterhashintersection', False)


# ------------------------------------------------------------------------------------------------ constructors built from complement
@vc('C08.ctor.diff-recordcomplement', functions=[SO + 'diff', SO + 'recorddiff', SO + 'recordcomplement'], props=['C08', 'C11'],
    assumptions=['complement / sort / cut / header through recording summaries (their own contracts: C08.*merge, C05, C12.itercut)',
                 'two fields in the record forms (the code is uniform in their number: star-args)'])
def ctor_wiring(h):
    """diff(a, b) = (complement(b, a), complement(a, b)) over ONE sort of each input, recorddiff likewise over recordcomplement,
    recordcomplement(a, b) = complement(a, cut(b, *header(a))): b's columns are brought into a's field order BY NAME; strict and the
    strategy arguments are handed through unchanged."""
    def body(ctx):
        it = h.interp(ctx)
        log = []

        def rec(name, result=None):
            def summary(interp, args, kw, node):
                o = Opaque('view', '%s#%d' % (name, len(log)))
                log.append((name, list(args), dict(kw), o))
                return o
            return summary
        for n in ('complement', 'recordcomplement'):
            it.summaries[SO + n] = rec(n)
        it.summaries['petl.transform.sorts.sort'] = rec('sort')
        it.summaries['petl.transform.basics.cut'] = rec('cut')
        a, b = Opaque('table', 'a'), Opaque('table', 'b')
        n1, n2 = sym_cell('n1'), sym_cell('n2')
        ctx.facts.append(z3.And(z3.Not(smt.py_eq(n1.t, n2.t)), z3.Not(smt.py_eq(n2.t, n1.t)), smt.py_eq(n1.t, n1.t), smt.py_eq(n2.t, n2.t)))
        it.summaries['petl.util.base.header'] = lambda interp, args, kw, node: (n1, n2) if args[0] is a else (n2, n1)
        bs, td, ca, st = sym_cell('buffersize'), sym_cell('tempdir'), sym_bool('cache'), sym_bool('strict')
        strat = dict(buffersize=bs, tempdir=td, cache=ca)

        def same_kw(k, want):
            return set(k) == set(want) and all(k[x] is want[x] for x in want)
        # diff
        del log[:]
        r = it.call(closure_of(it, SO + 'diff'), [a, b], dict(strat, strict=st))
        sorts = [e for e in log if e[0] == 'sort']
        comps = [e for e in log if e[0] == 'complement']
        ok = len(sorts) == 2 and sorts[0][1] == [a] and sorts[1][1] == [b] and all(same_kw(s[2], strat) for s in sorts) and len(comps) == 2 \
            and comps[0][1] == [sorts[1][3], sorts[0][3]] and comps[1][1] == [sorts[0][3], sorts[1][3]] \
            and all(same_kw(c[2], dict(strat, presorted=True, strict=st)) for c in comps) and isinstance(r, tuple) and r[0] is comps[0][3] and r[1] is comps[1][3]
        ctx.oblige('diff(a, b): each input sorted once on the whole row with the caller\'s strategy; (added, subtracted) = (complement(b, a), complement(a, b)) '
                   'of those, presorted, with the caller\'s strict flag', z3.BoolVal(bool(ok)))
        # recorddiff
        del log[:]
        r = it.call(closure_of(it, SO + 'recorddiff'), [a, b], dict(strat, strict=st))
        rc = [e for e in log if e[0] == 'recordcomplement']
        ok = len(rc) == 2 and len(log) == 2 and rc[0][1] == [b, a] and rc[1][1] == [a, b] and all(same_kw(c[2], dict(strat, strict=st)) for c in rc) \
            and isinstance(r, tuple) and r[0] is rc[0][3] and r[1] is rc[1][3]
        ctx.oblige('recorddiff(a, b) = (recordcomplement(b, a), recordcomplement(a, b)) with the caller\'s strategy and strict flag', z3.BoolVal(bool(ok)))
        # recordcomplement
        del log[:]
        del it.summaries[SO + 'recordcomplement']
        try:
            r = it.call(closure_of(it, SO + 'recordcomplement'), [a, b], dict(strat, strict=st))
        except PyExc as e:
            ctx.oblige('recordcomplement: no exception for tables with the same field names', z3.BoolVal(False), e.origin or '')
            return
        cuts = [e for e in log if e[0] == 'cut']
        comps = [e for e in log if e[0] == 'complement']
        ok = len(cuts) == 1 and len(cuts[0][1]) == 3 and cuts[0][1][0] is b and cuts[0][1][1] is n1 and cuts[0][1][2] is n2 and not cuts[0][2] \
            and len(comps) == 1 and comps[0][1] == [a, cuts[0][3]] and same_kw(comps[0][2], dict(strat, strict=st)) and r is comps[0][3]
        ctx.oblige('recordcomplement(a, b) = complement(a, cut(b, *header(a))): b\'s fields selected BY NAME in a\'s field order; strategy and strict handed through',
                   z3.BoolVal(bool(ok)))
    h.explore(body)
