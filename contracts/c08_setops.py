"""C08 -- hash set operations are multiset algebra (positional form):
    occA(i) = #{ j < i : a[j] == a[i] },   cntB(v) = #{ j : b[j] == v }
    hashcomplement keeps row i of a   iff  occA(i) >= cntB(a[i])       (strict: iff cntB(a[i]) == 0)
    hashintersection keeps row i of a iff  occA(i) <  cntB(a[i])
in a's order, each kept row once, unchanged.  Hence  a = complement(a, b) + intersection(a, b)  (the two keep-predicates are
complementary) and the multisets are a - b and a & b (counting argument on occA, meta-level).
collections.Counter is used through its contract (T6): Counter(rows)[v] = number of rows == v, a missing key reads 0."""
import z3
from pyvc.api import *
from pyvc.values import _t
from pyvc import smt, builtins as bi
from pyvc.smt import V, I
from pyvc.interp import Opaque
from contracts.lib_count import counting

SO = 'petl.transform.setops.'


def rowkey(S, i):
    r = z3.Select(S.rows, i)
    return bi.canon(smt.mkseq(smt.seq_arr(r), smt.seq_len(r), smt.TUPLE))


def make(fname, strict):
    @vc('C08.%s%s' % (fname, '.strict' if strict else ''), functions=[SO + fname], props=['C08', 'C03', 'C02'],
        assumptions=['T6: collections.Counter counts rows modulo ==; rows are hashable', 'counting lemmas: C07.cnt.lemmas',
                     'hybrid loop rule: invariant on the counter + per-row emission (composition: engine meta-theorem)'])
    def task(h):
        def body(ctx):
            box = {}

            def counter_contract(interp, fn, args, kwargs, node):
                if fn.name.endswith('Counter'):
                    src = args[0]
                    base = bi.base_iter(src)
                    bi.sym_exhaust(src)                       # the Counter consumes b's data rows
                    cntB = counting(ctx, 'CB', lambda i: rowkey(B, i))
                    box['CB'] = cntB
                    arr = smt.fresh('bcnt0', z3.ArraySort(V, I))
                    kap = z3.Const('kap!c', V)
                    ctx.facts.append(z3.ForAll([kap], z3.Select(arr, kap) == cntB(kap, B.n)))
                    return bi.ACounter(arr)
                raise Unsupported('external call %s' % fn.name)

            def CA():
                if 'CA' not in box:
                    box['CA'] = counting(ctx, 'CA', lambda i: rowkey(A, i))
                return box['CA']

            def inv(ls):
                m = ls.k.t
                c = ls['bcnt'].cnt
                kap = z3.Const('kap!i', V)
                cb = lambda k_: box['CB'](k_, B.n)
                if strict and fname == 'iterhashcomplement':
                    return z3.ForAll([kap], z3.Select(c, kap) == cb(kap))
                d = lambda k_: cb(k_) - CA()(k_, m)
                return z3.ForAll([kap], z3.Select(c, kap) == z3.If(d(kap) > 0, d(kap), 0))

            def delta(ls, x, dout):
                m = ls.k.t
                km = rowkey(A, m)
                occ, cb = CA()(km, m), box['CB'](km, B.n)
                if fname == 'iterhashcomplement':
                    keep = (cb == 0) if strict else (occ >= cb)
                else:
                    keep = occ < cb
                ctx.oblige('%s: row i of a is kept iff %s; a kept row is emitted once, as a tuple of itself' %
                           (fname, ('cntB(a[i]) == 0' if strict else 'occA(i) >= cntB(a[i])') if fname == 'iterhashcomplement' else 'occA(i) < cntB(a[i])'),
                           z3.If(keep, z3.And(dout.len == 1, _t(row_eq(out_row(dout, 0), x))), dout.len == 0))
            it = h.interp(ctx, loops={(SO + fname, 0): LoopSpec(invariant=inv, delta=delta, label='rows of a')})
            it.opaque_hook = counter_contract
            it.check_pulls = False
            A, B = sym_table(ctx, 'A', nmin=1), sym_table(ctx, 'B', nmin=1)
            args = [A, B, strict] if fname == 'iterhashcomplement' else [A, B]
            res = run_generator(it, closure_of(it, SO + fname), args)
            if res.exc is not None:
                ctx.oblige('%s: never raises' % fname, z3.BoolVal(False), res.exc.origin or '')
                return
            if getattr(ctx, 'after_loop', None):
                pre = ctx.pre_loop_out
                ctx.oblige('%s: a\'s header first, once; nothing after the last row' % fname,
                           z3.And(pre.len == 1, _t(row_eq(out_row(pre, 0), src_row(A, 0))), res.out.len == 0))
        h.explore(body)
    return task


make('iterhashcomplement', False)
make('iterhashcomplement', True)
make('iterhashintersection', False)
