"""C01 -- randomtable: every iterator draws from its OWN generator, seeded with the view's seed, and from nothing else; so the
rows of a pass are a function of (seed, position) only -- the same on every pass and independent of what other iterators (or
any other user of the `random` module) do.  (dummytable's field callables are supplied by the caller and are bound to the
module-level generator in the documented usage: known finding KF1, decided by the bounded check.)"""
import z3
from pyvc.api import *
from pyvc.values import _t
from pyvc import smt
from pyvc.interp import Opaque, PyExc

RT = 'petl.util.random.RandomTable'


@vc('C01.RandomTable', functions=[RT + '.__iter__', RT + '.__init__'], props=['C01'],
    assumptions=['random.Random(seed) is a private deterministic generator: its k-th draw is a function of (seed, k) (T6)',
                 'two fields (the comprehension is uniform in their number); stateless-body rule over the rows'])
def randomtable(h):
    def body(ctx):
        draws = []

        def hook(interp, fn, args, kwargs, node):
            name = fn.name
            if name.endswith('random.Random') or name == 'pyrandom.Random':
                g = Opaque('generator', 'rnd', {'seed': args[0] if args else None})
                it.trace.append(('Random', g, list(args)))
                return g
            if name == 'rnd.random':
                v = sym_cell('draw%d' % len(draws))
                draws.append(v)
                it.trace.append(('draw', fn.attrs['self'], v))
                return v
            it.trace.append(('other:' + name,) + tuple(args))          # any other use of the random module / time: judged below
            return Opaque('external-result', name)
        seed = sym_cell('seed')
        ctx.assume(smt.cls(seed.t) != smt.NONE)
        nr = sym_int('numrows')
        ctx.assume(nr.t >= 0)

        def delta(ls, x, dout):
            new = it.trace[ls.trace_start:]
            gens = [e[1] for e in it.trace if e[0] == 'Random']
            ok = len(gens) == 1 and len(new) == 2 and all(e[0] == 'draw' and e[1] is gens[0] for e in new)
            o = out_row(dout, 0)
            ctx.oblige('RandomTable: each data row = exactly numflds consecutive draws from the iterator\'s private generator, nothing else is touched',
                       z3.And(z3.BoolVal(bool(ok)), dout.len == 1, o.len == 2,
                              *([z3.Select(o.arr, j) == new[j][2].t for j in range(2)] if ok else [])))
        it = h.interp(ctx, loops={(RT + '.__iter__', 0): LoopSpec(delta=delta, label='rows')})
        it.opaque_hook = hook
        it.check_pulls = False
        cls = closure_of(it, RT)
        view = it.call(cls, [], {'numflds': 2, 'numrows': nr, 'wait': 0, 'seed': seed})
        ctx.oblige('RandomTable(seed=s): construction draws nothing and keeps the caller\'s seed', z3.BoolVal(len(it.trace) == 0 and view.attrs['seed'] is seed))
        res = run_generator(it, cls.find('__iter__')[0], [view])
        if res.exc is not None:
            ctx.oblige('RandomTable: never raises', z3.BoolVal(False), res.exc.origin or '')
            return
        gens = [e for e in it.trace if e[0] == 'Random']
        others = [e for e in it.trace if e[0].startswith('other:')]
        ctx.oblige('RandomTable: ONE private generator per iterator, seeded with the view\'s seed; the module-level generator / global state is never used',
                   z3.BoolVal(len(gens) == 1 and len(gens[0][2]) == 1 and gens[0][2][0] is seed and not others))
        if getattr(ctx, 'after_loop', None):
            ctx.oblige('RandomTable: header of numflds names first; numrows data rows', z3.And(ctx.pre_loop_out.len == 1, res.out.len == 0))
    h.explore(body)
