"""C15 / C16 -- the text glue: _writetext (totext / appendtext) and _iterteetext (teetext) as typestate properties of the
effect trace, on every path (every I/O call may raise):
  open in the requested mode, wrap with the caller's encoding / errors, write the prologue first iff given, then for each
  data row exactly one write of template.format(**asdict(fields, row)) in table order, the epilogue iff given, flush, and
  detach + close on every exit; the tee additionally yields the header and every row once, unchanged, each AFTER its own
  write -- so a consumed tee has issued exactly the writes of totext for the same table and arguments.
(`newline=''` is passed by _writetext only; on POSIX the default newline handling writes '\\n' unchanged, so the bytes agree:
noted as a platform assumption, not compared.)"""
import z3
from pyvc.api import *
from pyvc.values import _t
from pyvc import smt, builtins as bi
from pyvc.interp import Opaque, PyExc

TX = 'petl.io.text.'


def install(it):
    ctx = it.ctx

    def ext_fail(what):
        if ctx.branch(smt.fresh_bool('io_fails'), 'the I/O call %s raises' % what):
            it.trace.append(('FAILED', what))
            raise PyExc('ExternalError', None, what)

    def hook(interp, fn, args, kwargs, node):
        name = fn.name
        selfobj = fn.attrs.get('self')
        meth = name.rsplit('.', 1)[-1]
        if name == 'source.open':
            it.trace.append(('open', args[0] if args else kwargs.get('mode')))
            ext_fail('open')
            return Opaque('buffer', 'buf')
        if name == 'io.TextIOWrapper':
            it.trace.append(('wrap', args[0], dict(kwargs)))
            ext_fail('TextIOWrapper')
            return Opaque('textfile', 'f', {'buffer': args[0]})
        if name == 'template.format':
            r = Opaque('formatted', 'line', {'rec': kwargs.get('__rec__'), 'kwargs': dict(kwargs)})
            it.trace.append(('format', r))
            return r
        if isinstance(selfobj, Opaque) and selfobj.kind == 'textfile':
            it.trace.append(('f.' + meth, selfobj) + tuple(args))
            if meth != 'detach':
                ext_fail(meth)
            return None
        raise Unsupported('external call %s' % name)
    it.opaque_hook = hook
    src = Opaque('source', 'source')
    it.summaries['petl.io.sources.write_source_from_arg'] = lambda interp, args, kw, node: (it.trace.append(('source', tuple(args), dict(kw))), src)[1]

    def asdict(interp, args, kw, node):
        d = bi.SDict(interp)
        d.setitem(interp, '__rec__', Opaque('rec', 'rec', {'flds': args[0], 'row': args[1]}))
        return d
    it.summaries['petl.util.base.asdict'] = asdict
    return src


def row_write_ok(tr, start, row, flds):
    new = tr[start:]
    if len(new) != 2 or new[0][0] != 'format' or new[1][0] != 'f.write':
        return False
    rec = new[0][1].attrs.get('rec')
    return new[1][2] is new[0][1] and isinstance(rec, Opaque) and rec.attrs.get('row') is row and rec.attrs.get('flds') is flds


def common(h, qn, is_tee, mode):
    for pro in (True, False):
        for epi in (True, False):
            def body(ctx, pro=pro, epi=epi):
                def delta(ls, x, dout):
                    ok = row_write_ok(it.trace, ls.trace_start, x, ls['flds'])
                    goal = z3.BoolVal(bool(ok))
                    if is_tee:
                        goal = z3.And(goal, dout.len == 1, z3.Select(dout.arr, 0) == as_v(x),
                                      z3.BoolVal(bool(marks) and marks[-1] == len(it.trace)))      # yielded after its write, nothing written in between
                    ctx.oblige('%s: each data row: exactly one write of template.format(**asdict(fields, row)) for that row%s' %
                               (qn.split('.')[-1], ', then the row itself is yielded once' if is_tee else ''), goal)
                it = h.interp(ctx, loops={(qn, 0): LoopSpec(delta=delta, label='data rows')})
                install(it)
                it.check_pulls = False
                marks = []
                it.on_yield = lambda v, node: marks.append(len(it.trace))
                S = sym_table(ctx, 'S', nmin=1)
                enc, err = sym_cell('encoding'), sym_cell('errors')
                template = Opaque('template', 'template')
                prologue = Opaque('text', 'prologue') if pro else None
                epilogue = Opaque('text', 'epilogue') if epi else None
                exc = None
                out_after = None
                if is_tee:
                    res = run_generator(it, closure_of(it, qn), [S, Opaque('arg', 'arg'), enc, err, template, prologue, epilogue])
                    exc, out_after = res.exc, res.out
                else:
                    try:
                        it.call(closure_of(it, qn), [S], dict(source=Opaque('arg', 'arg'), mode=mode, encoding=enc, errors=err, template=template, prologue=prologue, epilogue=epilogue))
                    except PyExc as e:
                        exc = e
                tr = it.trace
                names = [e[0] for e in tr]
                who = qn.split('.')[-1]
                if 'wrap' in names:
                    w = [e for e in tr if e[0] == 'wrap'][0]
                    o = [e for e in tr if e[0] == 'open']
                    ctx.oblige('%s: opened in mode %r and wrapped with the caller\'s encoding and errors' % (who, mode),
                               z3.BoolVal(len(o) == 1 and o[0][1] == mode and w[2].get('encoding') is enc and w[2].get('errors') is err))
                wrapped = 'wrap' in names and ('FAILED', 'TextIOWrapper') not in tr
                if wrapped:
                    ctx.oblige('%s: detach, then close, on every exit; nothing is written after the detach' % who,
                               z3.BoolVal('f.detach' in names and 'with-exit' in names and names.index('f.detach') < names.index('with-exit')
                                          and not any(n in ('f.write', 'f.flush') for n in names[names.index('f.detach'):])))
                if exc is not None:
                    ctx.oblige('%s: only I/O errors escape' % who, z3.BoolVal(exc.kind == 'ExternalError'))
                    return
                if getattr(ctx, 'after_loop', None):
                    writes = [e for e in tr if e[0] == 'f.write']
                    first_ok = (writes and writes[0][2] is prologue) if pro else True
                    # writes issued outside the data loop: prologue before any row, epilogue after
                    outside = [e for e in writes if e[2] is prologue or e[2] is epilogue]
                    ok = bool(first_ok) and len(outside) == (1 if pro else 0) + (1 if epi else 0) \
                        and (not epi or writes[-1][2] is epilogue) and 'f.flush' in names and names.index('f.flush') < names.index('f.detach') \
                        and (not epi or tr.index(writes[-1]) < names.index('f.flush'))
                    ctx.oblige('%s: prologue first iff given, epilogue after the last row iff given, then flush before detach' % who, z3.BoolVal(bool(ok)))
                    if is_tee:
                        pre = ctx.pre_loop_out
                        ctx.oblige('teetext: the header is yielded once, unchanged (never written); nothing is yielded after the last row',
                                   z3.And(pre.len == 1, _t(row_eq(out_row(pre, 0), src_row(S, 0))), out_after.len == 0))
            h.explore(body)


@vc('C15.writetext', functions=[TX + '_writetext'], props=['C15', 'C16'], assumptions=['T7; template.format and asdict through their contracts (opaque, deterministic)'])
def writetext(h):
    common(h, TX + '_writetext', False, 'wb')


@vc('C16.iterteetext', functions=[TX + '_iterteetext'], props=['C16'], assumptions=['T7; as C15.writetext; POSIX newline handling (see module docstring)'])
def teetext(h):
    common(h, TX + '_iterteetext', True, 'wb')


@vc('C15.TextView', functions=[TX + 'TextView.__iter__', TX + 'TextView.__init__'], props=['C15', 'C02'],
    assumptions=['T7: iterating a text file yields its lines one at a time (a file object is a lazy iterator); str.strip is an uninterpreted method'])
def textview(h):
    """fromtext: open('rb'), wrap(encoding, errors, newline=''), the header iff given, then ONE row per line -- (line,) or
    (line.strip(strip),) -- pulled line by line as rows are requested (never read()/readlines(): C02), detach + close on every exit."""
    for hdr_given in (True, False):
        for strip_mode in ('false', 'none', 'chars'):
            def body(ctx, hdr_given=hdr_given, strip_mode=strip_mode):
                def delta(ls, x, dout):
                    o = out_row(dout, 0)
                    if strip_mode == 'false':
                        cell = as_v(x)
                    else:
                        f = z3.Function('meth_strip_1', smt.V, smt.V, smt.V)
                        cell = f(as_v(x), as_v(strip))
                    ctx.oblige('TextView: one row per line: (line,)%s' % ('' if strip_mode == 'false' else ' stripped with the caller\'s strip argument'),
                               z3.And(dout.len == 1, o.len == 1, z3.Select(o.arr, 0) == cell))
                qn = TX + 'TextView.__iter__'
                it = h.interp(ctx, loops={(qn, 0): LoopSpec(delta=delta, label='lines'), (qn, 1): LoopSpec(delta=delta, label='lines (stripped)')})
                install(it)
                lines = sym_table(ctx, 'LINES', nmin=0)
                from pyvc.interp import SrcIter
                li = SrcIter(lines.rows, lines.n, 'lines')
                old = it.opaque_hook

                def hook(interp, fn, args, kwargs, node):
                    if fn.name in ('f.readlines', 'f.read'):
                        it.trace.append((fn.name, fn.attrs.get('self')))          # the whole file at once: judged below
                        li.pos = li.n
                        return Seq(lines.rows, lines.n, 'list', 'Fresh')
                    r = old(interp, fn, args, kwargs, node)
                    if fn.name == 'io.TextIOWrapper':
                        r.attrs['__iter__'] = li
                    return r
                it.opaque_hook = hook
                ok_m = z3.Function('meth_strip_1_ok', smt.V, smt.V, z3.BoolSort())
                a_, b_ = z3.Consts('a!s b!s', smt.V)
                ctx.facts.append(z3.ForAll([a_, b_], ok_m(a_, b_)))        # lines are strings: .strip exists
                src = Opaque('source', 'source')
                enc, err = sym_cell('encoding'), sym_cell('errors')
                header = sym_seq(ctx, 'header', 'tuple') if hdr_given else None
                strip = False if strip_mode == 'false' else (None if strip_mode == 'none' else sym_cell('strip'))
                if strip_mode == 'chars':
                    ctx.assume(smt.cls(strip.t) == smt.TEXT)
                cls = closure_of(it, TX + 'TextView')
                view = it.call(cls, [src], dict(header=header, encoding=enc, errors=err, strip=strip))
                ctx.oblige('TextView: constructing the view opens nothing', z3.BoolVal(len(it.trace) == 0))
                res = run_generator(it, cls.find('__iter__')[0], [view])
                tr = it.trace
                names = [e[0] for e in tr]
                if 'wrap' in names:
                    w = [e for e in tr if e[0] == 'wrap'][0]
                    o = [e for e in tr if e[0] == 'open']
                    ctx.oblige('TextView: opened \'rb\', wrapped with the caller\'s encoding and errors and newline=\'\'',
                               z3.BoolVal(len(o) == 1 and o[0][1] == 'rb' and w[2].get('encoding') is enc and w[2].get('errors') is err and w[2].get('newline') == ''))
                ctx.oblige('TextView: the file is only iterated (no read / readlines / write)', z3.BoolVal(not any(n.startswith('f.') and n != 'f.detach' for n in names)))
                if 'wrap' in names and ('FAILED', 'TextIOWrapper') not in tr:
                    ctx.oblige('TextView: detach then close on every exit', z3.BoolVal('f.detach' in names and 'with-exit' in names and names.index('f.detach') < names.index('with-exit')))
                if res.exc is not None:
                    ctx.oblige('TextView: only I/O errors escape', z3.BoolVal(res.exc.kind == 'ExternalError'))
                    return
                if getattr(ctx, 'after_loop', None):
                    pre = ctx.pre_loop_out
                    ctx.oblige('TextView: the header first iff one is given; nothing after the last line',
                               z3.And(pre.len == (1 if hdr_given else 0), _t(row_eq(out_row(pre, 0), header)) if hdr_given else z3.BoolVal(True), res.out.len == 0))
            h.explore(body)
