"""C15 -- MemorySource.open, the in-memory sink/source every round trip in the suite goes through: which buffer a mode gets.
  'w…': any previous buffer is closed and a NEW, EMPTY buffer is created (a second to* on the same MemorySource must not leave
        the tail of the first output behind);  'a…': the existing buffer is kept (created empty if there is none);
  'r…': a new buffer over the supplied data, ArgumentError without data;  'b' picks BytesIO, otherwise StringIO;
  the buffer handed out is wrapped so that closing it does not close the buffer (getvalue() afterwards)."""
import z3
from pyvc.api import *
from pyvc import smt
from pyvc.values import _t
from pyvc.interp import Opaque, PyExc

SRC = 'petl.io.sources.'


@vc('C15.MemorySource.open', functions=[SRC + 'MemorySource.open', SRC + 'MemorySource.__init__'], props=['C15', 'C01'],
    assumptions=['the body of the @contextmanager generator is executed up to its yield (contextlib is trusted, T6)', 'BytesIO()/StringIO() create empty buffers (T7)'])
def memorysource_open(h):
    for mode in ('rb', 'r', 'wb', 'w', 'ab', 'a'):
        for have in (False, True):
            def body(ctx, mode=mode, have=have):
                it = h.interp(ctx)
                made = []

                def hook(interp, fn, args, kwargs, node):
                    name = fn.name
                    if name.endswith('BytesIO') or name.endswith('StringIO'):
                        o = Opaque('buffer', name.split('.')[-1], {'args': list(args)})
                        made.append(o)
                        it.trace.append(('new', o))
                        return o
                    if name.endswith('.close'):
                        it.trace.append(('close', fn.attrs.get('self')))
                        return None
                    if isinstance(fn.attrs.get('self'), Opaque) and fn.attrs['self'].kind == 'buffer':
                        it.trace.append((name.rsplit('.', 1)[-1], fn.attrs['self']))        # any other buffer method: an event
                        return None
                    raise Unsupported('external call %s' % name)
                it.opaque_hook = hook
                it.summaries[SRC + 'Uncloseable'] = lambda interp, args, kw, node: Opaque('uncloseable', 'wrapper', {'inner': args[0]})
                data = sym_cell('data')
                ctx.assume(smt.cls(data.t) != smt.NONE)
                cls = closure_of(it, SRC + 'MemorySource')
                src = it.call(cls, [data if mode.startswith('r') else None], {})
                old = Opaque('buffer', 'previous-buffer', {'closed': False})
                if have:
                    src.attrs['buffer'] = old
                ys = []
                it.on_yield = lambda v, node: ys.append(v)
                res = run_generator(it, cls.find('open')[0], [src, mode])
                if res.exc is not None:
                    ctx.oblige('MemorySource.open(%r): never raises when data / a mode is supplied' % mode, z3.BoolVal(False), res.exc.origin or '')
                    return
                kind = 'BytesIO' if 'b' in mode else 'StringIO'
                got = ys[0].attrs.get('inner') if len(ys) == 1 and isinstance(ys[0], Opaque) and ys[0].kind == 'uncloseable' else None
                if mode.startswith('w'):
                    ok = len(made) == 1 and got is made[0] and made[0].name == kind and not made[0].attrs['args'] and src.attrs['buffer'] is made[0] \
                        and ((('close', old) in it.trace) if have else True)
                    what = 'a NEW EMPTY %s replaces any previous buffer (which is closed); the sink starts empty' % kind
                elif mode.startswith('a'):
                    ok = (got is old and not made and ('close', old) not in it.trace) if have else (len(made) == 1 and got is made[0] and made[0].name == kind and not made[0].attrs['args'])
                    what = 'the existing buffer is kept for appending (a new empty %s only if there is none)' % kind
                else:
                    ok = len(made) == 1 and got is made[0] and made[0].name == kind and len(made[0].attrs['args']) == 1 and made[0].attrs['args'][0] is data
                    what = 'a new %s over exactly the supplied data' % kind
                ctx.oblige('MemorySource.open(%r): %s; handed out behind the non-closing wrapper, exactly once' % (mode, what), z3.BoolVal(bool(ok)))
            h.explore(body)


JS = 'petl.io.json.'


@vc('C15.tojson.wiring', functions=[JS + 'tojson', JS + 'tojsonarrays'], props=['C15'],
    assumptions=['dicts() / data() and _writejson through recording summaries (dicts pads short rows with None: C14 anchors, bounded check)'])
def tojson_wiring(h):
    """tojson writes exactly the records of dicts(table) -- every record has EVERY field, short rows padded -- and tojsonarrays the
    data rows (or all rows with output_header=True); source, prefix, suffix and the encoder arguments go to _writejson unchanged."""
    def body(ctx):
        it = h.interp(ctx)
        calls = []
        recs = sym_seq(ctx, 'records', 'list', 'Fresh')
        rows = sym_seq(ctx, 'datarows', 'list', 'Fresh')
        T = sym_table(ctx, 'T', nmin=0)
        it.summaries['petl.util.base.dicts'] = lambda interp, args, kw, node: (calls.append(('dicts', list(args), dict(kw))), recs)[1]
        it.summaries['petl.util.base.data'] = lambda interp, args, kw, node: (calls.append(('data', list(args), dict(kw))), rows)[1]
        it.summaries[JS + '_writejson'] = lambda interp, args, kw, node: calls.append(('write', list(args), dict(kw)))
        src, pre, suf, indent = Opaque('arg', 'source'), sym_cell('prefix'), sym_cell('suffix'), sym_cell('indent')
        it.call(closure_of(it, JS + 'tojson'), [T, src, pre, suf], {'indent': indent})
        w = [c for c in calls if c[0] == 'write']
        d = [c for c in calls if c[0] == 'dicts']
        ok = len(w) == 1 and len(d) == 1 and d[0][1] == [T] and not d[0][2] and w[0][1][0] is src and w[0][1][2] is pre and w[0][1][3] is suf \
            and set(w[0][2]) == {'indent'} and w[0][2]['indent'] is indent and isinstance(w[0][1][1], Seq)
        obj = w[0][1][1] if ok else None
        ctx.oblige('tojson: the object written is the list of the records of dicts(table), all of them, in order; source / prefix / suffix / encoder arguments unchanged',
                   z3.And(z3.BoolVal(bool(ok)), _t(row_eq(obj, recs))) if ok else z3.BoolVal(False))
        for oh in (False, True):
            del calls[:]
            it.call(closure_of(it, JS + 'tojsonarrays'), [T, src, pre, suf], {'output_header': oh})
            w = [c for c in calls if c[0] == 'write']
            ok = len(w) == 1 and w[0][1][0] is src and w[0][1][2] is pre and w[0][1][3] is suf and not w[0][2] and isinstance(w[0][1][1], Seq)
            obj = w[0][1][1] if ok else None
            if not ok:
                ctx.oblige('tojsonarrays: one _writejson call with the caller\'s arguments', z3.BoolVal(False))
            elif oh:
                q = smt.fresh_int('q')
                ctx.oblige('tojsonarrays(output_header=True): every row of the table, header included, in order',
                           z3.And(obj.len == T.n, z3.ForAll([q], z3.Implies(z3.And(0 <= q, q < T.n), z3.Select(obj.arr, q) == z3.Select(T.rows, q)))))
            else:
                ctx.oblige('tojsonarrays: exactly the data rows (data(table)), in order', _t(row_eq(obj, rows)))
    h.explore(body)
