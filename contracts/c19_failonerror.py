"""C19 -- the failonerror policy decides exactly what a failing conversion becomes."""
import z3
from pyvc.api import *
from pyvc.values import _t
from pyvc import smt, builtins as bi
from pyvc.smt import V
from pyvc.interp import Instance

CONV = 'petl.transform.conversions.'
POLICIES = [False, True, 'inline']


def spec_cell(ctx, i, v, policy, errorvalue, convs):
    """what transform_value(i, v) must be, from the property statement: ('value'|'excobj'|'raise', V term)"""
    for k, name in convs:
        if ctx.branch(_t(i) == k, 'spec: converter on this field'):
            r, raises, exc = bi.ucall_terms(name, [v.t])
            if ctx.branch(raises, 'spec: converter fails'):
                if policy == 'inline':
                    return 'excobj', exc
                if policy:
                    return 'raise', exc
                return 'value', as_v(errorvalue)
            return 'value', r
    return 'value', v.t


def outcome(it, thunk):
    try:
        r = thunk()
    except PyExc as e:
        if e.kind == 'UserError' and isinstance(e.payload, SCell):
            return 'raise', e.payload.t
        return 'raise-other:' + e.kind, None
    if isinstance(r, bi.CaughtExc):
        p = r.exc.payload
        return 'excobj', (p.t if isinstance(p, SCell) else None)
    return 'value', as_v(r)


def same(a, b):
    if a[0] != b[0]:
        return z3.BoolVal(False)
    if a[1] is None or b[1] is None:
        return z3.BoolVal(a[1] is b[1])
    return a[1] == b[1]


def prologue(h, ctx, policy, errorvalue, pass_row=False):
    it = h.interp(ctx)
    convs = [(0, 'conv0'), (2, 'conv2')]
    converters = bi.SDict()
    for k, name in convs:
        converters.setitem(it, k, UCall(name))
    S = fixed_table(ctx, 'S', 1)
    fn = closure_of(it, CONV + 'iterfieldconvert')
    res = run_generator(it, fn, [S, converters, policy, errorvalue, None, pass_row])
    assert res.exc is None, res.exc
    return it, res.env, convs


@vc('C19.transform_value', functions=[CONV + 'iterfieldconvert'], props=['C19'],
    assumptions=['converters are deterministic callbacks that may raise any Exception (not BaseException)'])
def transform_value(h):
    for policy in POLICIES:
        def body(ctx, policy=policy):
            errorvalue = sym_cell('errorvalue')
            it, env, convs = prologue(h, ctx, policy, errorvalue)
            tv = env.lookup('transform_value')
            i, v = sym_int('i'), sym_cell('v')
            ctx.assume(i >= 0)
            got = outcome(it, lambda: it.call(tv, [i, v], {}))
            want = spec_cell(ctx, i, v, policy, errorvalue, convs)
            ctx.oblige('transform_value(failonerror=%r): result is what the policy prescribes' % (policy,), same(got, want))
        h.explore(body)


@vc('C19.transform_row', functions=[CONV + 'iterfieldconvert'], props=['C19', 'C12'],
    assumptions=['converters are deterministic callbacks that may raise any Exception (not BaseException)'])
def transform_row(h):
    """one output cell per input cell, each the policy value of its own cell; under True the first failing cell raises"""
    for policy in POLICIES:
        def body(ctx, policy=policy):
            errorvalue = sym_cell('errorvalue')
            it, env, convs = prologue(h, ctx, policy, errorvalue)
            tr = env.lookup('transform_row')
            row = sym_cell('row')
            rs = view_seq(row)

            def cellspec(j):        # z3 term: expected output cell j when nothing is raised
                v = z3.Select(rs.arr, j)
                t = v
                for k, name in reversed(convs):
                    r, raises, exc = bi.ucall_terms(name, [v])
                    bad = exc if policy == 'inline' else as_v(errorvalue)
                    t = z3.If(j == k, z3.If(raises, bad, r), t)
                return t

            def fails(j):
                v = z3.Select(rs.arr, j)
                return z3.Or([z3.And(j == k, bi.ucall_terms(name, [v])[1]) for k, name in convs])
            try:
                out = it.call(tr, [row], {})
            except PyExc as e:
                j0 = getattr(e, 'fail_index', None)
                q = smt.fresh_int('q')
                ok = z3.BoolVal(False)
                if policy is True and e.kind == 'UserError' and j0 is not None:
                    exp_exc = z3.substitute(z3.If(j0 == 0, bi.ucall_terms('conv0', [z3.Select(rs.arr, j0)])[2],
                                                  bi.ucall_terms('conv2', [z3.Select(rs.arr, j0)])[2]))
                    ok = z3.And(0 <= j0, j0 < rs.len, fails(j0), z3.ForAll([q], z3.Implies(z3.And(0 <= q, q < j0), z3.Not(fails(q)))),
                                e.payload.t == exp_exc)
                ctx.oblige('transform_row(failonerror=%r): raises only under True, for the first failing cell, its own exception' % (policy,), ok)
                return
            out = view_seq(out)
            q = smt.fresh_int('q')
            ctx.oblige('transform_row(failonerror=%r): one output cell per input cell' % (policy,), out.len == rs.len)
            ctx.oblige('transform_row(failonerror=%r): every cell is the policy value of its own cell, others unchanged' % (policy,),
                       z3.ForAll([q], z3.Implies(z3.And(0 <= q, q < rs.len), z3.Select(out.arr, q) == cellspec(q))))
            if policy is True:
                ctx.oblige('transform_row(failonerror=True): returns normally only if no cell fails',
                           z3.ForAll([q], z3.Implies(z3.And(0 <= q, q < rs.len), z3.Not(fails(q)))))
        h.explore(body)


# ------------------------------------------------------------------------------------------------ rowmap / rowmapmany
MAPS = 'petl.transform.maps.'
iter_raises = z3.Function('iter_raises', V, z3.BoolSort())
iter_exc = z3.Function('iter_exc', V, V)


def rec_term(x):
    """the V term a callback sees for the Record x (its contents as a tuple)"""
    return as_v(x.attrs['_tuple'])


@vc('C19.iterrowmap', functions=[MAPS + 'iterrowmap', 'petl.util.base.Record.__init__'], props=['C19', 'C12'],
    assumptions=['rowmapper is a deterministic callback; it may raise, and its result may fail while being turned into a tuple',
                 'stateless-body rule: the per-row delta composes over all rows (engine meta-theorem)'])
def iterrowmap(h):
    for policy in POLICIES:
        def body(ctx, policy=policy):
            it0 = h.interp(ctx)
            state = {}

            def delta(st, x, dout):
                rec = rec_term(x)
                r, raises, exc = bi.ucall_terms('rowmapper', [rec])
                fail = z3.Or(raises, iter_raises(r))
                theexc = z3.If(raises, exc, iter_exc(r))
                good = z3.And(dout.len == 1, _t(row_eq(out_row(dout, 0), SCell(r))))
                if policy is False:
                    spec = z3.If(fail, dout.len == 0, good)
                elif policy == 'inline':
                    one = out_row(dout, 0)
                    spec = z3.If(fail, z3.And(dout.len == 1, one.len == 1, z3.Select(one.arr, 0) == theexc), good)
                else:
                    spec = z3.And(z3.Not(fail), good)
                ctx.oblige('iterrowmap(failonerror=%r): the row yields exactly what the policy prescribes' % (policy,), spec)
                state['done'] = True
            it = h.interp(ctx, loops={(MAPS + 'iterrowmap', 0): LoopSpec(delta=delta, label='rows')})
            S = sym_table(ctx, 'S', nmin=1)
            header = sym_cell('header')
            fn = closure_of(it, MAPS + 'iterrowmap')
            res = run_generator(it, fn, [S, UCall('rowmapper'), header, policy])
            if res.exc is not None:
                inloop = getattr(ctx, 'in_iteration', None)
                ok = z3.BoolVal(False)
                if policy is True and inloop is not None and res.exc.kind == 'UserError':
                    # raised while row k was being mapped, nothing emitted for that row (earlier rows: meta-theorem)
                    ok = res.out.len == 0
                ctx.oblige('iterrowmap(failonerror=%r): an exception escapes only under True, from the failing row, before it emits anything' % (policy,), ok)
                return
            if getattr(ctx, 'after_loop', None):
                ctx.oblige('iterrowmap: nothing is emitted after the last row', res.out.len == 0)
                pre = ctx.pre_loop_out
                ctx.oblige('iterrowmap: the given header is emitted first, once',
                           z3.And(pre.len == 1, _t(row_eq(out_row(pre, 0), header))))
        h.explore(body)


@vc('C19.iterfieldconvert', functions=[CONV + 'iterfieldconvert', 'petl.util.base.Record.__init__'], props=['C19', 'C12', 'C02', 'C03', 'C20'],
    assumptions=['converters and `where` are deterministic callbacks that may raise', 'stateless-body rule (engine meta-theorem)'])
def iterfieldconvert(h):
    """the two row loops (with and without `where`): one output row per input row; converted cells per the policy,
    every other cell and every row rejected by `where` unchanged"""
    for policy in (False, 'inline'):
        for use_where in (False, True):
            def body(ctx, policy=policy, use_where=use_where):
                errorvalue = sym_cell('errorvalue')
                convs = [(0, 'conv0'), (2, 'conv2')]

                def cellspec(rs, j):
                    v = z3.Select(rs.arr, j)
                    t = v
                    for k, name in reversed(convs):
                        r, raises, exc = bi.ucall_terms(name, [v])
                        bad = exc if policy == 'inline' else as_v(errorvalue)
                        t = z3.If(j == k, z3.If(raises, bad, r), t)
                    return t

                def delta(ls, x, dout):
                    rs = view_seq(x.attrs['_tuple'] if isinstance(x, Instance) else x)
                    xv = as_v(x.attrs['_tuple']) if isinstance(x, Instance) else as_v(x)
                    o = out_row(dout, 0)
                    q = smt.fresh_int('q')
                    conv = z3.And(o.len == rs.len, z3.ForAll([q], z3.Implies(z3.And(0 <= q, q < rs.len), z3.Select(o.arr, q) == cellspec(rs, q))))
                    if use_where:
                        w, wraises, _ = bi.ucall_terms('where', [xv])
                        body_ = z3.If(smt.truthy(w), conv, _t(row_eq(o, rs)))
                    else:
                        body_ = conv
                    ctx.oblige('iterfieldconvert(failonerror=%r, where=%s): one output row per row; converted per policy, untouched otherwise' % (policy, use_where),
                               z3.And(dout.len == 1, body_))
                loops = {(CONV + 'iterfieldconvert', 1): LoopSpec(delta=delta, label='rows'),
                         (CONV + 'iterfieldconvert', 2): LoopSpec(delta=delta, label='rows (where)')}
                it = h.interp(ctx, loops=loops)
                converters = bi.SDict()
                for k, name in convs:
                    converters.setitem(it, k, UCall(name))
                S = sym_table(ctx, 'S', nmin=1)
                fn = closure_of(it, CONV + 'iterfieldconvert')
                res = run_generator(it, fn, [S, converters, policy, errorvalue, UCall('where') if use_where else None, False])
                if res.exc is not None:
                    inloop = getattr(ctx, 'in_iteration', None)
                    ctx.oblige('iterfieldconvert(failonerror=%r): only an exception of `where` escapes, at its row' % (policy,),
                               z3.BoolVal(use_where and inloop is not None and res.exc.kind == 'UserError'))
                    return
                pre = ctx.pre_loop_out
                ctx.oblige('iterfieldconvert: the header is passed through unchanged, once; nothing after the last row',
                           z3.And(pre.len == 1, _t(row_eq(out_row(pre, 0), src_row(S, 0))), res.out.len == 0))
            h.explore(body)


@vc('C19.iterfieldmap', functions=[MAPS + 'iterfieldmap', 'petl.util.base.Record.__init__'], props=['C19', 'C12', 'C02', 'C03'],
    assumptions=['two output fields, each computed by an uninterpreted callback on the record (the callable form of a mapping)',
                 'stateless-body rule (engine meta-theorem)'])
def iterfieldmap(h):
    for policy in POLICIES:
        def body(ctx, policy=policy):
            errorvalue = sym_cell('errorvalue')
            fields = [('p', 'm1'), ('q', 'm2')]

            def delta(ls, x, dout):
                rec = rec_term(x)
                o = out_row(dout, 0)
                cells, nofail = [], []
                for k, (f, name) in enumerate(fields):
                    r, raises, exc = bi.ucall_terms(name, [rec])
                    bad = exc if policy == 'inline' else as_v(errorvalue)
                    cells.append(z3.Select(o.arr, k) == z3.If(raises, bad, r))
                    nofail.append(z3.Not(raises))
                spec = z3.And(dout.len == 1, o.len == len(fields), *cells)
                if policy is True:
                    spec = z3.And(spec, *nofail)
                ctx.oblige('iterfieldmap(failonerror=%r): one output row per row, every cell = its mapping\'s value or what the policy prescribes for a failure' % (policy,), spec)
            it = h.interp(ctx, loops={(MAPS + 'iterfieldmap', 1): LoopSpec(delta=delta, label='rows')})
            mappings = bi.SDict()
            for f, name in fields:
                mappings.setitem(it, f, UCall(name))
            S = sym_table(ctx, 'S', nmin=1)
            # a mapping function is not itself one of the header values (otherwise it would be read as a field name)
            hq = smt.fresh_int('hq')
            hdr0 = src_row(S, 0)
            for f, name in fields:
                c = UCall(name).as_v_term()
                ctx.facts.append(z3.ForAll([hq], z3.Not(smt.py_eq(c, z3.Select(hdr0.arr, hq)))))
                ctx.facts.append(z3.ForAll([hq], z3.Not(smt.py_eq(z3.Select(hdr0.arr, hq), c))))
            res = run_generator(it, closure_of(it, MAPS + 'iterfieldmap'), [S, mappings, policy, errorvalue])
            if res.exc is not None:
                inloop = getattr(ctx, 'in_iteration', None)
                ctx.oblige('iterfieldmap(failonerror=%r): an exception escapes only under True, at the failing row, before that row is emitted' % (policy,),
                           z3.And(z3.BoolVal(policy is True and inloop is not None and res.exc.kind == 'UserError'), res.out.len == 0))
                return
            if getattr(ctx, 'after_loop', None):
                pre = ctx.pre_loop_out
                ctx.oblige('iterfieldmap: header = the mapping\'s output fields, once; nothing after the last row', z3.And(pre.len == 1, out_row(pre, 0).len == len(fields), res.out.len == 0))
        h.explore(body)


@vc('C19.iterrowmapmany', functions=[MAPS + 'iterrowmapmany', 'petl.util.base.Record.__init__'], props=['C19', 'C03'],
    assumptions=['rowgenerator(row) is modelled as an iterable that delivers some rows and may then fail at any point (also before the first)',
                 'nested stateless-body rule: rows produced before a failure are each emitted (composition), then the policy applies'])
def iterrowmapmany(h):
    for policy in POLICIES:
        def body(ctx, policy=policy):
            gen_rows = z3.Function('gen_rows', V, smt.ARR)
            gen_count = z3.Function('gen_count', V, z3.IntSort())

            def rowgenerator(interp, args, kw, node):
                rec = as_v(args[0])
                ctx.assume(gen_count(rec) >= 0)
                src = SrcIter(gen_rows(rec), gen_count(rec), 'generated rows')
                src.may_fail = True
                return src

            def inner(ls, x, dout):
                ctx.oblige('iterrowmapmany(failonerror=%r): every row the generator produces is emitted once, as a tuple of itself' % (policy,),
                           z3.And(dout.len == 1, _t(row_eq(out_row(dout, 0), x))))

            def outer(ls, x, dout):
                fs = getattr(ctx, 'failed_segment', None)
                if fs is not None and fs[0] == 'generated rows':
                    seg = ctx.out            # what was emitted for this row AFTER its generator failed
                    if policy == 'inline':
                        one = out_row(seg, 0)
                        ctx.oblige('iterrowmapmany(inline): after the rows produced so far exactly one more row is emitted, holding the exception object',
                                   z3.And(seg.len == 1, one.len == 1))
                    else:
                        ctx.oblige('iterrowmapmany(failonerror=False): after the rows produced so far nothing more is emitted for the failing row', seg.len == 0)
            from pyvc.interp import Builtin
            it = h.interp(ctx, loops={(MAPS + 'iterrowmapmany', 0): LoopSpec(delta=outer, label='rows'),
                                      (MAPS + 'iterrowmapmany', 1): LoopSpec(delta=inner, label='generated rows')})
            it.check_pulls = False
            S = sym_table(ctx, 'S', nmin=1)
            res = run_generator(it, closure_of(it, MAPS + 'iterrowmapmany'), [S, Builtin('rowgenerator', rowgenerator), sym_seq(ctx, 'header', 'tuple'), policy])
            tr = it.trace
            failed = [e for e in tr if e[0] == 'except']
            if res.exc is not None:
                ctx.oblige('iterrowmapmany(failonerror=%r): an exception escapes only under True (the generator\'s own failure)' % (policy,),
                           z3.BoolVal(policy is True and res.exc.kind == 'SourceError'))
                return
            if failed:
                ctx.oblige('iterrowmapmany(failonerror=%r): a failing generator is not re-raised under this policy' % (policy,), z3.BoolVal(policy is not True))
        h.explore(body)


CV = 'petl.transform.conversions.'
from pyvc.interp import PyExc
@vc('C19.methodcaller', functions=[CV + 'methodcaller'], props=['C19', 'C12'],
    assumptions=['a method of a cell value is an uninterpreted partial function of (value, arguments): calling it on a value that does not '
                 'have it raises AttributeError (T6)'])
def methodcaller_contract(h):
    for nargs in (0, 2):
        def body(ctx, nargs=nargs):
            it = h.interp(ctx)
            v = sym_cell('v')
            args = [sym_cell('a%d' % i) for i in range(nargs)]
            conv = it.call(closure_of(it, CV + 'methodcaller'), ['meth'] + args, {})
            f = z3.Function('meth_meth_%d' % nargs, *([V] * (nargs + 2)))
            ok = z3.Function('meth_meth_%d_ok' % nargs, *([V] * (nargs + 1) + [z3.BoolSort()]))
            vs = [v.t] + [a.t for a in args]
            try:
                r = it.call(conv, [v], {})
            except PyExc as e:
                ctx.oblige('methodcaller(name, *args)(v): raises exactly when v has no such method (AttributeError) -- for EVERY v, None included',
                           z3.And(z3.BoolVal(e.kind == 'AttributeError'), z3.Not(ok(*vs))))
                return
            ctx.oblige('methodcaller(name, *args)(v): the result of v.name(*args) whenever v has the method; never a silent pass-through',
                       z3.And(ok(*vs), as_v(r) == f(*vs)))
        h.explore(body)


@vc('C19.dictconverter', functions=[CV + 'dictconverter'], props=['C19', 'C12'],
    assumptions=['dict membership / lookup modulo == (T6); a one-entry dictionary with symbolic key and value'])
def dictconverter_contract(h):
    def body(ctx):
        it = h.interp(ctx)
        v, k, w = sym_cell('v'), sym_cell('k'), sym_cell('w')
        d = bi.SDict(it)
        d.setitem(it, k, w)
        conv = it.call(closure_of(it, CV + 'dictconverter'), [d], {})
        try:
            r = it.call(conv, [v], {})
        except PyExc as e:
            ctx.oblige('dictconverter: never raises', z3.BoolVal(False), e.origin or '')
            return
        ctx.oblige('dictconverter(d)(v): d[v] when v is a key of d, v itself otherwise',
                   as_v(r) == z3.If(smt.py_eq(v.t, k.t), w.t, v.t))
    h.explore(body)
