"""C07 -- hash joins: the probe loops of iterhashjoin / iterhashleftjoin / iterhashlookupjoin / iterhashantijoin, for ALL
left tables and ALL lookup dictionaries.  The lookup built from the other side is seen through its contract
("maps each key to the list of its rows, in table order": petl.util.lookups.lookup, bounded-checked, not discharged
here): a symbolic map with membership has(k) and rows(k).  Nested stateless rule: for a streamed row l with key k the
rows emitted are  concat over r in rows(k) of [l ++ nonkey(r)]  (in lookup order), and for a key that is absent: nothing
(hashjoin) / l padded with `missing` (hashleftjoin) / l itself (hashantijoin, keys of the right side collected in a set).
With the composition theorem the output is in the streamed side's order and its multiset is the relational join's."""
import z3
from pyvc.api import *
from pyvc.values import _t
from pyvc import smt, builtins as bi
from pyvc.smt import V
from pyvc.interp import Opaque, PathEnd

HJ = 'petl.transform.hashjoins.'
has = z3.Function('lk_has', V, z3.BoolSort())
rows_of = z3.Function('lk_rows', V, V)


class SymLookup(object):
    """a dict {key: [rows]} through its contract"""
    origin = 'Shared'

    def py_contains(self, interp, k, node):
        return SBool(has(as_v(k)))

    def py_getitem(self, interp, k, node):
        kv = as_v(k)
        if interp.ctx.branch(has(kv), 'lookup hit'):
            return SCell(rows_of(kv))
        interp.raise_('KeyError', k, node)


def joined_ok(o, lrow, rrow, rvind):
    """o == lrow ++ [rrow[i] for i in rvind]"""
    q = smt.fresh_int('q')
    iv = lambda j: smt.ival(z3.Select(rvind.arr, j))
    return z3.And(o.len == lrow.len + rvind.len,
                  z3.ForAll([q], z3.Implies(z3.And(0 <= q, q < o.len),
                                            z3.Select(o.arr, q) == z3.If(q < lrow.len, z3.Select(lrow.arr, q), z3.Select(rrow.arr, iv(q - lrow.len))))))


def padded_ok(o, lrow, rvind, missing):
    q = smt.fresh_int('q')
    return z3.And(o.len == lrow.len + rvind.len,
                  z3.ForAll([q], z3.Implies(z3.And(0 <= q, q < o.len),
                                            z3.Select(o.arr, q) == z3.If(q < lrow.len, z3.Select(lrow.arr, q), as_v(missing)))))


def key_of(ls, lrow):
    """the key the real code computes for the streamed row (single key field: the cell; compound: not covered here)"""
    lk = ls['lkind']
    return z3.Select(lrow.arr, smt.ival(as_v(lk.items[0])) if hasattr(lk, 'items') else smt.ival(z3.Select(lk.arr, 0)))


def make(name, fn_name, args_of, outer_ord, inner_ord, kind):
    @vc('C07.' + name, functions=[HJ + fn_name], props=['C07', 'C03', 'C02'],
        assumptions=['contract of petl.util.lookups.lookup (key -> rows in table order): assumed here, bounded-checked in bcheck/c07.py',
                     'single key field given by name on both sides; both sides rectangular (the views stack() them first)',
                     'nested stateless-body rule (engine meta-theorem)'])
    def task(h):
        def body(ctx):
            def rv(ls):
                r = ls['rvind']
                return view_seq(r) if not isinstance(r, Seq) else r

            def inner(ls, x, dout):
                lrow = view_seq(ls['_lrow'])
                ctx.oblige('%s: each partner row yields exactly one row: the streamed row followed by the partner\'s non-key cells' % name,
                           z3.And(dout.len == 1, joined_ok(out_row(dout, 0), lrow, view_seq(x), rv(ls))))

            def outer(ls, x, dout):
                lrow = view_seq(x)
                k = key_of(ls, lrow)
                if kind == 'join':
                    ctx.oblige('%s: a streamed row whose key is not in the lookup yields nothing' % name, z3.Implies(z3.Not(has(k)), dout.len == 0))
                elif kind == 'left':
                    ctx.oblige('%s: a streamed row whose key is not in the lookup yields itself padded with `missing`' % name,
                               z3.Implies(z3.Not(has(k)), z3.And(dout.len == 1, padded_ok(out_row(dout, 0), lrow, rv(ls), ls['missing']))))
            loops = {(HJ + fn_name, outer_ord): LoopSpec(delta=outer, label='streamed rows'),
                     (HJ + fn_name, inner_ord): LoopSpec(delta=inner, label='partner rows')}
            it = h.interp(ctx, loops=loops)
            it.overapprox_filters = True
            L, R = sym_table(ctx, 'L', nmin=1), sym_table(ctx, 'R', nmin=1)
            rows_are_sequences(ctx, L)
            rectangular(ctx, L)
            j = smt.fresh_int('r')
            anyk = z3.Const('anyk', V)
            rhdr_len = smt.seq_len(z3.Select(R.rows, 0))
            # rows held by the lookup are rows of the (stacked, hence rectangular) right table
            ctx.facts.append(z3.ForAll([anyk, j], smt.seq_len(z3.Select(smt.seq_arr(rows_of(anyk)), j)) == rhdr_len))
            ctx.facts.append(z3.ForAll([anyk], smt.seq_len(rows_of(anyk)) >= 0))
            fn = closure_of(it, HJ + fn_name)
            res = run_generator(it, fn, args_of(L, R, SymLookup()))
            if res.exc is not None:
                inloop = getattr(ctx, 'in_iteration', None)
                ctx.oblige('%s: only FieldSelectionError escapes (unknown key field), before any data row' % name,
                           z3.BoolVal(res.exc.kind == 'FieldSelectionError' and inloop is None), res.exc.origin or '')
        h.explore(body)
    return task


make('iterhashjoin', 'iterhashjoin', lambda L, R, lk: [L, R, 'k', 'k', lk, None, None], 1, 0, 'join')
make('iterhashleftjoin', 'iterhashleftjoin', lambda L, R, lk: [L, R, 'k', 'k', sym_cell('missing'), lk, None, None], 1, 0, 'left')


one_of = z3.Function('lk_one', V, V)


class SymLookupOne(SymLookup):
    """a dict {key: row} through the contract of lookupone (key -> its FIRST row in table order)"""

    def py_getitem(self, interp, k, node):
        kv = as_v(k)
        if interp.ctx.branch(has(kv), 'lookup hit'):
            return SCell(one_of(kv))
        interp.raise_('KeyError', k, node)


@vc('C07.iterhashlookupjoin', functions=[HJ + 'iterhashlookupjoin'], props=['C07', 'C03'],
    assumptions=['contract of petl.util.lookups.lookupone (key -> first row in table order) and of iterpeek: assumed here, bounded-checked',
                 'single key field given by name; both sides rectangular', 'stateless-body rule (engine meta-theorem)'])
def iterhashlookupjoin(h):
    def body(ctx):
        def rv(ls):
            r = ls['rvind']
            return view_seq(r) if not isinstance(r, Seq) else r

        def outer(ls, x, dout):
            lrow = view_seq(x)
            k = key_of(ls, lrow)
            o = out_row(dout, 0)
            ctx.oblige('iterhashlookupjoin: every streamed row yields exactly one row: joined with its first partner, or padded with `missing`',
                       z3.And(dout.len == 1, z3.If(has(k), joined_ok(o, lrow, view_seq(SCell(one_of(k))), rv(ls)), padded_ok(o, lrow, rv(ls), ls['missing']))))
        it = h.interp(ctx, loops={(HJ + 'iterhashlookupjoin', 0): LoopSpec(delta=outer, label='streamed rows')})
        it.overapprox_filters = True
        L, R = sym_table(ctx, 'L', nmin=1), sym_table(ctx, 'R', nmin=1)
        rows_are_sequences(ctx, L)
        rectangular(ctx, L)
        anyk = z3.Const('anyk', V)
        ctx.facts.append(z3.ForAll([anyk], smt.seq_len(one_of(anyk)) == smt.seq_len(z3.Select(R.rows, 0))))
        it.summaries['petl.util.base.iterpeek'] = lambda interp, args, kw, node: (SCell(z3.Select(R.rows, 0)), Opaque('peeked', 'rit'))
        it.summaries['petl.util.lookups.lookupone'] = lambda interp, args, kw, node: SymLookupOne()
        it.check_pulls = False
        fn = closure_of(it, HJ + 'iterhashlookupjoin')
        res = run_generator(it, fn, [L, R, 'k', 'k', sym_cell('missing'), None, None])
        if res.exc is not None:
            inloop = getattr(ctx, 'in_iteration', None)
            ctx.oblige('iterhashlookupjoin: only FieldSelectionError escapes, before any data row',
                       z3.BoolVal(res.exc.kind == 'FieldSelectionError' and inloop is None), res.exc.origin or '')
    h.explore(body)


def right_padded_ok(o, lhdr_len, li, ri, rrow, rvind, missing):
    """o == [missing] * len(lhdr) with o[li] = rrow[ri], followed by the right row's non-key cells"""
    q = smt.fresh_int('q')
    iv = lambda j: smt.ival(z3.Select(rvind.arr, j))
    return z3.And(o.len == lhdr_len + rvind.len,
                  z3.ForAll([q], z3.Implies(z3.And(0 <= q, q < o.len),
                                            z3.Select(o.arr, q) == z3.If(q == li, z3.Select(rrow.arr, ri),
                                                                         z3.If(q < lhdr_len, as_v(missing), z3.Select(rrow.arr, iv(q - lhdr_len)))))))


@vc('C07.iterhashrightjoin', functions=[HJ + 'iterhashrightjoin'], props=['C07', 'C03', 'C02'],
    assumptions=['contract of petl.util.lookups.lookup (key -> rows in table order): discharged by C07.lookup',
                 'single key field given by name on both sides; both sides rectangular (the views stack() them first)',
                 'nested stateless-body rule (engine meta-theorem)'])
def iterhashrightjoin(h):
    name = 'iterhashrightjoin'

    def body(ctx):
        def rv(ls):
            r = ls['rvind']
            return view_seq(r) if not isinstance(r, Seq) else r

        def idx(x):
            return smt.ival(as_v(x.items[0])) if hasattr(x, 'items') else smt.ival(z3.Select(x.arr, 0))

        def inner(ls, x, dout):
            rrow = view_seq(ls['_rrow'])
            ctx.oblige('%s: each partner (left) row yields exactly one row: that left row followed by the streamed right row\'s non-key cells' % name,
                       z3.And(dout.len == 1, joined_ok(out_row(dout, 0), view_seq(x), rrow, rv(ls))))

        def outer(ls, x, dout):
            rrow = view_seq(x)
            ri, li = idx(ls['rkind']), idx(ls['lkind'])
            k = z3.Select(rrow.arr, ri)
            lhl = view_seq(ls['lhdr']).len
            ctx.oblige('%s: a streamed right row whose key is not in the lookup yields one row: `missing` in every left position '
                       'except the key, which is copied from the right row, then its non-key cells' % name,
                       z3.Implies(z3.Not(has(k)), z3.And(dout.len == 1, right_padded_ok(out_row(dout, 0), lhl, li, ri, rrow, rv(ls), ls['missing']))))
        loops = {(HJ + name, 1): LoopSpec(delta=outer, label='streamed rows'),
                 (HJ + name, 0): LoopSpec(delta=inner, label='partner rows')}
        it = h.interp(ctx, loops=loops)
        it.overapprox_filters = True
        L, R = sym_table(ctx, 'L', nmin=1), sym_table(ctx, 'R', nmin=1)
        rows_are_sequences(ctx, R)
        rectangular(ctx, R)
        j = smt.fresh_int('r')
        anyk = z3.Const('anyk', V)
        lhdr_len = smt.seq_len(z3.Select(L.rows, 0))
        ctx.facts.append(z3.ForAll([anyk, j], smt.seq_len(z3.Select(smt.seq_arr(rows_of(anyk)), j)) == lhdr_len))
        ctx.facts.append(z3.ForAll([anyk], smt.seq_len(rows_of(anyk)) >= 0))
        fn = closure_of(it, HJ + name)
        res = run_generator(it, fn, [L, R, 'k', 'k', sym_cell('missing'), SymLookup(), None, None])
        if res.exc is not None:
            inloop = getattr(ctx, 'in_iteration', None)
            ctx.oblige('%s: only FieldSelectionError escapes (unknown key field), before any data row' % name,
                       z3.BoolVal(res.exc.kind == 'FieldSelectionError' and inloop is None), res.exc.origin or '')
    h.explore(body)


@vc('C07.iterhashantijoin', functions=[HJ + 'iterhashantijoin'], props=['C07', 'C03'],
    assumptions=['single key field given by name on both sides; rows long enough for the key; set through its contract (T6: membership modulo ==)',
                 'counting lemmas (C07.cnt.lemmas); invariant rule on the key-collecting loop, stateless-body rule on the probe loop'])
def iterhashantijoin(h):
    from contracts.lib_count import counting
    name = 'iterhashantijoin'

    def body(ctx):
        box = {}

        def idx(x):
            return smt.ival(as_v(x.items[0]))

        def CR(ls):
            if 'C' not in box:
                ri = idx(ls['rgetk'])
                box['ri'] = ri
                box['C'] = counting(ctx, 'CR', lambda i: bi.canon(z3.Select(src_row(R, i).arr, ri)), witness=True)
            return box['C']

        def inv(ls):
            C = CR(ls)
            kap = z3.Const('kap!a', V)
            return z3.ForAll([kap], z3.Select(ls['rkeys'].has, kap) == (C(kap, ls.k.t) > 0))

        def probe(ls, x, dout):
            lrow = view_seq(x)
            li = idx(ls['lgetk'])
            k = z3.Select(lrow.arr, li)
            jj = smt.fresh_int('j')
            partner = z3.Exists([jj], z3.And(1 <= jj, jj < R.n, smt.py_eq(z3.Select(src_row(R, jj).arr, box['ri']), k)))
            ctx.oblige('%s: a left row is emitted, once and unchanged, iff NO right row has its key' % name,
                       z3.If(partner, dout.len == 0, z3.And(dout.len == 1, _t(row_eq(out_row(dout, 0), x)))))
        it = h.interp(ctx, loops={(HJ + name, 0): LoopSpec(invariant=inv, label='right keys'),
                                  (HJ + name, 1): LoopSpec(delta=probe, label='left rows')})
        it.symbolic_dicts = True
        it.check_pulls = False
        L, R = sym_table(ctx, 'L', nmin=1), sym_table(ctx, 'R', nmin=1)
        rows_are_sequences(ctx, L); rows_are_sequences(ctx, R)
        rectangular(ctx, L); rectangular(ctx, R)
        res = run_generator(it, closure_of(it, HJ + name), [L, R, 'k', 'k'])
        if res.exc is not None:
            inloop = getattr(ctx, 'in_iteration', None)
            ctx.oblige('%s: only FieldSelectionError escapes (unknown key field), before any data row' % name,
                       z3.BoolVal(res.exc.kind == 'FieldSelectionError' and inloop is None), res.exc.origin or '')
    h.explore(body)


def view_dispatch(clsname, gen, side, lookup_attr, keyattr, argnames):
    """Hash*JoinView.__iter__: which lookup the generator is handed, and when it is (re)built (C07 cache clause, C01)."""
    @vc('C07.%s.dispatch' % clsname, functions=[HJ + clsname + '.__iter__', HJ + clsname + '.__init__'], props=['C07', 'C01'],
        assumptions=['generator functions are lazy (arguments are bound at the call, nothing runs); lookup() through its contract (C07.lookup)'])
    def task(h):
        for have in (False, True):
            def body(ctx, have=have):
                it = h.interp(ctx)
                calls = []

                def lookup_summary(interp, args, kw, node):
                    lk = Opaque('lookup', 'fresh-lookup-%d' % len(calls))
                    calls.append((args, kw, lk))
                    return lk
                it.summaries['petl.util.lookups.lookup'] = lookup_summary
                L, R = sym_table(ctx, 'L', nmin=1), sym_table(ctx, 'R', nmin=1)
                cache = sym_bool('cache')
                cls = closure_of(it, HJ + clsname)
                view = it.call(cls, [L, R, 'lk', 'rk'], {'cache': cache})
                ctx.oblige('%s(): constructing the view builds no lookup and reads nothing' % clsname,
                           z3.BoolVal(not calls and view.attrs[lookup_attr] is None))
                cached = Opaque('lookup', 'cached-lookup')
                if have:
                    view.attrs[lookup_attr] = cached
                g = it.call(cls.find('__iter__')[0], [view], {})
                c = ctx.branch(cache.t, 'cache on')
                a = g.env.vars if isinstance(g, bi.GenObj) else {}
                okgen = isinstance(g, bi.GenObj) and g.fn.qualname == HJ + gen
                tbl = view.attrs[side]
                if c and have:
                    ok = okgen and not calls and a.get(argnames['lookup']) is cached
                    what = 'cache on and a lookup is cached: it is reused, not rebuilt'
                else:
                    ok = okgen and len(calls) == 1 and list(calls[0][0]) == [tbl, view.attrs[keyattr]] and not calls[0][1] \
                        and a.get(argnames['lookup']) is calls[0][2] and view.attrs[lookup_attr] is calls[0][2]
                    what = 'no cached lookup, or cache off: ONE lookup is built from the %s table on its own key; the generator gets exactly that one' % side
                ctx.oblige('%s.__iter__: %s' % (clsname, what), z3.BoolVal(bool(ok)))
                ok2 = okgen and a.get('left') is view.attrs['left'] and a.get('right') is view.attrs['right'] and a.get('lkey') == 'lk' and a.get('rkey') == 'rk' \
                    and a.get('lprefix') is None and a.get('rprefix') is None
                ctx.oblige('%s.__iter__: the generator gets the squared-up tables, both keys and the prefixes of the view' % clsname, z3.BoolVal(bool(ok2)))
            h.explore(body)
    return task


view_dispatch('HashJoinView', 'iterhashjoin', 'right', 'rlookup', 'rkey', {'lookup': 'rlookup'})
view_dispatch('HashLeftJoinView', 'iterhashleftjoin', 'right', 'rlookup', 'rkey', {'lookup': 'rlookup'})
view_dispatch('HashRightJoinView', 'iterhashrightjoin', 'left', 'llookup', 'lkey', {'lookup': 'llookup'})


CONFIGS = ((False, False), (True, False), (False, True))


def header_task(fn_name, args_of, streamed):
    """the output header of a hash join: the streamed/left fields then the other side's non-key fields; a side WITHOUT a prefix
    keeps its field objects as they are (not stringified), a side with a prefix gets str(prefix) + str(field)"""
    @vc('C07.%s.header' % fn_name, functions=[HJ + fn_name], props=['C07', 'C06'],
        assumptions=['single key field given by name on both sides', 'the body of the probe loops is not judged here (C07.%s)' % fn_name])
    def task(h):
        for lp, rp in CONFIGS:
            def body(ctx, lp=lp, rp=rp):
                it = h.interp(ctx)
                it.overapprox_filters = False
                it.check_pulls = False
                L, R = sym_table(ctx, 'L', nmin=1), sym_table(ctx, 'R', nmin=1)
                rows_are_sequences(ctx, L); rows_are_sequences(ctx, R)
                lprefix = sym_cell('lprefix') if lp else None
                rprefix = sym_cell('rprefix') if rp else None

                def first_yield(v, node):
                    # the first thing a hash join yields is its header: judge it, then stop (the loops are judged by C07.<fn>)
                    o = view_seq(v) if not isinstance(v, Seq) else v
                    lh = src_row(L, 0)
                    q = smt.fresh_int('q')
                    ctx.oblige('%s: the header starts with the left fields' % fn_name, o.len >= lh.len)
                    if not lp:
                        ctx.oblige('%s: without lprefix the left field names are carried over AS THEY ARE (objects, not their text)' % fn_name,
                                   z3.ForAll([q], z3.Implies(z3.And(0 <= q, q < lh.len), z3.Select(o.arr, q) == z3.Select(lh.arr, q))))
                    if not rp:
                        w = smt.fresh_int('w')
                        rh = src_row(R, 0)
                        ctx.oblige('%s: without rprefix every right field name in the header is one of the right table\'s field objects, as it is' % fn_name,
                                   z3.ForAll([q], z3.Implies(z3.And(lh.len <= q, q < o.len), z3.Exists([w], z3.And(0 <= w, w < rh.len, z3.Select(o.arr, q) == z3.Select(rh.arr, w))))))
                    raise PathEnd()
                it.on_yield = first_yield
                run_generator(it, closure_of(it, HJ + fn_name), args_of(L, R, SymLookup(), lprefix, rprefix))
            h.explore(body)
    return task


header_task('iterhashjoin', lambda L, R, lk, lp, rp: [L, R, 'k', 'k', lk, lp, rp], 'left')
header_task('iterhashleftjoin', lambda L, R, lk, lp, rp: [L, R, 'k', 'k', sym_cell('missing'), lk, lp, rp], 'left')
header_task('iterhashrightjoin', lambda L, R, lk, lp, rp: [L, R, 'k', 'k', sym_cell('missing'), lk, lp, rp], 'right')
