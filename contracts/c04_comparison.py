"""C04 -- petl.comparison: the ordering is one total preorder  None < numbers < rest  (DESIGN 5/C04).

Contracts
  Comparable.__lt__/__eq__/__le__/__gt__/__ge__  against the spec relations LT / EQ (closed forms extracted from the
  real AST by path enumeration), then the order laws as lemmas over those closed forms.
  Sequences: Comparable.__init__ wraps list/tuple elements recursively (checked at fixed widths from the real
  __init__); the native comparison of two wrapped tuples is lexicographic (T3) and the lexicographic lifting of a
  strict weak order is a strict weak order (lemma Lex below, proved for sequences of all lengths); structural
  induction on nesting depth is the one schema not checked by the solver.
"""
import z3
from pyvc.api import *
from pyvc.values import _t
from pyvc import smt
from pyvc.smt import V, cls, py_eq, nlt, NONE, NUM, BYTES, TEXT, DATE, DATETIME, TIME, TUPLE, LIST, OTHER

QN = 'petl.comparison.Comparable'
from pyvc.smt import wrapv, WRAP_AXIOMS
from contracts import lib_order
DOMAIN = lambda v: cls(v) != OTHER           # the supported value domain of the property


def comparable_summary(interp, args, kwargs, node):
    """Comparable(obj) for an opaque cell: atoms run the real __init__; list/tuple cells get the wrap model"""
    from pyvc.interp import Instance, BoundMethod
    cls_obj = closure_of(interp, QN)
    obj = args[0]
    if not isinstance(obj, SCell):
        inst = Instance(cls_obj)
        interp.call(BoundMethod(cls_obj.find('__init__')[0], inst), args, kwargs)
        return inst
    if getattr(obj, 'wrapped', False):
        raise Unsupported('Comparable of an already wrapped value')
    isseq = z3.Or(cls(obj.t) == TUPLE, cls(obj.t) == LIST)
    inst = Instance(cls_obj)
    if interp.ctx.branch(isseq, 'Comparable(list/tuple)'):
        inst.attrs['inner'] = obj
        w = SCell(wrapv(obj.t), wrapped=True)
        inst.attrs['obj'] = w
        interp.ctx.facts.append(cls(w.t) == TUPLE)
        return inst
    interp.call(BoundMethod(cls_obj.find('__init__')[0], inst), args, kwargs)
    return inst


def closed_form(h, method, rhs_wrapped=True, rhs_cls=None):
    """closed form of Comparable(a).<method>(Comparable(b) | b) : (value term, raises term, a, b, side facts)"""
    a, b = z3.Consts('cf!a cf!b', V)
    paths = []

    def body(ctx):
        ctx.facts.extend(WRAP_AXIOMS)
        it = h.interp(ctx, summaries={QN: comparable_summary})
        C = closure_of(it, QN)
        n0 = len(ctx.facts)
        ca = it.call(C, [SCell(a)], {})
        cb = it.call(C, [SCell(b)], {}) if rhs_wrapped else SCell(b)
        try:
            r = it.call(it.getattr(ca, method), [cb], {})
            if not isinstance(r, (bool, SBool)):
                r = SBool(it.truth_term(r))
            paths.append((list(ctx.facts[n0:]), _t(r), None))
        except PyExc as e:
            paths.append((list(ctx.facts[n0:]), None, e.kind))

    h.explore(body)
    val, raises, side = z3.BoolVal(False), [], []
    for conds, r, exc in reversed(paths):
        g = z3.And(conds) if conds else z3.BoolVal(True)
        if exc is not None:
            raises.append(g)
        else:
            val = z3.If(g, r, val)
    return val, (z3.Or(raises) if raises else z3.BoolVal(False)), a, b, len(paths)


@vc('C04.ladder', functions=[QN + '.__lt__', QN + '.__eq__', QN + '.__le__', QN + '.__gt__', QN + '.__ge__',
                             QN + '.__init__', 'petl.comparison._typestr'], props=['C04'],
    assumptions=['T3 comparison dispatch', 'T4 value axioms',
                 'nested list/tuple values: wrap model + lemma Lex + structural induction on nesting depth (schema not machine-checked)'])
def ladder(h):
    forms = {}
    for m in ('__lt__', '__eq__', '__le__', '__gt__', '__ge__'):
        forms[m] = closed_form(h, m)
    lt_raw = closed_form(h, '__lt__', rhs_wrapped=False)
    eq_raw = closed_form(h, '__eq__', rhs_wrapped=False)
    gt_raw = closed_form(h, '__gt__', rhs_wrapped=False)
    le_raw = closed_form(h, '__le__', rhs_wrapped=False)
    ge_raw = closed_form(h, '__ge__', rhs_wrapped=False)

    def inst(form, p, q):
        val, raises, a, b, _ = form
        return z3.substitute(val, (a, p), (b, q)), z3.substitute(raises, (a, p), (b, q))

    LT = lambda p, q: inst(forms['__lt__'], p, q)[0]
    EQ = lambda p, q: inst(forms['__eq__'], p, q)[0]
    p, q, r = z3.Consts('p q r', V)
    dom = [DOMAIN(p), DOMAIN(q), DOMAIN(r)] + WRAP_AXIOMS
    isseq = lambda v: z3.Or(cls(v) == TUPLE, cls(v) == LIST)
    goals = [
        ('no exception escapes __lt__', z3.Not(inst(forms['__lt__'], p, q)[1])),
        ('no exception escapes __eq__', z3.Not(inst(forms['__eq__'], p, q)[1])),
    ] + [(n, f) for n, f in lib_order.laws(LT, EQ, p, q, r)] + [
        ('unrelated classes ordered by class alone',
         z3.Implies(z3.And(cls(p) != cls(q), cls(r) == cls(q), smt.ORDERED(p), smt.ORDERED(q), z3.Not(isseq(p)), z3.Not(isseq(q))),
                    LT(p, q) == LT(p, r))),
        ('__le__ = lt or eq', inst(forms['__le__'], p, q)[0] == z3.Or(LT(p, q), EQ(p, q))),
        ('__gt__ = neither lt nor eq', inst(forms['__gt__'], p, q)[0] == z3.Not(z3.Or(LT(p, q), EQ(p, q)))),
        ('__ge__ = not lt', inst(forms['__ge__'], p, q)[0] == z3.Not(LT(p, q))),
        ('__gt__ is the converse of __lt__', inst(forms['__gt__'], p, q)[0] == LT(q, p)),
        # raw right operand (what the selectors and T3 reflection hand over): same relation as a wrapped operand
        ('raw right operand: __lt__ agrees', inst(lt_raw, p, q)[0] == LT(p, q)),
        ('raw right operand: __eq__ agrees', inst(eq_raw, p, q)[0] == EQ(p, q)),
        ('raw right operand: __gt__ agrees', inst(gt_raw, p, q)[0] == LT(q, p)),
        ('raw right operand: __le__ agrees', inst(le_raw, p, q)[0] == z3.Or(LT(p, q), EQ(p, q))),
        ('raw right operand: __ge__ agrees', inst(ge_raw, p, q)[0] == z3.Not(LT(p, q))),
        ('raw right operand: no exception', z3.Not(z3.Or(inst(lt_raw, p, q)[1], inst(eq_raw, p, q)[1], inst(gt_raw, p, q)[1]))),
    ]
    for name, g in goals:
        h.lemma(name, dom, g, kind='law')
    # canaries: the hypotheses are consistent and the relation is not trivial
    h.canary('LT is not empty', dom + [cls(p) == NONE, cls(q) == NUM], z3.Not(LT(p, q)))
    h.canary('LT is not universal', dom + [cls(p) == TEXT, cls(q) == NUM], LT(p, q))
    h.canary('EQ is not universal', dom + [cls(p) == TEXT, cls(q) == NUM], EQ(p, q))


@vc('C04.lex', functions=[], props=['C04'], kind='lemma',
    assumptions=['T3: tuple comparison is lexicographic: == finds the first differing position, < decides on it'])
def lex(h):
    """lexicographic lifting of a strict weak order (lt, eq) on elements to sequences of any length"""
    E = z3.DeclareSort('E')
    lt = z3.Function('e_lt', E, E, z3.BoolSort())
    eq = z3.Function('e_eq', E, E, z3.BoolSort())
    x, y, z = z3.Consts('ex ey ez', E)
    ih = [z3.ForAll([x], z3.Not(lt(x, x))), z3.ForAll([x], eq(x, x)), z3.ForAll([x, y], eq(x, y) == eq(y, x)),
          z3.ForAll([x, y, z], z3.Implies(z3.And(eq(x, y), eq(y, z)), eq(x, z))),
          z3.ForAll([x, y], z3.Implies(lt(x, y), z3.And(z3.Not(lt(y, x)), z3.Not(eq(x, y))))),
          z3.ForAll([x, y, z], z3.Implies(z3.And(lt(x, y), lt(y, z)), lt(x, z))),
          z3.ForAll([x, y, z], z3.Implies(z3.And(lt(x, y), eq(y, z)), lt(x, z))),
          z3.ForAll([x, y, z], z3.Implies(z3.And(eq(x, y), lt(y, z)), lt(x, z))),
          z3.ForAll([x, y], z3.Or(lt(x, y), eq(x, y), lt(y, x)))]
    A = z3.ArraySort(z3.IntSort(), E)
    j, k = z3.Ints('lj lk')

    def common(a, la, b, lb, d):       # d = first differing position or min length
        return z3.And(0 <= d, d <= la, d <= lb, z3.ForAll([j], z3.Implies(z3.And(0 <= j, j < d), eq(a[j], b[j]))),
                      z3.Or(d == la, d == lb, z3.Not(eq(a[d], b[d]))))

    def LT(a, la, b, lb, d):
        return z3.If(z3.And(d < la, d < lb), lt(a[d], b[d]), la < lb)

    def EQ(a, la, b, lb, d):
        return z3.And(d == la, d == lb)
    a, b, c = z3.Consts('sa sb sc', A)
    la, lb, lc, dab, dbc, dac, dba = z3.Ints('la lb lc dab dbc dac dba')
    lens = [la >= 0, lb >= 0, lc >= 0]
    H = ih + lens + [common(a, la, b, lb, dab), common(b, lb, c, lc, dbc), common(a, la, c, lc, dac), common(b, lb, a, la, dba)]
    for name, g in [
        ('first differing position is unique', dab == dba),
        ('irreflexive', z3.Implies(z3.And(a == b, la == lb), z3.Not(LT(a, la, b, lb, dab)))),
        ('asymmetric', z3.Implies(LT(a, la, b, lb, dab), z3.Not(LT(b, lb, a, la, dba)))),
        ('total', z3.Or(LT(a, la, b, lb, dab), EQ(a, la, b, lb, dab), LT(b, lb, a, la, dba))),
        ('lt excludes eq', z3.Implies(LT(a, la, b, lb, dab), z3.Not(EQ(a, la, b, lb, dab)))),
        ('transitive', z3.Implies(z3.And(LT(a, la, b, lb, dab), LT(b, lb, c, lc, dbc)), LT(a, la, c, lc, dac))),
        ('eq transitive', z3.Implies(z3.And(EQ(a, la, b, lb, dab), EQ(b, lb, c, lc, dbc)), EQ(a, la, c, lc, dac))),
        ('lt respects eq right', z3.Implies(z3.And(LT(a, la, b, lb, dab), EQ(b, lb, c, lc, dbc)), LT(a, la, c, lc, dac))),
        ('lt respects eq left', z3.Implies(z3.And(EQ(a, la, b, lb, dab), LT(b, lb, c, lc, dbc)), LT(a, la, c, lc, dac))),
    ]:
        r = smt.prove(H, g)
        h.results.append(ObResult(h.task.name, 'Lex: ' + name, r.status, r.backend, r.seconds, '', 'lemma', r.detail))
    r = smt.prove(H, z3.Not(LT(a, la, b, lb, dab)), use_cvc5=False, timeout_ms=5000)
    h.results.append(ObResult(h.task.name, 'canary: Lex hypotheses consistent', 'canary-ok' if r.status == 'sat' else 'canary-verified', r.backend, r.seconds, '', 'canary'))


# ------------------------------------------------------------------------------------------------ key functions
@vc('C04.comparable_itemgetter', functions=['petl.comparison.comparable_itemgetter', 'petl.comparison._itemgetter_with_default'],
    props=['C04', 'C05', 'C06', 'C09', 'C10', 'C11'],
    assumptions=['Comparable through its contract (lib_order; discharged by C04.ladder)', 'rows are sequences; indices are non-negative'])
def comparable_itemgetter(h):
    """the key function every sort / merge / group operator uses: key(row) = Comparable(cell) for one key field,
    Comparable((cell, ...)) for several, a missing cell read as None, Comparable(()) for no key field -- always THE Comparable
    wrapper (so nested and mixed-type keys are ordered by C04), never a bare or partially wrapped value."""
    from contracts import lib_order
    for nkeys in (0, 1, 2):
        def body(ctx, nkeys=nkeys):
            it = h.interp(ctx)
            it.summaries.update(lib_order.SUMMARIES)
            row = sym_seq(ctx, 'row', kind='src')
            idx = [sym_int('i%d' % j) for j in range(nkeys)]
            for i in idx:
                ctx.assume(i.t >= 0)
            g = it.call(closure_of(it, 'petl.comparison.comparable_itemgetter'), idx, {})
            try:
                r = it.call(g, [row], {})
            except PyExc as e:
                ctx.oblige('comparable_itemgetter: the key function never raises on a short row', z3.BoolVal(False), e.origin or '')
                return
            cell = lambda i: z3.If(i.t < row.len, z3.Select(row.arr, i.t), smt.mkNone() if hasattr(smt, 'mkNone') else as_v(None))
            ok = isinstance(r, lib_order.CmpObj)
            if not ok:
                ctx.oblige('comparable_itemgetter: the key is a Comparable', z3.BoolVal(False))
                return
            if nkeys == 0:
                goal = z3.And(smt.cls(r.v) == smt.TUPLE, smt.seq_len(r.v) == 0)
            elif nkeys == 1:
                goal = r.v == cell(idx[0])
            else:
                goal = z3.And(smt.cls(r.v) == smt.TUPLE, smt.seq_len(r.v) == 2,
                              z3.Select(smt.seq_arr(r.v), 0) == cell(idx[0]), z3.Select(smt.seq_arr(r.v), 1) == cell(idx[1]))
            ctx.oblige('comparable_itemgetter(%d key field%s): key(row) = Comparable of the key cell%s, a missing cell read as None' %
                       (nkeys, '' if nkeys == 1 else 's', '' if nkeys == 1 else 's as a tuple'), goal)
        h.explore(body)
