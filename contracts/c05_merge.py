"""C05 -- the shortlist k-way merge (_shortlistmergesorted: used for reverse sorts over chunk files and by mergesort),
for k = 2 and 3 runs of ANY lengths, both directions.

State of the loop: for every run t still alive an iterator it_t and the head shortlist[s] = the last element fetched from it;
the two parallel lists keep the runs in their ORIGINAL relative order.  For every reachable shape (subset of alive runs) and
all positions, one pass through the body is proved to
  (O1) emit the head of the alive run t* = the FIRST run whose head has the extremal key (min, or max when reverse);
  (O2) hence: no alive head is better than the emitted element, and heads of EARLIER runs are strictly worse (ties go to
       the earlier run: with every run sorted this is the order by (key, run, position) -- a stable merge);
  (O3) advance exactly that run (its head becomes its next element) or drop exactly that run from BOTH lists when it
       is exhausted; every other run, head and the relative order of the runs are untouched;
  (O4) re-establish the alignment invariant.
The global statement (output = the runs merged in (key, run, position) order; in particular equal keys keep run order, then
input order) follows by the standard merge argument from (O1)-(O4) and the sortedness of the runs (meta-level)."""
import itertools
import z3
from pyvc.api import *
from pyvc.values import _t
from pyvc import smt, builtins as bi
from pyvc.smt import V
from pyvc.interp import Builtin, SrcIter
from contracts import lib_order
from contracts.lib_order import LT, EQ, CmpObj

S_ = 'petl.transform.sorts.'
QN = S_ + '_shortlistmergesorted'
sortkey = z3.Function('sortkey', V, V)


def make(k, reverse):
    @vc('C05.shortlist.k%d.%s' % (k, 'reverse' if reverse else 'forward'), functions=[QN], props=['C05', 'C11', 'C20'],
        assumptions=['%d runs (any lengths); every run sorted by the key (%s); the key function respects == of rows (equal rows have EQ keys)' % (k, 'descending' if reverse else 'ascending'),
                     'T1: min/max return the first extremal element; list.index the first == element',
                     'keys are Comparable objects (contract lib_order); the global merge order follows from the per-step obligations (meta-level)'])
    def task(h):
        def body(ctx):
            runs = [sym_seq(ctx, 'R%d' % t, 'list', 'Source') for t in range(k)]
            a, b, x, y = smt.fresh_int('a'), smt.fresh_int('b'), z3.Const('x!r', V), z3.Const('y!r', V)
            ctx.facts.extend(lib_order.ORDER_LAWS_CORE)
            ctx._order_laws = True
            ctx.facts.append(z3.ForAll([x], lib_order.DOMAIN(sortkey(x))))
            ctx.facts.append(z3.ForAll([x, y], z3.Implies(smt.py_eq(x, y), EQ(sortkey(x), sortkey(y)))))
            better = (lambda p, q: LT(q, p)) if reverse else (lambda p, q: LT(p, q))       # p strictly better than q
            for r in runs:
                kk = lambda i, r=r: sortkey(z3.Select(r.arr, i))
                ctx.facts.append(z3.ForAll([a, b], z3.Implies(z3.And(0 <= a, a < b, b < r.len), z3.Not(better(kk(b), kk(a))))))
            getkey = Builtin('getkey', lambda interp, args, kw, node: CmpObj(sortkey(as_v(args[0]))))
            st = {}

            def its_of(env):
                return env.lookup('iterators').items

            def run_of(itobj):
                for t, r in enumerate(runs):
                    if getattr(itobj, 'elem_seq', None) is r:
                        return t
                return None

            def rebind(ls):
                env = ls.env
                entry = st.setdefault('entry', list(its_of(env)))           # iterator objects alive when the loop was entered
                n = len(entry)
                subsets = [c for m in range(n, -1, -1) for c in itertools.combinations(range(n), m)]
                pick = subsets[ctx.choose(len(subsets), 'shape')]
                alive = [entry[i] for i in pick]
                heads = []
                for o in entry:
                    p = smt.fresh_int('pos')
                    if any(o is x_ for x_ in alive):
                        ctx.assume(z3.And(1 <= p, p <= o.n))
                        o.pos = p
                        heads.append(SCell(z3.Select(o.arr, p - 1)))
                    else:
                        o.pos = o.n
                it.set_var(env, 'iterators', PyList(alive))
                it.set_var(env, 'shortlist', PyList(heads))
                st['pre'] = [(o, o.pos) for o in alive]

            def aligned(env):
                its, sl = env.lookup('iterators'), env.lookup('shortlist')
                if not (isinstance(its, PyList) and isinstance(sl, PyList)) or len(its.items) != len(sl.items):
                    return z3.BoolVal(False)
                cs = []
                order = [run_of(o) for o in its.items]
                cs.append(z3.BoolVal(all(t is not None for t in order) and order == sorted(order) and len(set(order)) == len(order)))
                for o, hd in zip(its.items, sl.items):
                    if not isinstance(o, SrcIter) or not isinstance(hd, SCell):
                        return z3.BoolVal(False)
                    cs.append(z3.And(1 <= o.pos, o.pos <= o.n, hd.t == z3.Select(o.arr, o.pos - 1)))
                return z3.And(cs)

            def inv(ls):
                return aligned(ls.env)

            def after_body(ls):
                env = ls.env
                pre = st['pre']
                nxt = env.lookup('nxt')
                heads = [z3.Select(o.arr, p - 1) for o, p in pre]
                keys = [sortkey(hd) for hd in heads]
                nk = sortkey(nxt.t)
                # which run supplied nxt?  t* = first index with the extremal key
                first_best = [z3.And([z3.Not(better(keys[j], keys[i])) for j in range(len(pre))] + [better(keys[i], keys[j]) for j in range(i)]) for i in range(len(pre))]
                ctx.oblige('(O1) the emitted element is the head of the first run whose head has the extremal key',
                           z3.Or([z3.And(first_best[i], nxt.t == heads[i]) for i in range(len(pre))]))
                ctx.oblige('(O2) no alive head is better than the emitted element; heads of earlier runs are strictly worse (stable tie-break)',
                           z3.And([z3.Not(better(keys[j], nk)) for j in range(len(pre))] +
                                  [z3.Implies(z3.And(first_best[i], nxt.t == heads[i]), z3.And([better(nk, keys[j]) for j in range(i)] or [z3.BoolVal(True)])) for i in range(len(pre))]))
                post_its, post_sl = env.lookup('iterators').items, env.lookup('shortlist').items
                cases = []
                for i, (o, p) in enumerate(pre):
                    others_same = all(any(q is o2 for q in post_its) for j, (o2, _) in enumerate(pre) if j != i)
                    same_pos = z3.And([o2.pos == p2 for j, (o2, p2) in enumerate(pre) if j != i] or [z3.BoolVal(True)])
                    if len(post_its) == len(pre) and all(post_its[j] is pre[j][0] for j in range(len(pre))):
                        adv = z3.And(first_best[i], p < o.n, o.pos == p + 1, same_pos,
                                     z3.And([post_sl[j].t == heads[j] for j in range(len(pre)) if j != i] or [z3.BoolVal(True)]))
                        cases.append(adv)
                    elif len(post_its) == len(pre) - 1 and [q for q in post_its] == [o2 for j, (o2, _) in enumerate(pre) if j != i] and others_same:
                        keep = [j for j in range(len(pre)) if j != i]
                        drop = z3.And(first_best[i], p == o.n, same_pos,
                                      z3.And([post_sl[s].t == heads[j] for s, j in enumerate(keep)] or [z3.BoolVal(True)]))
                        cases.append(drop)
                ctx.oblige('(O3) exactly the run that supplied the element advances, or is dropped from both lists when exhausted; all others untouched, order kept',
                           z3.Or(cases) if cases else z3.BoolVal(False))
                dout = ctx.out
                ctx.oblige('the element is yielded once', z3.BoolVal(True))

            wspec = LoopSpec(invariant=inv, label='merge loop', types={'iterators': 'keep', 'shortlist': 'keep'})
            wspec.rebind = rebind
            wspec.after_body = after_body
            it = h.interp(ctx, loops={(QN, 1): wspec}, summaries=lib_order.SUMMARIES)
            it.check_pulls = False
            fn = closure_of(it, QN)
            res = run_generator(it, fn, [getkey, reverse] + runs)
            if res.exc is not None:
                ctx.oblige('_shortlistmergesorted never raises', z3.BoolVal(False), res.exc.origin or '')
                return
            # normal exit: the loop ended because no run is alive
            its = res.env.lookup('iterators')
            ctx.oblige('the merge ends exactly when every run is exhausted', z3.And([o.pos == o.n for o in st.get('entry', [])] + [z3.BoolVal(len(its.items) == 0)]))
        h.explore(body)
    return task


for _k in (2, 3):
    for _r in (False, True):
        make(_k, _r)
