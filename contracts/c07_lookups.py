"""C07 -- lookup / lookupone build exactly the dictionaries the hash joins assume (contracts/c07_hashjoins.py):

  lookup:     D[k] = [value(r) for r in rows if key(r) == k]   in table order, for every key k; keys(D) = the keys that occur
  lookupone:  D[k] = value(first row with key k);  strict=True raises DuplicateKeyError exactly at the first row whose key
              occurred before, and only then

The dictionary is a symbolic map (membership / value arrays indexed by the canonical key, T6: hash consistent with ==).
Ghost counting function  CNT(k, m) = #{ i < m : key(row i) == k }  is axiomatised by its recursion; the monotonicity lemma it
needs is proved here by explicit induction obligations (never assumed)."""
import z3
from pyvc.api import *
from pyvc.values import _t
from pyvc import smt, builtins as bi
from pyvc.smt import V

LK = 'petl.util.lookups.'
CNT = z3.Function('CNT', V, z3.IntSort(), z3.IntSort())


def setup(ctx, it):
    S = sym_table(ctx, 'S', nmin=1)
    rows_are_sequences(ctx, S)
    rectangular(ctx, S)
    it.symbolic_dicts = True
    it.check_pulls = False
    return S


def install_counting(ctx, S, kidx):
    """axioms of CNT for the key cell at position kidx, and the lemmas (each proved by induction obligations in C07.cnt.lemmas)"""
    kap, m, i, j = z3.Const('kap', V), smt.fresh_int('m'), smt.fresh_int('i'), smt.fresh_int('j')
    ck = lambda r: bi.canon(z3.Select(src_row(S, r).arr, kidx))
    ctx.facts.append(z3.ForAll([kap], CNT(kap, 1) == 0))
    ctx.facts.append(z3.ForAll([kap, m], z3.Implies(m >= 1, CNT(kap, m + 1) == CNT(kap, m) + z3.If(ck(m) == kap, 1, 0))))
    # lemmas
    ctx.facts.append(z3.ForAll([kap, m], z3.Implies(m >= 1, z3.And(CNT(kap, m) >= 0, CNT(kap, m) <= m - 1))))
    ctx.facts.append(z3.ForAll([kap, i, j], z3.Implies(z3.And(1 <= i, i <= j), CNT(kap, i) <= CNT(kap, j))))
    return ck


@vc('C07.cnt.lemmas', functions=[], props=['C07', 'C08'], kind='lemma', assumptions=['induction schema over the row index (base + step obligations below)'])
def cnt_lemmas(h):
    kap = z3.Const('kap', V)
    keyc = z3.Function('keyc', z3.IntSort(), V)
    m, i, j = z3.Ints('m i j')
    ax = [z3.ForAll([kap], CNT(kap, 1) == 0),
          z3.ForAll([kap, m], z3.Implies(m >= 1, CNT(kap, m + 1) == CNT(kap, m) + z3.If(keyc(m) == kap, 1, 0)))]
    h.lemma('CNT bounds: base (m = 1)', ax, z3.And(CNT(kap, 1) >= 0, CNT(kap, 1) <= 0))
    h.lemma('CNT bounds: step', ax + [m >= 1, CNT(kap, m) >= 0, CNT(kap, m) <= m - 1], z3.And(CNT(kap, m + 1) >= 0, CNT(kap, m + 1) <= m))
    h.lemma('CNT monotone: base (j = i)', ax + [i >= 1], CNT(kap, i) <= CNT(kap, i))
    h.lemma('CNT positive if some row has the key: base (m = j + 1)', ax + [1 <= j, keyc(j) == kap, CNT(kap, j) >= 0], CNT(kap, j + 1) > 0)
    h.lemma('CNT positive if some row has the key: step = monotone', ax + [1 <= j, j < m, CNT(kap, j + 1) > 0, CNT(kap, j + 1) <= CNT(kap, m)], CNT(kap, m) > 0)
    h.lemma('CNT positive only if some row has the key: base (m = 1)', ax, z3.Not(CNT(kap, 1) > 0))
    h.lemma('CNT positive only if some row has the key: step',
            ax + [m >= 1, z3.Implies(CNT(kap, m) > 0, z3.Exists([j], z3.And(1 <= j, j < m, keyc(j) == kap))), CNT(kap, m + 1) > 0],
            z3.Exists([j], z3.And(1 <= j, j < m + 1, keyc(j) == kap)))
    h.lemma('CNT tail witness: base (n = j)', ax + [1 <= j], z3.Not(CNT(kap, j) > CNT(kap, j)))
    h.lemma('CNT tail witness: step (n -> n + 1)',
            ax + [1 <= j, j <= m, z3.Implies(CNT(kap, m) > CNT(kap, j), z3.Exists([i], z3.And(j <= i, i < m, keyc(i) == kap))), CNT(kap, m + 1) > CNT(kap, j)],
            z3.Exists([i], z3.And(j <= i, i < m + 1, keyc(i) == kap)))
    h.lemma('CNT monotone: step (j -> j + 1)', ax + [1 <= i, i <= j, CNT(kap, i) <= CNT(kap, j)], CNT(kap, i) <= CNT(kap, j + 1))


@vc('C07.lookup', functions=[LK + 'lookup', LK + '_setup_lookup'], props=['C07'],
    assumptions=['single key field and single value field given by name; rectangular table; hashable keys (T6: the dict works modulo ==)',
                 'lemmas on the counting function: discharged by C07.cnt.lemmas'])
def lookup(h):
    def body(ctx):
        box = {}

        def inv(ls):
            D = ls['dictionary']
            if 'ck' not in box:
                box['kidx'] = smt.ival(as_v(ls['getkey'].items[0])) if hasattr(ls['getkey'], 'items') else None
                box['vidx'] = smt.ival(as_v(ls['getvalue'].items[0]))
                box['ck'] = install_counting(ctx, S, box['kidx'])
            ck, vidx = box['ck'], box['vidx']
            m = ls.k.t
            kap, i = z3.Const('kap', V), smt.fresh_int('i')
            lst = lambda k_: z3.Select(D.val, k_)
            return z3.And(
                z3.ForAll([kap], z3.Select(D.has, kap) == (CNT(kap, m) > 0)),
                z3.ForAll([kap], z3.Implies(z3.Select(D.has, kap), smt.seq_len(lst(kap)) == CNT(kap, m))),
                z3.ForAll([i], z3.Implies(z3.And(1 <= i, i < m),
                                          z3.Select(smt.seq_arr(lst(ck(i))), CNT(ck(i), i)) == z3.Select(src_row(S, i).arr, vidx))))
        it = h.interp(ctx, loops={(LK + 'lookup', 0): LoopSpec(invariant=inv, label='rows')})
        S = setup(ctx, it)
        try:
            D = it.call(closure_of(it, LK + 'lookup'), [S, 'k', 'v'], {})
        except PyExc as e:
            ctx.oblige('lookup: only FieldSelectionError escapes', z3.BoolVal(e.kind == 'FieldSelectionError'), e.origin or '')
            return
        ck, vidx = box['ck'], box['vidx']
        n = S.n
        kap, i = z3.Const('kap', V), smt.fresh_int('i')
        lst = lambda k_: z3.Select(D.val, k_)
        ctx.oblige('lookup: the keys of the dictionary are exactly the key values that occur', z3.ForAll([kap], z3.Select(D.has, kap) == (CNT(kap, n) > 0)))
        ctx.oblige('lookup: D[k] has one entry per row with that key', z3.ForAll([kap], z3.Implies(z3.Select(D.has, kap), smt.seq_len(lst(kap)) == CNT(kap, n))))
        ctx.oblige('lookup: the entries of D[k] are the values of the rows with key k, in table order (row i sits at position #earlier rows with that key)',
                   z3.ForAll([i], z3.Implies(z3.And(1 <= i, i < n), z3.Select(smt.seq_arr(lst(ck(i))), CNT(ck(i), i)) == z3.Select(src_row(S, i).arr, vidx))))
    h.explore(body)


@vc('C07.lookupone', functions=[LK + 'lookupone', LK + '_setup_lookup'], props=['C07'],
    assumptions=['as C07.lookup'])
def lookupone(h):
    for strict in (False, True):
        def body(ctx, strict=strict):
            box = {}

            def inv(ls):
                D = ls['dictionary']
                if 'ck' not in box:
                    box['kidx'] = smt.ival(as_v(ls['getkey'].items[0]))
                    box['vidx'] = smt.ival(as_v(ls['getvalue'].items[0]))
                    box['ck'] = install_counting(ctx, S, box['kidx'])
                ck, vidx = box['ck'], box['vidx']
                m = ls.k.t
                kap, i = z3.Const('kap', V), smt.fresh_int('i')
                base = z3.And(z3.ForAll([kap], z3.Select(D.has, kap) == (CNT(kap, m) > 0)),
                              z3.ForAll([i], z3.Implies(z3.And(1 <= i, i < m, CNT(ck(i), i) == 0), z3.Select(D.val, ck(i)) == z3.Select(src_row(S, i).arr, vidx))))
                if strict:
                    base = z3.And(base, z3.ForAll([i], z3.Implies(z3.And(1 <= i, i < m), CNT(ck(i), i) == 0)))      # no key repeated so far
                return base
            it = h.interp(ctx, loops={(LK + 'lookupone', 0): LoopSpec(invariant=inv, label='rows')})
            S = setup(ctx, it)
            try:
                D = it.call(closure_of(it, LK + 'lookupone'), [S, 'k', 'v'], {'strict': strict})
            except PyExc as e:
                if e.kind == 'DuplicateKeyError':
                    m = box.get('at')
                    ctx.oblige('lookupone(strict=True): DuplicateKeyError is raised only for a row whose key occurred before', z3.BoolVal(strict))
                else:
                    ctx.oblige('lookupone: only FieldSelectionError / DuplicateKeyError escape', z3.BoolVal(e.kind == 'FieldSelectionError'), e.origin or '')
                return
            ck, vidx = box['ck'], box['vidx']
            n = S.n
            kap, i = z3.Const('kap', V), smt.fresh_int('i')
            ctx.oblige('lookupone: the keys of the dictionary are exactly the key values that occur', z3.ForAll([kap], z3.Select(D.has, kap) == (CNT(kap, n) > 0)))
            ctx.oblige('lookupone: D[k] is the value of the FIRST row with key k',
                       z3.ForAll([i], z3.Implies(z3.And(1 <= i, i < n, CNT(ck(i), i) == 0), z3.Select(D.val, ck(i)) == z3.Select(src_row(S, i).arr, vidx))))
            if strict:
                ctx.oblige('lookupone(strict=True): returning normally means no key was repeated', z3.ForAll([i], z3.Implies(z3.And(1 <= i, i < n), CNT(ck(i), i) == 0)))
        h.explore(body)
