"""C15 / C16 -- the csv glue: write and read protocols as typestate properties of the effect trace, and the tee trace =
the to* trace.  The byte-level losslessness of csv / TextIOWrapper / codecs is the standard library's contract (T7);
what petl must get right is proved here on every path: same encoding/errors/newline='' on both sides, the caller's csv
arguments handed over unchanged, one writerow per row in table order, header written iff asked, flush before detach,
detach and close on every exit."""
import z3
from pyvc.api import *
from pyvc.values import _t
from pyvc import smt, builtins as bi
from pyvc.interp import Opaque, PyExc, SrcIter, Instance

CSV = 'petl.io.csv_py3.'


def install(it, file_rows=None, may_fail=True):
    ctx = it.ctx

    def ext_fail(what):
        if may_fail and ctx.branch(smt.fresh_bool('io_fails'), 'the I/O call %s raises' % what):
            it.trace.append(('FAILED', what))
            raise PyExc('ExternalError', None, what)

    def hook(interp, fn, args, kwargs, node):
        name = fn.name
        meth = name.rsplit('.', 1)[-1]
        selfobj = fn.attrs.get('self')
        if name == 'source.open':
            it.trace.append(('open', args[0] if args else kwargs.get('mode')))
            ext_fail('open')
            return Opaque('buffer', 'buf')
        if name == 'io.TextIOWrapper':
            it.trace.append(('wrap', args[0], dict(kwargs)))
            ext_fail('TextIOWrapper')
            return Opaque('textfile', 'csvfile', {'buffer': args[0]})
        if name == 'csv.writer':
            it.trace.append(('writer', args[0], dict(kwargs)))
            return Opaque('writer', 'writer', {'file': args[0]})
        if name == 'csv.reader':
            it.trace.append(('reader', args[0], dict(kwargs)))
            r = SrcIter(file_rows.rows, file_rows.n, 'csv.reader')
            r.table = None
            it.reader_iter = r
            return r
        if isinstance(selfobj, Opaque) and selfobj.kind in ('writer', 'textfile'):
            it.trace.append((selfobj.kind + '.' + meth, selfobj) + tuple(args))
            if meth != 'detach':
                ext_fail(meth)
            return None
        # any other external call (codecs.getwriter, locale..., a different wrapper): an event, judged by the protocol obligations
        it.trace.append(('other:' + name,) + tuple(args))
        return Opaque('external-result', name)
    it.opaque_hook = hook


def protocol_ok(tr, mode, encoding, errors, csvargs, who='writer'):
    """the prologue: open(mode) -> enter -> wrap(buf, encoding, errors, newline='') -> writer/reader(csvfile, **csvargs)"""
    ev = [e for e in tr if e[0] in ('open', 'with-enter', 'wrap', who)]
    if len(ev) < 4:
        return False
    o, en, w, c = ev[:4]
    return (o[0] == 'open' and o[1] == mode and en[0] == 'with-enter' and w[0] == 'wrap' and w[1] is en[1]
            and set(w[2]) == {'encoding', 'errors', 'newline'} and w[2]['newline'] == '' and w[2]['encoding'] is encoding and w[2]['errors'] is errors
            and c[0] == who and c[1].kind == 'textfile' and c[1].attrs['buffer'] is en[1]
            and set(c[2]) == set(csvargs) and all(c[2][k] is csvargs[k] for k in csvargs))


def epilogue_ok(tr, wrapped, exceptional):
    """after the wrapper exists: detach is the last thing done to it and the buffer is closed after that, on every path;
    on normal completion of a write flush precedes detach"""
    if not wrapped:
        return True
    names = [e[0] for e in tr]
    if 'textfile.detach' not in names or 'with-exit' not in names:
        return False
    d, x = names.index('textfile.detach'), names.index('with-exit')
    return d < x and names.count('textfile.detach') == 1 and not any(n.startswith('writer.') or n == 'textfile.flush' for n in names[d:])


for _mode in ('wb', 'ab'):
    for _wh in (True, False):
        def _mk(mode=_mode, wh=_wh):
            @vc('C15.writecsv.%s.%s' % (mode, 'header' if wh else 'noheader'), functions=[CSV + '_writecsv', 'petl.util.base.iterdata'],
                props=['C15', 'C16'],
                assumptions=['T7: csv.writer / io.TextIOWrapper / the codec are lossless for matching arguments and newline=\'\'',
                             'every I/O call may raise; stateless-body rule for the row loop'])
            def task(h):
                def body(ctx):
                    state = {}

                    def delta(ls, x, dout):
                        new = it.trace[ls.trace_start:]
                        ok = len(new) == 1 and new[0][0] == 'writer.writerow' and new[0][2] is x
                        ctx.oblige('_writecsv: each row is written exactly once, as it is, by the writer (table order by the stateless rule)', z3.BoolVal(ok))
                        ctx.oblige('_writecsv: the header row is written iff write_header (the loop starts at row %d)' % (0 if wh else 1),
                                   ls.k0.t == (0 if wh else z3.If(S.n >= 1, 1, 0)))
                    it = h.interp(ctx, loops={(CSV + '_writecsv', 0): LoopSpec(delta=delta, label='rows')})
                    install(it)
                    it.load_module('petl.io.csv_py3')
                    S = sym_table(ctx, 'S', nmin=0)
                    source = Opaque('source', 'source')
                    encoding, errors, delim = sym_cell('encoding'), sym_cell('errors'), sym_cell('delimiter')
                    csvargs = {'delimiter': delim}
                    fn = closure_of(it, CSV + '_writecsv')
                    exc = None
                    try:
                        it.call(fn, [S], dict(source=source, mode=mode, write_header=wh, encoding=encoding, errors=errors, **csvargs))
                    except PyExc as e:
                        exc = e
                    tr = it.trace
                    names = [e[0] for e in tr]
                    wrapped = 'wrap' in names and ('FAILED', 'TextIOWrapper') not in tr
                    if 'writer' in names:
                        ctx.oblige('_writecsv: open(%r), wrap(encoding, errors, newline=\'\'), writer(**csvargs) in that order with the caller\'s arguments' % mode,
                                   z3.BoolVal(protocol_ok(tr, mode, encoding, errors, csvargs)))
                    ctx.oblige('_writecsv: detach then close on every exit; nothing written after detach', z3.BoolVal(epilogue_ok(tr, wrapped, exc is not None)))
                    if exc is None:
                        ctx.oblige('_writecsv: on normal completion the text layer is flushed before it is detached',
                                   z3.BoolVal('textfile.flush' in names and names.index('textfile.flush') < names.index('textfile.detach')))
                    else:
                        ctx.oblige('_writecsv: only I/O errors escape', z3.BoolVal(exc.kind == 'ExternalError'))
                h.explore(body)
        _mk()


@vc('C15.CSVView', functions=[CSV + 'CSVView.__iter__', CSV + 'CSVView.__init__'], props=['C15', 'C02', 'C20'],
    assumptions=['T7 (see C15.writecsv)', 'csv.reader is modelled as an iterator over the parsed rows; stateless-body rule'])
def csvview(h):
    for with_header in (False, True):
        def body(ctx, with_header=with_header):
            def delta(ls, x, dout):
                ctx.oblige('CSVView: every parsed row is yielded once, as a tuple of its cells',
                           z3.And(dout.len == 1, _t(row_eq(out_row(dout, 0), x))))
            it = h.interp(ctx, loops={(CSV + 'CSVView.__iter__', 0): LoopSpec(delta=delta, label='parsed rows')})
            F = sym_table(ctx, 'F', nmin=0)
            install(it, file_rows=F)
            it.load_module('petl.io.csv_py3')
            source = Opaque('source', 'source')
            encoding, errors, delim = sym_cell('encoding'), sym_cell('errors'), sym_cell('delimiter')
            header = sym_seq(ctx, 'header', 'tuple') if with_header else None
            cls = closure_of(it, CSV + 'CSVView')
            view = it.call(cls, [source], dict(encoding=encoding, errors=errors, header=header, delimiter=delim))
            ctx.oblige('CSVView: constructing the view opens nothing', z3.BoolVal(len(it.trace) == 0))
            res = run_generator(it, cls.find('__iter__')[0], [view])
            tr = it.trace
            names = [e[0] for e in tr]
            wrapped = 'wrap' in names and ('FAILED', 'TextIOWrapper') not in tr
            if 'reader' in names:
                ctx.oblige('CSVView: open(\'rb\'), wrap(encoding, errors, newline=\'\'), reader(**csvargs) with the caller\'s arguments',
                           z3.BoolVal(protocol_ok(tr, 'rb', encoding, errors, {'delimiter': delim}, who='reader')))
            ctx.oblige('CSVView: detach then close on every exit', z3.BoolVal(epilogue_ok(tr, wrapped, res.exc is not None)))
            if res.exc is not None:
                ctx.oblige('CSVView: only I/O errors escape', z3.BoolVal(res.exc.kind == 'ExternalError'))
                return
            pre = getattr(ctx, 'pre_loop_out', None)
            if pre is not None:
                ctx.oblige('CSVView: the header= argument adds exactly one row in front, nothing else',
                           pre.len == (1 if with_header else 0))
        h.explore(body)


@vc('C16.TeeCSVView', functions=[CSV + 'TeeCSVView.__iter__', CSV + 'TeeCSVView.__init__'], props=['C16', 'C15'],
    assumptions=['T7', 'the tee trace is compared with the trace contract of _writecsv (C15.writecsv.*): same prologue, one writerow per row, flush, detach'])
def teecsv(h):
    for wh in (True, False):
        def body(ctx, wh=wh):
            def delta(ls, x, dout):
                new = it.trace[ls.trace_start:]
                ok = len(new) == 1 and new[0][0] == 'writer.writerow' and new[0][2] is x
                ctx.oblige('TeeCSVView: each data row is written exactly once, as it is, and yielded once as a tuple (transparent)',
                           z3.And(z3.BoolVal(ok), dout.len == 1, _t(row_eq(out_row(dout, 0), x))))
            it = h.interp(ctx, loops={(CSV + 'TeeCSVView.__iter__', 0): LoopSpec(delta=delta, label='data rows')})
            install(it)
            it.load_module('petl.io.csv_py3')
            S = sym_table(ctx, 'S', nmin=1)
            source = Opaque('source', 'source')
            encoding, errors, delim = sym_cell('encoding'), sym_cell('errors'), sym_cell('delimiter')
            cls = closure_of(it, CSV + 'TeeCSVView')
            view = it.call(cls, [S], dict(source=source, encoding=encoding, errors=errors, write_header=wh, delimiter=delim))
            ctx.oblige('TeeCSVView: constructing the view opens nothing and reads nothing', z3.BoolVal(len(it.trace) == 0 and not getattr(S, 'iterators', [])))
            res = run_generator(it, cls.find('__iter__')[0], [view])
            tr = it.trace
            names = [e[0] for e in tr]
            wrapped = 'wrap' in names and ('FAILED', 'TextIOWrapper') not in tr
            if 'writer' in names:
                ctx.oblige('TeeCSVView: same prologue as tocsv: open(\'wb\'), wrap(encoding, errors, newline=\'\'), writer(**csvargs)',
                           z3.BoolVal(protocol_ok(tr, 'wb', encoding, errors, {'delimiter': delim})))
            ctx.oblige('TeeCSVView: detach then close on every exit; nothing written after detach', z3.BoolVal(epilogue_ok(tr, wrapped, res.exc is not None)))
            if res.exc is not None:
                ctx.oblige('TeeCSVView: only I/O errors escape', z3.BoolVal(res.exc.kind == 'ExternalError'))
                return
            if getattr(ctx, 'after_loop', None):
                pre = ctx.pre_loop_out
                hdr_writes = [e for e in tr if e[0] == 'writer.writerow']
                ctx.oblige('TeeCSVView: the header is yielded once and written iff write_header; flush before detach after the last row',
                           z3.And(pre.len == 1, _t(row_eq(out_row(pre, 0), src_row(S, 0))), z3.BoolVal(len(hdr_writes) == (1 if wh else 0)),
                                  z3.BoolVal('textfile.flush' in names and names.index('textfile.flush') < names.index('textfile.detach')), res.out.len == 0))
        h.explore(body)


# ------------------------------------------------------------------------------------------------ the public front ends
FRONT = 'petl.io.csv.'
FAMILIES = {'csv': ('excel', ['fromcsv', 'tocsv', 'appendcsv', 'teecsv']), 'tsv': ('excel-tab', ['fromtsv', 'totsv', 'appendtsv', 'teetsv'])}


@vc('C15.csv.frontends', functions=[FRONT + f for fam in FAMILIES.values() for f in fam[1]], props=['C15', 'C16'],
    assumptions=['csv module lossless when reader and writer are built with the SAME format arguments (T7)'])
def frontends(h):
    """from*/to*/append*/tee* of one family hand the implementation exactly the caller's csv arguments plus ONE shared
    default (the dialect), so that what one side writes the other side reads with the same format; encoding, errors,
    header / write_header go through unchanged; append opens for appending."""
    for fam, (dialect, fns) in FAMILIES.items():
        for user in ('none', 'delimiter', 'dialect'):
            def body(ctx, fam=fam, dialect=dialect, fns=fns, user=user):
                it = h.interp(ctx)
                seen = {}

                def impl(which):
                    def summary(interp, args, kw, node):
                        seen[which] = (list(args), dict(kw))
                        return Opaque('impl-result', which)
                    return summary
                for w in ('fromcsv_impl', 'tocsv_impl', 'appendcsv_impl', 'teecsv_impl'):
                    it.summaries[CSV + w] = impl(w)
                srcs = []

                def src_summary(kind):
                    def s(interp, args, kw, node):
                        o = Opaque('source', kind)
                        srcs.append((kind, list(args), dict(kw), o))
                        return o
                    return s
                it.summaries['petl.io.sources.read_source_from_arg'] = src_summary('read')
                it.summaries['petl.io.sources.write_source_from_arg'] = src_summary('write')
                enc, err, hdr, wh, arg = sym_cell('encoding'), sym_cell('errors'), sym_cell('header'), sym_bool('write_header'), Opaque('arg', 'arg')
                T_ = sym_table(ctx, 'T', nmin=0)
                delim = sym_cell('delimiter')
                extra = {} if user == 'none' else ({'delimiter': delim} if user == 'delimiter' else {'dialect': delim})
                want = dict(extra)
                want.setdefault('dialect', dialect)
                results = {}
                for f in fns:
                    seen.clear()
                    del srcs[:]
                    kw = dict(extra)
                    if f.startswith('from'):
                        it.call(closure_of(it, FRONT + f), [arg], dict(kw, encoding=enc, errors=err, header=hdr))
                        a, k = seen.get('fromcsv_impl', ([], {}))
                        base_ok = set(seen) == {'fromcsv_impl'} and not a and k.get('encoding') is enc and k.get('errors') is err and k.get('header') is hdr \
                            and len(srcs) == 1 and srcs[0][0] == 'read' and srcs[0][1] == [arg] and k.get('source') is srcs[0][3]
                        fmt = {x: y for x, y in k.items() if x not in ('source', 'encoding', 'errors', 'header')}
                    else:
                        it.call(closure_of(it, FRONT + f), [T_, arg], dict(kw, encoding=enc, errors=err, write_header=wh))
                        w = {'to': 'tocsv_impl', 'ap': 'appendcsv_impl', 'te': 'teecsv_impl'}[f[:2]]
                        a, k = seen.get(w, ([], {}))
                        mode_ok = (srcs and srcs[0][2].get('mode') == 'ab') if f.startswith('append') else (srcs and srcs[0][2].get('mode', 'wb') == 'wb')
                        base_ok = set(seen) == {w} and a == [T_] and k.get('encoding') is enc and k.get('errors') is err and k.get('write_header') is wh \
                            and len(srcs) == 1 and srcs[0][0] == 'write' and srcs[0][1] == [arg] and k.get('source') is srcs[0][3] and bool(mode_ok)
                        fmt = {x: y for x, y in k.items() if x not in ('source', 'encoding', 'errors', 'write_header')}
                    results[f] = fmt
                    ctx.oblige('%s: source, encoding, errors and header flag go to the implementation unchanged (append: opened for appending)' % f,
                               z3.BoolVal(bool(base_ok)))
                    same = set(fmt) == set(want) and all(fmt[x] is want[x] or fmt[x] == want[x] for x in want)
                    ctx.oblige('%s: the csv format arguments are exactly the caller\'s plus the family default dialect=%r (an explicit dialect wins); '
                               'nothing else is added on one side only' % (f, dialect), z3.BoolVal(bool(same)))
            h.explore(body)
