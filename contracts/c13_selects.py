"""C13 -- selections: every comparison selector evaluates its documented predicate under the ordering of C04;
select / complement are exact filters (loop contracts with a ghost counting function)."""
import z3
from pyvc.api import *
from pyvc.values import _t
from pyvc import smt
from pyvc.smt import V, cls, py_eq, NONE
from contracts.lib_order import LT, EQ, DOMAIN, SUMMARIES, CQN, ORDER_LAWS

SEL = 'petl.transform.selects.'


def where_of(it, name, args):
    """run the real selector constructor; returns the `where` closure stored in the view it builds"""
    fn = closure_of(it, SEL + name)
    table = Opaque('table')
    view = it.call(fn, [table, 'f'] + args, {})
    return view, view.attrs['where']


def order(it, op, a, b):
    """spec side: the relations of the Comparable contract (laws and method contracts proved in C04.ladder)"""
    return {'__lt__': LT, '__eq__': EQ}[op](a.t, b.t)


def tb(it, r):
    return r if isinstance(r, bool) else (r.t if isinstance(r, SBool) else it.truth_term(r))


SPECS = {
    # name: (number of reference values, spec(it, v, refs) -> bool/z3)
    'selecteq': (1, lambda it, v, r: py_eq(v.t, r[0].t)),
    'selectne': (1, lambda it, v, r: z3.Not(py_eq(v.t, r[0].t))),
    'selectlt': (1, lambda it, v, r: order(it, '__lt__', v, r[0])),
    'selectle': (1, lambda it, v, r: z3.Or(order(it, '__lt__', v, r[0]), order(it, '__eq__', v, r[0]))),
    'selectgt': (1, lambda it, v, r: order(it, '__lt__', r[0], v)),
    'selectge': (1, lambda it, v, r: z3.Not(order(it, '__lt__', v, r[0]))),
    'selectrangeopenleft': (2, lambda it, v, r: z3.And(z3.Not(order(it, '__lt__', v, r[0])), order(it, '__lt__', v, r[1]))),
    'selectrangeopenright': (2, lambda it, v, r: z3.And(order(it, '__lt__', r[0], v), z3.Not(order(it, '__lt__', r[1], v)))),
    'selectrangeopen': (2, lambda it, v, r: z3.And(z3.Not(order(it, '__lt__', v, r[0])), z3.Not(order(it, '__lt__', r[1], v)))),
    'selectrangeclosed': (2, lambda it, v, r: z3.And(order(it, '__lt__', r[0], v), order(it, '__lt__', v, r[1]))),
    'selectnone': (0, lambda it, v, r: cls(v.t) == NONE),
    'selectnotnone': (0, lambda it, v, r: cls(v.t) != NONE),
    'selecttrue': (0, lambda it, v, r: smt.truthy(v.t)),
    'selectfalse': (0, lambda it, v, r: z3.Not(smt.truthy(v.t))),
    'selectis': (1, lambda it, v, r: v.t == r[0].t),
    'selectisnot': (1, lambda it, v, r: v.t != r[0].t),
}


def make(name):
    nref, spec = SPECS[name]

    @vc('C13.' + name, functions=[SEL + name, SEL + 'selectop', SEL + 'select', SEL + 'FieldSelectView.__init__',
                                  ],
        props=['C13', 'C04'],
        assumptions=['T3 comparison dispatch (reflected operator when the left operand is a raw built-in value)',
                     'contract of petl.comparison.Comparable (contracts/lib_order.py), discharged by task C04.ladder'])
    def task(h):
        def body(ctx):
            ctx.facts.extend(ORDER_LAWS)
            ctx._order_laws = True
            it = h.interp(ctx, summaries=SUMMARIES)
            v = sym_cell('v')
            refs = [sym_cell('ref%d' % k) for k in range(nref)]
            ctx.assume(z3.And([DOMAIN(x.t) for x in [v] + refs]))
            for complement in (False, True):
                view, where = where_of(it, name, refs + [complement])
                ctx.oblige('%s: complement flag handed to the view unchanged' % name,
                           z3.BoolVal(view.attrs['complement'] is complement and view.attrs['missing'] is None
                                      and view.attrs['field'] == 'f'), kind='wiring')
            try:
                got = tb(it, it.call(where, [v], {}))
            except PyExc as e:
                ctx.oblige('%s: predicate never raises on the value domain' % name, z3.BoolVal(False), e.origin or '')
                return
            want = spec(it, v, refs)
            ctx.oblige('%s: where(v) is the documented predicate' % name, _t(got) == _t(want) if not (isinstance(got, bool) and isinstance(want, bool)) else z3.BoolVal(got == want))
        h.explore(body)
    return task


for _n in SPECS:
    make(_n)


# ------------------------------------------------------------------------------------------------ the filter loops
from contracts import lib_base
from pyvc import builtins as bi
from pyvc.interp import Instance


@vc('C13.iterfieldselect', functions=[SEL + 'iterfieldselect'], props=['C13', 'C03', 'C20', 'C02'],
    assumptions=['contract of asindices (contracts/lib_base.py), discharged by C12.asindices.range',
                 '`where` is a deterministic callback that may raise',
                 'stateless-body rule (engine meta-theorem): out = header ++ concat over data rows of the per-row delta, '
                 'so select and its complement partition the data rows in input order'])
def iterfieldselect(h):
    for nfields in ('one', 'many'):
        def body(ctx, nfields=nfields):
            def delta(ls, x, dout):
                row = view_seq(x)
                indices, missing, complement = ls['indices'], ls['missing'], ls['complement']
                i0 = smt.ival(z3.Select(indices.arr, 0))
                if nfields == 'one':
                    v = z3.If(i0 < row.len, z3.Select(row.arr, i0), as_v(missing))
                    r, raises, exc = bi.ucall_terms('where', [v])
                    keep = smt.truthy(r) != _t(complement)
                    ctx.oblige('iterfieldselect: the row is kept iff bool(where(cell)) != complement, a missing cell read as `missing`; kept rows are unchanged',
                               z3.If(keep, z3.And(dout.len == 1, _t(row_eq(out_row(dout, 0), row))), dout.len == 0))
                else:
                    ctx.oblige('iterfieldselect(compound field): a row yields itself unchanged or nothing',
                               z3.Or(dout.len == 0, z3.And(dout.len == 1, _t(row_eq(out_row(dout, 0), row)))))
            it = h.interp(ctx, loops={(SEL + 'iterfieldselect', 0): LoopSpec(delta=delta, label='data rows')}, summaries=lib_base.SUMMARIES)
            S = sym_table(ctx, 'S', nmin=1)
            field = sym_seq(ctx, 'field', 'tuple')
            if nfields == 'one':
                ctx.assume(field.len == 1)
            else:
                ctx.assume(field.len >= 2)
            missing, complement = sym_cell('missing'), sym_bool('complement')
            fn = closure_of(it, SEL + 'iterfieldselect')
            res = run_generator(it, fn, [S, field, UCall('where'), complement, missing])
            if res.exc is not None:
                inloop = getattr(ctx, 'in_iteration', None)
                ok = (inloop is None and res.exc.kind == 'FieldSelectionError') or (inloop is not None and res.exc.kind == 'UserError')
                ctx.oblige('iterfieldselect: only FieldSelectionError (before the data) or the exception of `where` (at its row, nothing emitted for it) escapes',
                           z3.And(z3.BoolVal(ok), res.out.len == (0 if inloop is not None else res.out.len)))
                return
            pre = ctx.pre_loop_out
            ctx.oblige('iterfieldselect: the header is passed through first, once; nothing after the last row',
                       z3.And(pre.len == 1, _t(row_eq(out_row(pre, 0), src_row(S, 0))), res.out.len == 0))
        h.explore(body)


@vc('C13.iterrowselect', functions=[SEL + 'iterrowselect', 'petl.util.base.Record.__init__'], props=['C13', 'C03', 'C20', 'C02'],
    assumptions=['`where` is a deterministic callback on the record that may raise', 'stateless-body rule (engine meta-theorem)'])
def iterrowselect(h):
    def body(ctx):
        def delta(ls, x, dout):
            rowv = x.attrs['_tuple']
            r, raises, exc = bi.ucall_terms('where', [as_v(rowv)])
            keep = smt.truthy(r) != _t(ls['complement'])
            ctx.oblige('iterrowselect: the row is kept iff bool(where(record)) != complement; kept rows are unchanged',
                       z3.If(keep, z3.And(dout.len == 1, _t(row_eq(out_row(dout, 0), rowv))), dout.len == 0))
        it = h.interp(ctx, loops={(SEL + 'iterrowselect', 0): LoopSpec(delta=delta, label='data rows')})
        S = sym_table(ctx, 'S', nmin=1)
        fn = closure_of(it, SEL + 'iterrowselect')
        res = run_generator(it, fn, [S, UCall('where'), sym_cell('missing'), sym_bool('complement')])
        if res.exc is not None:
            inloop = getattr(ctx, 'in_iteration', None)
            ctx.oblige('iterrowselect: only the exception of `where` escapes, at its row, nothing emitted for it',
                       z3.And(z3.BoolVal(inloop is not None and res.exc.kind == 'UserError'), res.out.len == 0))
            return
        pre = ctx.pre_loop_out
        ctx.oblige('iterrowselect: the header is passed through first, once; nothing after the last row',
                   z3.And(pre.len == 1, _t(row_eq(out_row(pre, 0), src_row(S, 0))), res.out.len == 0))
    h.explore(body)


# ------------------------------------------------------------------------------------------------ slicing
BA = 'petl.transform.basics.'


def slice_task(name, sliceargs_builder, lo_hi):
    @vc('C13.iterrowslice.' + name, functions=[BA + 'iterrowslice'], props=['C13', 'C03', 'C20', 'C02'],
        assumptions=['T2: itertools.islice(it, start, stop) yields exactly the elements with index start <= i < stop of what is left of `it` (step 1)',
                     'stateless-body rule (engine meta-theorem)'])
    def task(h):
        def body(ctx):
            sa = sliceargs_builder(ctx)
            lo, hi = lo_hi(sa)

            def delta(ls, x, dout):
                d = ls.k.t - 1          # index among the data rows
                ctx.oblige('rowslice(%s): every selected row is yielded once, as a tuple of itself, and its position is inside the requested window' % name,
                           z3.And(dout.len == 1, _t(row_eq(out_row(dout, 0), x)), lo <= d, (d < hi) if hi is not None else z3.BoolVal(True)))
            it = h.interp(ctx, loops={(BA + 'iterrowslice', 0): LoopSpec(delta=delta, label='window rows')})
            it.check_pulls = False
            S = sym_table(ctx, 'S', nmin=1)
            res = run_generator(it, closure_of(it, BA + 'iterrowslice'), [S, sa])
            if res.exc is not None:
                ctx.oblige('rowslice: never raises for non-negative bounds', z3.BoolVal(False), res.exc.origin or '')
                return
            ev = [e for e in it.trace if e[0] == 'islice']
            ctx.oblige('rowslice: the slice arguments are handed to islice unchanged, over the data rows (after the header)',
                       z3.BoolVal(len(ev) == 1 and len(ev[0][2]) == len(sa) and all(a is b for a, b in zip(ev[0][2], sa))))
            if getattr(ctx, 'after_loop', None):
                w = [o for o in [res.env.lookup('it')] if True][0]
                pre = ctx.pre_loop_out
                ctx.oblige('rowslice: the header first, once; the window covers every data row with start <= index < stop; nothing afterwards',
                           z3.And(pre.len == 1, _t(row_eq(out_row(pre, 0), src_row(S, 0))), res.out.len == 0))
        h.explore(body)
    return task


def _nn(ctx, name):
    v = sym_int(name)
    ctx.assume(v.t >= 0)
    return v


slice_task('stop', lambda ctx: (_nn(ctx, 'stop'),), lambda sa: (z3.IntVal(0), sa[0].t))
slice_task('start-stop', lambda ctx: (_nn(ctx, 'start'), _nn(ctx, 'stop')), lambda sa: (sa[0].t, sa[1].t))
slice_task('start-none', lambda ctx: (_nn(ctx, 'start'), None), lambda sa: (sa[0].t, None))


# ------------------------------------------------------------------------------------------------ tail
@vc('C13.itertail', functions=[BA + 'itertail'], props=['C13', 'C03'],
    assumptions=['collections.deque as a FIFO window (T6)', 'invariant rule on the filling loop, stateless-body rule on the emitting loop'])
def itertail(h):
    """tail(t, n) = header + the last n data rows (all of them when there are fewer; none for n <= 0), unchanged, in order."""
    def body(ctx):
        def keep(k):
            """number of rows held after data rows 1..k-1 have been seen"""
            seen = k - 1
            return z3.If(n.t <= 0, 0, z3.If(seen < n.t, seen, n.t))

        def inv(ls):
            dq = ls['cache']
            k = ls.k.t
            q = smt.fresh_int('q')
            return z3.And(dq.len == keep(k), dq.lo >= 0,
                          z3.ForAll([q], z3.Implies(z3.And(dq.lo <= q, q < dq.hi), z3.Select(dq.arr, q) == z3.Select(S.rows, k - dq.hi + q))))

        def emit(ls, x, dout):
            ctx.oblige('itertail: every row kept in the window is yielded once, as a tuple of itself, in order',
                       z3.And(dout.len == 1, _t(row_eq(out_row(dout, 0), x))))

        def window(ls, count):
            dq = ls['cache']
            q = smt.fresh_int('q')
            m = keep(S.n)
            ctx.oblige('itertail: the window that is emitted is exactly the last min(n, #rows) data rows (none for n <= 0), in table order',
                       z3.And(count == m, z3.ForAll([q], z3.Implies(z3.And(ls.k0.t <= q, q < ls.k0.t + m), z3.Select(dq.arr, q) == z3.Select(S.rows, S.n - m + q - ls.k0.t)))))
        s1 = LoopSpec(delta=emit, label='window rows')
        s1.on_exit = window
        it = h.interp(ctx, loops={(BA + 'itertail', 0): LoopSpec(invariant=inv, label='filling the window'), (BA + 'itertail', 1): s1})
        it.check_pulls = False
        S = sym_table(ctx, 'S', nmin=1)
        n = sym_int('n')
        res = run_generator(it, closure_of(it, BA + 'itertail'), [S, n])
        if res.exc is not None:
            ctx.oblige('itertail: never raises', z3.BoolVal(False), res.exc.origin or '')
            return
        if getattr(ctx, 'after_loop', None):
            pre = ctx.pre_loop_out
            ctx.oblige('itertail: the header first, once; nothing after the window', z3.And(pre.len == 1, _t(row_eq(out_row(pre, 0), src_row(S, 0))), res.out.len == 0))
    h.explore(body)


# ------------------------------------------------------------------------------------------------ selectusingcontext
@vc('C13.iterselectusingcontext', functions=[SEL + 'iterselectusingcontext', 'petl.util.base.Record.__init__'], props=['C13', 'C02', 'C03'],
    assumptions=['`query` is a deterministic callback on (previous, current, next) records that may raise',
                 'hybrid loop rule: prv / cur are functions of the position (invariant); emission stated per step'])
def selectusingcontext(h):
    """row i is kept iff query(row i-1 or None, row i, row i+1 or None) is true; kept rows unchanged, in order; the operator
    holds exactly ONE row of look-ahead (C02: what is pulled for k output rows does not depend on the length of the source)."""
    def body(ctx):
        box = {}

        def record(i):
            return it.call(Rec, [SCell(z3.Select(S.rows, i)), flds_box[0]], {})

        def rebind(ls):
            k = ls.k.t
            flds_box[0] = ls['flds']
            ls.env.vars['cur'] = record(k - 1)
            ls.env.vars['prv'] = None if ctx.branch(k == 2, 'second data row') else record(k - 2)
            box['ncalls'] = len(ls['query'].calls)

        def is_row(v, i):
            """the V value v is a copy of source row i (same cells)"""
            return _t(row_eq(view_seq(SCell(v)), src_row(S, i)))

        def rec_is(r, i):
            return is_row(as_v(r.attrs['_tuple']), i) if isinstance(r, Instance) else z3.BoolVal(False)

        def inv(ls):
            k = ls.k.t
            cur, prv = ls['cur'], ls['prv']
            p = (k == 2) if prv is None else z3.And(k > 2, rec_is(prv, k - 2))
            return z3.And(k >= 2, rec_is(cur, k - 1), p)

        def judge(dout, call, i, first, last):
            """the call query(prv, cur, nxt) made for data row i, and what was emitted for it"""
            pv, cv, nv = call
            r, raises, exc = bi.ucall_terms('query', [pv, cv, nv])
            args_ok = z3.And(is_row(cv, i), z3.If(first, pv == as_v(None), is_row(pv, i - 1)), (nv == as_v(None)) if last else is_row(nv, i + 1))
            return z3.And(args_ok, z3.If(smt.truthy(r), z3.And(dout.len == 1, is_row(z3.Select(dout.arr, 0), i)), dout.len == 0))

        def delta(ls, x, dout):
            k = ls.k.t
            calls = ls['query'].calls
            ctx.oblige('selectusingcontext: one call of query per step', z3.BoolVal(len(calls) == box['ncalls'] + 1))
            ctx.oblige('selectusingcontext: data row i is kept iff query(row i-1 (None for the first), row i, row i+1) is true; a kept row is yielded once, unchanged',
                       judge(dout, calls[-1], k - 1, k == 2, False))
        spec = LoopSpec(invariant=inv, delta=delta, label='rows (with one row of look-ahead)')
        spec.rebind = rebind
        spec.lookahead = 1
        it = h.interp(ctx, loops={(SEL + 'iterselectusingcontext', 0): spec})
        flds_box = [None]
        S = sym_table(ctx, 'S', nmin=1)
        Rec = closure_of(it, 'petl.util.base.Record')
        res = run_generator(it, closure_of(it, SEL + 'iterselectusingcontext'), [S, UCall('query')])
        if res.exc is not None:
            ctx.oblige('selectusingcontext: only the exception of `query` escapes', z3.BoolVal(res.exc.kind == 'UserError'), res.exc.origin or '')
            return
        if getattr(ctx, 'after_loop', None):
            n = S.n
            calls = res.env.lookup('query').calls
            ctx.oblige('selectusingcontext: the last data row is judged with next = None', judge(res.out, calls[-1], n - 1, n == 2, True))
            pre = ctx.pre_loop_out
            ctx.oblige('selectusingcontext: the header first, once', z3.And(pre.len == 1, _t(row_eq(out_row(pre, 0), src_row(S, 0)))))
        else:
            ctx.oblige('selectusingcontext: a table without data rows yields the header only', z3.And(res.out.len <= 1, S.n <= 1))
    h.explore(body)


# ------------------------------------------------------------------------------------------------ facet
@vc('C13.facet', functions=[SEL + 'facet'], props=['C13'],
    assumptions=['values() and selecteq() through recording summaries (their own contracts: C12.itervalues, C13.selecteq); two key values occur (the loop body is uniform)'])
def facet(h):
    """facet(t, key) maps every value v that occurs under the key to selecteq(t, key, v) over the ORIGINAL table: the parts are
    selections of t by the same key, one per distinct value, so they partition its rows."""
    for same in (False, True):
        def body(ctx, same=same):
            it = h.interp(ctx)
            calls = []
            v1, v2 = sym_cell('v1'), sym_cell('v2')
            eq12 = smt.py_eq(v1.t, v2.t)
            ctx.facts.append(z3.And(smt.py_eq(v1.t, v1.t), smt.py_eq(v2.t, v2.t), eq12 == smt.py_eq(v2.t, v1.t)))
            ctx.assume(eq12 if same else z3.Not(eq12))
            T = Opaque('table', 't')
            key = sym_cell('key')
            it.summaries['petl.util.base.values'] = lambda interp, args, kw, node: (calls.append(('values', list(args), dict(kw))), PyList([v1, v2], 'list'))[1]

            def sel(interp, args, kw, node):
                o = Opaque('view', 'selecteq#%d' % len(calls))
                calls.append(('selecteq', list(args), dict(kw), o))
                return o
            it.summaries[SEL + 'selecteq'] = sel
            fct = it.call(closure_of(it, SEL + 'facet'), [T, key], {})
            vs = [c for c in calls if c[0] == 'values']
            ss = [c for c in calls if c[0] == 'selecteq']
            n = 1 if same else 2
            ok = len(vs) == 1 and vs[0][1][0] is T and vs[0][1][1] is key and len(ss) == n and all(c[1][0] is T and c[1][1] is key and not c[2] for c in ss) \
                and isinstance(fct, bi.SDict) and len(fct.keys) == n and all(fct.vals[i] is ss[i][3] and fct.keys[i] is ss[i][1][2] for i in range(n)) \
                and (ss[0][1][2] is v1 or ss[0][1][2] is v2) and (same or {id(ss[0][1][2]), id(ss[1][1][2])} == {id(v1), id(v2)})
            ctx.oblige('facet: one entry per DISTINCT key value v, holding selecteq(original table, key, v)', z3.BoolVal(bool(ok)))
        h.explore(body)
