"""C13 -- selections: every comparison selector evaluates its documented predicate under the ordering of C04;
select / complement are exact filters (loop contracts with a ghost counting function)."""
import z3
from pyvc.api import *
from pyvc.values import _t
from pyvc import smt
from pyvc.smt import V, cls, py_eq, NONE
from contracts.lib_order import LT, EQ, DOMAIN, SUMMARIES, CQN, ORDER_LAWS

SEL = 'petl.transform.selects.'


def where_of(it, name, args):
    """run the real selector constructor; returns the `where` closure stored in the view it builds"""
    fn = closure_of(it, SEL + name)
    table = Opaque('table')
    view = it.call(fn, [table, 'f'] + args, {})
    return view, view.attrs['where']


def order(it, op, a, b):
    """spec side: the relations of the Comparable contract (laws and method contracts proved in C04.ladder)"""
    return {'__lt__': LT, '__eq__': EQ}[op](a.t, b.t)


def tb(it, r):
    return r if isinstance(r, bool) else (r.t if isinstance(r, SBool) else it.truth_term(r))


SPECS = {
    # name: (number of reference values, spec(it, v, refs) -> bool/z3)
    'selecteq': (1, lambda it, v, r: py_eq(v.t, r[0].t)),
    'selectne': (1, lambda it, v, r: z3.Not(py_eq(v.t, r[0].t))),
    'selectlt': (1, lambda it, v, r: order(it, '__lt__', v, r[0])),
    'selectle': (1, lambda it, v, r: z3.Or(order(it, '__lt__', v, r[0]), order(it, '__eq__', v, r[0]))),
    'selectgt': (1, lambda it, v, r: order(it, '__lt__', r[0], v)),
    'selectge': (1, lambda it, v, r: z3.Not(order(it, '__lt__', v, r[0]))),
    'selectrangeopenleft': (2, lambda it, v, r: z3.And(z3.Not(order(it, '__lt__', v, r[0])), order(it, '__lt__', v, r[1]))),
    'selectrangeopenright': (2, lambda it, v, r: z3.And(order(it, '__lt__', r[0], v), z3.Not(order(it, '__lt__', r[1], v)))),
    'selectrangeopen': (2, lambda it, v, r: z3.And(z3.Not(order(it, '__lt__', v, r[0])), z3.Not(order(it, '__lt__', r[1], v)))),
    'selectrangeclosed': (2, lambda it, v, r: z3.And(order(it, '__lt__', r[0], v), order(it, '__lt__', v, r[1]))),
    'selectnone': (0, lambda it, v, r: cls(v.t) == NONE),
    'selectnotnone': (0, lambda it, v, r: cls(v.t) != NONE),
    'selecttrue': (0, lambda it, v, r: smt.truthy(v.t)),
    'selectfalse': (0, lambda it, v, r: z3.Not(smt.truthy(v.t))),
    'selectis': (1, lambda it, v, r: v.t == r[0].t),
    'selectisnot': (1, lambda it, v, r: v.t != r[0].t),
}


def make(name):
    nref, spec = SPECS[name]

    @vc('C13.' + name, functions=[SEL + name, SEL + 'selectop', SEL + 'select', SEL + 'FieldSelectView.__init__',
                                  ],
        props=['C13', 'C04'],
        assumptions=['T3 comparison dispatch (reflected operator when the left operand is a raw built-in value)',
                     'contract of petl.comparison.Comparable (contracts/lib_order.py), discharged by task C04.ladder'])
    def task(h):
        def body(ctx):
            ctx.facts.extend(ORDER_LAWS)
            ctx._order_laws = True
            it = h.interp(ctx, summaries=SUMMARIES)
            v = sym_cell('v')
            refs = [sym_cell('ref%d' % k) for k in range(nref)]
            ctx.assume(z3.And([DOMAIN(x.t) for x in [v] + refs]))
            for complement in (False, True):
                view, where = where_of(it, name, refs + [complement])
                ctx.oblige('%s: complement flag handed to the view unchanged' % name,
                           z3.BoolVal(view.attrs['complement'] is complement and view.attrs['missing'] is None
                                      and view.attrs['field'] == 'f'), kind='wiring')
            try:
                got = tb(it, it.call(where, [v], {}))
            except PyExc as e:
                ctx.oblige('%s: predicate never raises on the value domain' % name, z3.BoolVal(False), e.origin or '')
                return
            want = spec(it, v, refs)
            ctx.oblige('%s: where(v) is the documented predicate' % name, _t(got) == _t(want) if not (isinstance(got, bool) and isinstance(want, bool)) else z3.BoolVal(got == want))
        h.explore(body)
    return task


for _n in SPECS:
    make(_n)
