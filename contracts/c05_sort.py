"""C05 / C11 / C18 -- the external sort of SortView._iternocache (real AST), proved for ALL table sizes and buffer sizes:

  * memory/disk decision: the in-memory path is taken only when the whole source has been read, and then yields every
    sorted row exactly once (as a tuple);
  * chunking conserves rows: by an inductive invariant on `while rows`, the rows dumped to chunk files plus the rows in
    the buffer are exactly the rows read so far; every chunk is non-empty and at most `buffersize` long; when the loop
    ends every data row has been dumped exactly once (no loss / duplication at a chunk boundary, incl. buffersize ==
    nrows and nrows +- 1);
  * every chunk is sorted with the same key function and `reverse` flag the merge will use;
  * ownership (C18): each temporary file is created with delete=False in the requested tempdir and is wrapped by the
    delete-on-GC wrapper before anything that can raise is done with it.
T1 (list.sort is a stable sort = permutation ordered by key), T5 (heapq.merge / the shortlist merge) and T7 (pickle round
trip of a row) are trusted; the merge itself and the order of equal keys across chunks are carried by the bounded check."""
import z3
from pyvc.api import *
from pyvc.values import _t
from pyvc import smt, builtins as bi
from pyvc.interp import Opaque, PyExc, Instance
from pyvc.values import _t as _tt
from contracts import lib_base

S_ = 'petl.transform.sorts.'
QN = S_ + 'SortView._iternocache'


def install(it):
    ctx = it.ctx

    def hook(interp, fn, args, kwargs, node):
        name = fn.name
        if name.endswith('NamedTemporaryFile'):
            f = Opaque('tempfile', 'f', {'name': SCell(smt.fresh_v('tmpname'))})
            it.trace.append(('NamedTemporaryFile', f, dict(kwargs)))
            return f
        if name.endswith('pickle.dump'):
            it.trace.append(('dump', args[0], args[1], dict(kwargs)))
            return None
        if name.endswith('.flush'):
            it.trace.append(('flush', fn.attrs['self']))
            return None
        raise Unsupported('external call %s' % name)
    it.opaque_hook = hook

    def getkey_contract(interp, args, kw, node):
        return UCall('getkey', may_raise=False)
    it.summaries['petl.comparison.comparable_itemgetter'] = getkey_contract
    it.summaries.update(lib_base.SUMMARIES)


def make(cache):
    @vc('C05.iternocache.%s' % ('cache' if cache else 'nocache'), functions=[QN, S_ + 'SortView.__init__', S_ + '_NamedTempFileDeleteOnGC.__init__'],
        props=['C05', 'C11', 'C18'],
        assumptions=['T1 list.sort, T2 islice, T7 pickle (trusted builtin contracts)', 'requires buffersize is None or buffersize >= 1',
                     'contract of asindices; comparable_itemgetter seen as an uninterpreted key function',
                     'the k-way merge of the chunks (T5 + _Keyed) is not entered: decided by the bounded check'])
    def task(h):
        for bs_none in (False, True):
            def body(ctx, bs_none=bs_none):
                G = lambda: it.ghost['dumped'].t

                def delta_mem(ls, x, dout):
                    src = ls['it']
                    ctx.oblige('in-memory path: it is taken only when the whole source has been read into the buffer',
                               z3.And(src.pos == src.n, ls['rows'].len == src.n - 1))
                    ctx.oblige('in-memory path: each buffered (sorted) row is yielded exactly once, as a tuple',
                               z3.And(dout.len == 1, _t(row_eq(out_row(dout, 0), x))))

                def inv(ls):
                    src, rows = ls['it'], ls['rows']
                    return z3.And(G() >= 0, G() + rows.len == src.pos - 1, rows.len >= 0, rows.len <= B.t,
                                  z3.Implies(rows.len < B.t, src.pos == src.n), src.pos >= 1, src.pos <= src.n)

                def delta_dump(ls, x, dout):
                    new = it.trace[ls.trace_start:]
                    fs = [e[1] for e in it.trace if e[0] == 'NamedTemporaryFile']
                    f = fs[-1] if fs else None
                    ok = len(new) == 1 and new[0][0] == 'dump' and new[0][1] is x and new[0][2] is f
                    ctx.oblige('chunk: every buffered row is dumped exactly once to the current chunk file', z3.BoolVal(bool(ok)))
                    w = ls.env.vars.get('wrapper') if 'wrapper' in ls.env.vars else None
                    tf = [e for e in it.trace if e[0] == 'NamedTemporaryFile'][-1]
                    owned = isinstance(w, Instance) and w.cls.name == '_NamedTempFileDeleteOnGC' and w.attrs.get('name') is f.attrs['name']
                    ctx.oblige('chunk (C18): the temp file is created with delete=False in the requested tempdir and wrapped for deletion-on-GC before any row is dumped',
                               z3.BoolVal(bool(owned and tf[2].get('delete') is False and tf[2].get('dir') is tempdir and tf[2].get('mode') == 'wb')))
                    ctx.oblige('chunk: a chunk is never empty and never longer than buffersize', z3.And(ls['rows'].len >= 1, ls['rows'].len <= B.t))
                    ctx.oblige('chunk: the view\'s cache is not published while chunks are still being written (a failing source must not leave a partial cache)',
                               z3.BoolVal(view.attrs.get('_filecache') is None and view.attrs.get('_memcache') is None))

                def dump_exit(ls, count):
                    it.ghost['dumped'] = SInt(z3.simplify(it.ghost['dumped'].t + count))

                def at_exit(ls):
                    src = ls['it']
                    ctx.oblige('chunking conserves rows: when the loop ends every data row of the source has been dumped exactly once',
                               z3.And(src.pos == src.n, G() == src.n - 1))
                    sorts = [e for e in it.trace if e[0] == 'list.sort']
                    ctx.oblige('every chunk is sorted with the one key function and the caller\'s reverse flag',
                               z3.BoolVal(all(isinstance(e[2], UCall) and e[2].name == 'getkey' and e[3] is reverse for e in sorts) and len(sorts) >= 1))
                dump_spec = LoopSpec(delta=delta_dump, label='dump rows')
                dump_spec.on_exit = dump_exit
                wspec = LoopSpec(invariant=inv, label='while rows', extra_havoc=('it',), types={'chunkfiles': 'keep'})
                wspec.ghost = ('dumped',)
                wspec.stop_after = True
                wspec.at_exit = at_exit
                loops = {(QN, 0): LoopSpec(delta=delta_mem, label='in-memory rows'), (QN, 1): wspec, (QN, 2): dump_spec}
                it = h.interp(ctx, loops=loops)
                install(it)
                it.check_pulls = False       # sort is a blocking operator: excluded from C02 by the property
                it.ghost['dumped'] = SInt(z3.IntVal(0))
                it.load_module('petl.transform.sorts')
                S = sym_table(ctx, 'S', nmin=1)
                B = sym_int('buffersize')
                ctx.assume(B.t >= 1)
                key = sym_seq(ctx, 'key', 'tuple')
                ctx.assume(key.len >= 1)
                reverse = sym_bool('reverse')
                tempdir = sym_cell('tempdir')
                cls = closure_of(it, S_ + 'SortView')
                view = it.call(cls, [S, key], dict(reverse=reverse, buffersize=(None if bs_none else B), tempdir=tempdir, cache=cache))
                ctx.oblige('SortView: buffersize=None means petl.config.sort_buffersize, otherwise the argument; constructing reads nothing',
                           z3.BoolVal((view.attrs['buffersize'] == 100000 if bs_none else view.attrs['buffersize'] is B) and not getattr(S, 'iterators', [])))
                if bs_none:
                    B = SInt(z3.IntVal(100000))
                res = run_generator(it, cls.find('_iternocache')[0], [view, S, key, reverse])
                if res.exc is not None:
                    inloop = getattr(ctx, 'in_iteration', None)
                    ctx.oblige('_iternocache: only FieldSelectionError (unknown key field) escapes, before any data row',
                               z3.BoolVal(res.exc.kind == 'FieldSelectionError' and inloop is None))
                    return
                if getattr(ctx, 'after_loop', None) == 'in-memory rows' and cache:
                    ctx.oblige('in-memory path with cache=True: the cache holds the header and the sorted rows (stored after the sort)',
                               z3.BoolVal(view.attrs.get('_memcache') is res.env.lookup('rows') and view.attrs.get('_hdrcache') is res.env.lookup('hdr')))
                if getattr(ctx, 'after_loop', None) == 'in-memory rows' and not cache:
                    ctx.oblige('cache=False: nothing is cached', z3.BoolVal(view.attrs.get('_memcache') is None and view.attrs.get('_filecache') is None))
            h.explore(body)
    return task


make(True)
make(False)


# ------------------------------------------------------------------------------------------------ _Keyed
from contracts import lib_order
from contracts.lib_order import LT, EQ, CmpObj
from pyvc.interp import Instance as _Instance, BoundMethod as _BM


@vc('C05.Keyed', functions=[S_ + '_Keyed.__eq__', S_ + '_Keyed.__lt__', S_ + '_Keyed.__le__', S_ + '_Keyed.__ne__', S_ + '_Keyed.__gt__', S_ + '_Keyed.__ge__'],
    props=['C05', 'C11'],
    assumptions=['keys are Comparable objects (contract lib_order, discharged by C04.ladder)',
                 'T5: heapq.merge compares [value, run order, ...] entries: with == decided by the key alone, ties fall through to the run order (stable merge)'])
def keyed(h):
    def body(ctx):
        it = h.interp(ctx, summaries=lib_order.SUMMARIES)
        ctx.facts.extend(lib_order.ORDER_LAWS_CORE)
        ctx._order_laws = True
        cls = closure_of(it, S_ + '_Keyed')
        ka, kb = z3.Consts('ka kb', smt.V)
        ctx.assume(z3.And(lib_order.DOMAIN(ka), lib_order.DOMAIN(kb)))

        def mk(k, tag):
            o = _Instance(cls)
            o.attrs['key'] = CmpObj(k)
            o.attrs['obj'] = Opaque('row-' + tag)          # any use of the row by a comparison would be unsupported
            return o
        a, b = mk(ka, 'a'), mk(kb, 'b')
        spec = {'__eq__': EQ(ka, kb), '__ne__': z3.Not(EQ(ka, kb)), '__lt__': LT(ka, kb), '__le__': z3.Or(LT(ka, kb), EQ(ka, kb)),
                '__gt__': LT(kb, ka), '__ge__': z3.Not(LT(ka, kb))}
        for m, want in spec.items():
            f = cls.find(m)
            if f is None:
                ctx.oblige('_Keyed.%s is defined by the class (not inherited from tuple, which would compare the rows too)' % m, z3.BoolVal(False))
                continue
            r = it.call(_BM(f[0], a), [b], {})
            ctx.oblige('_Keyed.%s compares the keys only' % m, _t(r) == want)
    h.explore(body)
