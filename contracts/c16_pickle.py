"""C15 / C16 -- the pickle glue: _writepickle and TeePickleView issue the same events (one independent pickle.dump per
row on the opened file, same protocol, header iff write_header), so a consumed tee holds what topickle writes."""
import z3
from pyvc.api import *
from pyvc.values import _t
from pyvc import smt
from pyvc.interp import Opaque, PyExc

PK = 'petl.io.pickle.'


def install(it):
    ctx = it.ctx

    def ext_fail(what):
        if ctx.branch(smt.fresh_bool('io_fails'), 'the I/O call %s raises' % what):
            it.trace.append(('FAILED', what))
            raise PyExc('ExternalError', None, what)

    def hook(interp, fn, args, kwargs, node):
        name = fn.name
        if name == 'source.open':
            it.trace.append(('open', args[0] if args else None))
            ext_fail('open')
            return Opaque('file', 'f')
        if name.endswith('pickle.dump'):
            it.trace.append(('dump',) + tuple(args))
            ext_fail('dump')
            return None
        # any other external call (e.g. a shared pickle.Pickler): recorded as an event and judged by the trace obligations
        it.trace.append(('other:' + name,) + tuple(args))
        return Opaque('external-result', name)
    it.opaque_hook = hook
    src = Opaque('source', 'source')
    it.summaries['petl.io.sources.write_source_from_arg'] = lambda interp, args, kw, node: src
    return src


def row_dump_ok(tr, start, row, f, protocol):
    new = tr[start:]
    return len(new) == 1 and new[0][0] == 'dump' and new[0][1] is row and new[0][2] is f and new[0][3] is protocol


def common(h, qn, is_tee):
    for wh in (True, False):
        def body(ctx, wh=wh):
            st = {}

            def delta(ls, x, dout):
                f = [e[1] for e in it.trace if e[0] == 'with-enter'][0]
                ok = row_dump_ok(it.trace, ls.trace_start, x, f, protocol)
                goal = z3.BoolVal(ok)
                if is_tee:
                    goal = z3.And(goal, dout.len == 1, _t(row_eq(out_row(dout, 0), x)))
                ctx.oblige('%s: each data row: exactly one pickle.dump(row, f, protocol) of the row itself%s' % (qn.split('.')[-2] if is_tee else '_writepickle', ', yielded once unchanged' if is_tee else ''), goal)
            it = h.interp(ctx, loops={(qn, 0): LoopSpec(delta=delta, label='data rows')})
            install(it)
            it.load_module('petl.io.pickle')
            S = sym_table(ctx, 'S', nmin=1)
            protocol = sym_cell('protocol')
            exc = None
            if is_tee:
                cls = closure_of(it, PK + 'TeePickleView')
                view = it.call(cls, [S], dict(source=Opaque('arg', 'arg'), protocol=protocol, write_header=wh))
                res = run_generator(it, cls.find('__iter__')[0], [view])
                exc = res.exc
            else:
                try:
                    it.call(closure_of(it, qn), [S], dict(source=Opaque('arg', 'arg'), mode='wb', protocol=protocol, write_header=wh))
                except PyExc as e:
                    exc = e
            tr = it.trace
            names = [e[0] for e in tr]
            if 'with-enter' in names:
                ctx.oblige('pickle: the file is closed on every exit and nothing is dumped after that', z3.BoolVal('with-exit' in names and names.index('with-exit') == len(names) - 1))
            if exc is not None:
                ctx.oblige('pickle: only I/O errors escape', z3.BoolVal(exc.kind == 'ExternalError'))
                return
            if getattr(ctx, 'after_loop', None):
                f = [e[1] for e in tr if e[0] == 'with-enter'][0]
                dumps = [e for e in tr if e[0] == 'dump']
                okh = (len(dumps) == 1 and dumps[0][2] is f and dumps[0][3] is protocol) if wh else len(dumps) == 0
                ctx.oblige('pickle: open(\'wb\') once; the header is dumped (same file, same protocol) iff write_header',
                           z3.BoolVal(okh and names.count('open') == 1 and tr[names.index('open')][1] == 'wb'))
                if is_tee:
                    pre = ctx.pre_loop_out
                    ctx.oblige('TeePickleView: the header is yielded once, nothing after the last row',
                               z3.And(pre.len == 1, _t(row_eq(out_row(pre, 0), src_row(S, 0))), ctx.out.len == 0))
        h.explore(body)


@vc('C15.writepickle', functions=[PK + '_writepickle'], props=['C15', 'C16'],
    assumptions=['T7: pickle.load(pickle.dump(x)) == x; one independent dump per row (no shared Pickler memo)', 'stateless-body rule'])
def writepickle(h):
    common(h, PK + '_writepickle', False)


@vc('C16.TeePickleView', functions=[PK + 'TeePickleView.__iter__', PK + 'TeePickleView.__init__'], props=['C16', 'C15'],
    assumptions=['T7', 'tee trace compared with the trace contract of _writepickle: same events per row', 'stateless-body rule'])
def teepickle(h):
    common(h, PK + 'TeePickleView.__iter__', True)


@vc('C15.PickleView', functions=[PK + 'PickleView.__iter__'], props=['C15', 'C02'],
    assumptions=['T7: successive pickle.load(f) calls return the records of the file in order and raise EOFError after the last one',
                 'while-loop invariant rule with a ghost record counter'])
def pickleview(h):
    """frompickle: one row per pickled record, in file order, each loaded only when it is requested (C02); the file is closed
    on every exit; EOFError ends the table and nothing else is swallowed."""
    def body(ctx):
        box = {'pos': z3.IntVal(0), 'yields': []}
        recs = sym_table(ctx, 'RECS', nmin=0)
        qn = PK + 'PickleView.__iter__'

        def hook(interp, fn, args, kwargs, node):
            name = fn.name
            if name == 'source.open':
                it.trace.append(('open', args[0] if args else None))
                return Opaque('file', 'f')
            if name.endswith('pickle.load'):
                it.trace.append(('load', args[0]))
                if ctx.branch(box['pos'] < recs.n, 'another record'):
                    r = SCell(z3.Select(recs.rows, box['pos']))
                    box['pos'] = z3.simplify(box['pos'] + 1)
                    return r
                raise PyExc('EOFError', None, interp.where(node))
            raise Unsupported('external call %s' % name)

        def rebind(ls):
            p = smt.fresh_int('p')
            ctx.assume(z3.And(0 <= p, p <= recs.n))
            box['pos'] = p
            box['p0'] = p
            box['yields'] = []
            box['loads0'] = len([e for e in it.trace if e[0] == 'load'])

        def after(ls):
            ys = box['yields']
            loads = len([e for e in it.trace if e[0] == 'load']) - box['loads0']
            ok = len(ys) == 1 and isinstance(ys[0], Seq)
            ctx.oblige('PickleView: each step loads exactly ONE record and yields it once, as a tuple of itself, in file order',
                       z3.And(z3.BoolVal(bool(ok) and loads == 1), box['pos'] == box['p0'] + 1,
                              _t(row_eq(ys[0], src_row(recs, box['p0']))) if ok else z3.BoolVal(False)))
        spec = LoopSpec(invariant=lambda ls: z3.BoolVal(True), label='records')
        spec.rebind = rebind
        spec.after_body = after
        it = h.interp(ctx, loops={(qn, 0): spec})
        it.opaque_hook = hook
        it.on_yield = lambda v, node: box['yields'].append(v)
        it.load_module('petl.io.pickle')
        cls = closure_of(it, PK + 'PickleView')
        view = it.call(cls, [Opaque('source', 'source')], {})
        res = run_generator(it, cls.find('__iter__')[0], [view])
        names = [e[0] for e in it.trace]
        if res.exc is not None:
            ctx.oblige('PickleView: never raises', z3.BoolVal(False), res.exc.origin or '')
            return
        ctx.oblige('PickleView: the pass ends exactly when the records are exhausted (EOFError from the load after the last one); the file is closed',
                   z3.And(box['pos'] == recs.n, z3.BoolVal('with-exit' in names and names.index('with-exit') == len(names) - 1)))
    h.explore(body)
