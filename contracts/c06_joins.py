"""C06 -- sort-merge joins, the row-assembly half: output header and `joinrows` of iterjoin (real AST, closure taken from
the executed prologue), for ALL groups of rows:
  joinrows(L, None)  = every left row padded with `missing` x (number of right non-key fields)          (left outer)
  joinrows(None, R)  = `missing` x len(left header), the key cells copied to the LEFT key positions, then the right
                       row's non-key cells                                                               (right outer)
  joinrows(L, R)     = the cross product, left-major: left row followed by the right row's non-key cells (match)
and the header = (prefixed) left fields ++ (prefixed) right non-key fields.
Which groups are paired by the merge loop (the relational "equal keys, each exactly once" half) is NOT proved: the merge
loops over itertools.groupby are decided by the bounded check only (and their zero-row instance by C20)."""
import z3
from pyvc.api import *
from pyvc.values import _t
from pyvc import smt, builtins as bi
from contracts import lib_order

J = 'petl.transform.joins.'


def rv(env):
    r = env.lookup('rvind')
    return view_seq(r) if not isinstance(r, Seq) else r


def make(mode):
    @vc('C06.joinrows.' + mode, functions=[J + 'iterjoin'], props=['C06', 'C03'],
        assumptions=['single key field given by name on each side (lkey=\'a\', rkey=\'b\'); rows rectangular (the view stacks both sides first)',
                     'header-only tables are used to run the prologue; joinrows is then called on arbitrary symbolic groups',
                     'nested stateless-body rule (engine meta-theorem)'])
    def joinrows(h):
        def body(ctx, mode=mode):
            box = {}

            def lrow_of(ls):
                return view_seq(ls['lrow'])

            def d_left(ls, x, dout):          # loop 0: for lrow in _lrowgrp   (right is None)
                lrow = view_seq(x)
                q = smt.fresh_int('q')
                o = out_row(dout, 0)
                n_rv = rv(ls.env).len
                ctx.oblige('joinrows(L, None): each left row once, padded with `missing` for every right non-key field',
                           z3.And(dout.len == 1, o.len == lrow.len + n_rv,
                                  z3.ForAll([q], z3.Implies(z3.And(0 <= q, q < o.len), z3.Select(o.arr, q) == z3.If(q < lrow.len, z3.Select(lrow.arr, q), as_v(missing))))))

            def d_right(ls, x, dout):         # loop 1: for rrow in _rrowgrp   (left is None)
                rrow = view_seq(x)
                q = smt.fresh_int('q')
                o = out_row(dout, 0)
                r_ = rv(ls.env)
                li = smt.ival(as_v(ls.env.lookup('lkind').items[0]))
                ri = smt.ival(as_v(ls.env.lookup('rkind').items[0]))
                nl = src_row(L, 0).len
                iv = lambda j: smt.ival(z3.Select(r_.arr, j))
                ctx.oblige('joinrows(None, R): `missing` in every left position except the key cell copied to the LEFT key position, then the right non-key cells',
                           z3.And(dout.len == 1, o.len == nl + r_.len,
                                  z3.ForAll([q], z3.Implies(z3.And(0 <= q, q < o.len),
                                                            z3.Select(o.arr, q) == z3.If(q < nl, z3.If(q == li, z3.Select(rrow.arr, ri), as_v(missing)),
                                                                                         z3.Select(rrow.arr, iv(q - nl)))))))

            def d_both_inner(ls, x, dout):    # loop 3: for rrow in _rrowgrp inside loop 2: for lrow in _lrowgrp
                rrow, lrow = view_seq(x), lrow_of(ls)
                q = smt.fresh_int('q')
                o = out_row(dout, 0)
                r_ = rv(ls.env)
                iv = lambda j: smt.ival(z3.Select(r_.arr, j))
                ctx.oblige('joinrows(L, R): one row per (left row, right row) pair, left-major: the left row then the right non-key cells',
                           z3.And(dout.len == 1, o.len == lrow.len + r_.len,
                                  z3.ForAll([q], z3.Implies(z3.And(0 <= q, q < o.len),
                                                            z3.Select(o.arr, q) == z3.If(q < lrow.len, z3.Select(lrow.arr, q), z3.Select(rrow.arr, iv(q - lrow.len)))))))

            def d_both_outer(ls, x, dout):
                pass
            loops = {(J + 'iterjoin', 0): LoopSpec(delta=d_left, label='left group'), (J + 'iterjoin', 1): LoopSpec(delta=d_right, label='right group'),
                     (J + 'iterjoin', 3): LoopSpec(delta=d_both_outer, label='left group x'), (J + 'iterjoin', 4): LoopSpec(delta=d_both_inner, label='right group x')}
            it = h.interp(ctx, loops=loops, summaries=lib_order.SUMMARIES)
            it.overapprox_filters = True
            it.check_pulls = False
            L, R = fixed_table(ctx, 'L', 1), fixed_table(ctx, 'R', 1)
            missing = sym_cell('missing')
            fn = closure_of(it, J + 'iterjoin')
            res = run_generator(it, fn, [L, R, 'a', 'b', True, True, missing, None, None])
            if res.exc is not None:
                ctx.oblige('iterjoin prologue: only FieldSelectionError escapes', z3.BoolVal(res.exc.kind == 'FieldSelectionError'), res.exc.origin or '')
                return
            env = res.env
            # header: left fields then right non-key fields
            o = out_row(res.out, 0)
            lh, rh, r_ = src_row(L, 0), src_row(R, 0), rv(env)
            q = smt.fresh_int('q')
            iv = lambda j: smt.ival(z3.Select(r_.arr, j))
            ctx.oblige('iterjoin: header = left fields followed by the right non-key fields',
                       z3.And(res.out.len == 1, o.len == lh.len + r_.len,
                              z3.ForAll([q], z3.Implies(z3.And(0 <= q, q < o.len), z3.Select(o.arr, q) == z3.If(q < lh.len, z3.Select(lh.arr, q), z3.Select(rh.arr, iv(q - lh.len)))))))
            rk = smt.ival(as_v(env.lookup('rkind').items[0]))
            ctx.oblige('iterjoin: the right non-key fields are positions of the right header other than the key', z3.ForAll([q], z3.Implies(z3.And(0 <= q, q < r_.len), z3.And(0 <= iv(q), iv(q) < rh.len))))
            # arbitrary groups: rectangular rows of the two tables
            def group(name, width):
                g = sym_seq(ctx, name, 'list', 'Fresh')
                j = smt.fresh_int('g')
                ctx.facts.append(z3.ForAll([j], smt.seq_len(z3.Select(g.arr, j)) == width))
                return g
            jr = env.lookup('joinrows')
            args = {'left-only': [group('LG', lh.len), None], 'right-only': [None, group('RG', rh.len)], 'both': [group('LG', lh.len), group('RG', rh.len)]}[mode]
            res2 = run_generator(it, jr, args)
            if res2.exc is not None:
                ctx.oblige('joinrows: never raises on rectangular groups', z3.BoolVal(False), res2.exc.origin or '')
        h.explore(body)
    return joinrows


for _m in ('left-only', 'right-only', 'both'):
    make(_m)


# ------------------------------------------------------------------------------------------------ key argument resolution
@vc('C06.keys_from_args', functions=[J + 'keys_from_args'], props=['C06', 'C07'],
    assumptions=['natural_key through a recording summary (its filter over the two headers is decided by the bounded check)'])
def keys_from_args(h):
    """key= gives both sides the same key; lkey= and rkey= together give each side its own; nothing at all asks for the natural key
    (ONE computation, used for both sides); every other combination is an ArgumentError -- never a silent guess."""
    import itertools as _it
    for kg, lg, rg in _it.product((False, True), repeat=3):
        def body(ctx, kg=kg, lg=lg, rg=rg):
            it = h.interp(ctx)
            calls = []
            nat = sym_cell('natural')
            it.summaries[J + 'natural_key'] = lambda interp, args, kw, node: (calls.append(list(args)), nat)[1]
            L, R = Opaque('table', 'left'), Opaque('table', 'right')
            vals = {}
            for nm, given in (('key', kg), ('lkey', lg), ('rkey', rg)):
                if given:
                    c = sym_cell(nm)
                    ctx.assume(smt.cls(c.t) != smt.NONE)
                    vals[nm] = c
                else:
                    vals[nm] = None
            try:
                r = it.call(closure_of(it, J + 'keys_from_args'), [L, R, vals['key'], vals['lkey'], vals['rkey']], {})
            except PyExc as e:
                legal = (not kg and not lg and not rg) or (kg and not lg and not rg) or (not kg and lg and rg)
                ctx.oblige('keys_from_args: ArgumentError exactly for the ambiguous / incomplete combinations', z3.BoolVal(e.kind == 'ArgumentError' and not legal))
                return
            if not kg and not lg and not rg:
                ok = isinstance(r, tuple) and r[0] is nat and r[1] is nat and calls == [[L, R]]
                what = 'no key arguments: the natural key of (left, right), computed once, for both sides'
            elif kg and not lg and not rg:
                ok = isinstance(r, tuple) and r[0] is vals['key'] and r[1] is vals['key'] and not calls
                what = 'key=: that key for both sides'
            elif not kg and lg and rg:
                ok = isinstance(r, tuple) and r[0] is vals['lkey'] and r[1] is vals['rkey'] and not calls
                what = 'lkey= and rkey=: each side its own key, not swapped'
            else:
                ok, what = False, 'an ambiguous combination must raise'
            ctx.oblige('keys_from_args: ' + what, z3.BoolVal(bool(ok)))
        h.explore(body)


@vc('C06.natural_key', functions=[J + 'natural_key'], props=['C06', 'C07'],
    assumptions=['T6: a filtering comprehension is the order-preserving subsequence of the elements that satisfy the condition (exact model: index map + inverse)',
                 'header() reads the header row only'])
def natural_key(h):
    """natural_key(left, right): the left field names that also occur among the right field names, in LEFT order (all of them, each
    once per occurrence on the left); a single common field is returned as itself, not as a list; none at all is an error."""
    def body(ctx):
        it = h.interp(ctx)
        it.exact_filters = True
        L, R = sym_table(ctx, 'L', nmin=1), sym_table(ctx, 'R', nmin=1)
        rows_are_sequences(ctx, L); rows_are_sequences(ctx, R)
        try:
            r = it.call(closure_of(it, J + 'natural_key'), [L, R], {})
        except PyExc as e:
            ctx.oblige('natural_key: only AssertionError (no fields in common) escapes', z3.BoolVal(e.kind == 'AssertionError'), e.origin or '')
            return
        pulled = [i.pos for t in (L, R) for i in getattr(t, 'iterators', [])]
        ctx.oblige('natural_key: reads the two header rows and nothing else', z3.And([p <= 1 for p in pulled] + [z3.BoolVal(len(pulled) == 2)]))
        lh, rh = src_row(L, 0), src_row(R, 0)
        S = lambda v: bi._strf(v)
        w = smt.fresh_int('w')
        inR = lambda v: z3.Exists([w], z3.And(0 <= w, w < rh.len, smt.py_eq(S(z3.Select(rh.arr, w)), v)))
        if isinstance(r, Seq):
            idx, inv = r.filter_of
            q, p = smt.fresh_int('q'), smt.fresh_int('p')
            ctx.oblige('natural_key (several common fields): every element is the name of a left field that occurs on the right, in strictly increasing left position',
                       z3.And(r.len >= 2, z3.ForAll([q], z3.Implies(z3.And(0 <= q, q < r.len),
                                                                   z3.And(0 <= idx(q), idx(q) < lh.len, z3.Select(r.arr, q) == S(z3.Select(lh.arr, idx(q))), inR(z3.Select(r.arr, q)))))))
            ctx.oblige('natural_key (several common fields): no common field is left out',
                       z3.ForAll([p], z3.Implies(z3.And(0 <= p, p < lh.len, inR(S(z3.Select(lh.arr, p)))), z3.And(0 <= inv(p), inv(p) < r.len, idx(inv(p)) == p))))
        else:
            v = as_v(r)
            p = smt.fresh_int('p')
            ctx.oblige('natural_key (one common field): the result is that field name itself: the only left field that occurs on the right',
                       z3.And(inR(v), z3.Exists([p], z3.And(0 <= p, p < lh.len, v == S(z3.Select(lh.arr, p))))))
    h.explore(body)


@vc('C06.itercrossjoin', functions=[J + 'itercrossjoin'], props=['C06', 'C03'],
    assumptions=['T2: itertools.product yields every combination of one row per table, first table slowest (order and count are its contract)',
                 'data(t) = the rows of t after the header (summary; iterdata is under contract in C14.FlattenView)', 'two tables; no prefix',
                 'stateless-body rule over the product'])
def itercrossjoin(h):
    """crossjoin(a, b): header = both headers side by side; every pair (row of a, row of b) yields exactly one row: the two rows side
    by side, unchanged -- so len(a) * len(b) rows, a-major."""
    from pyvc.interp import SrcIter

    def body(ctx):
        def delta(ls, x, dout):
            ra, rb = view_seq(x[0]), view_seq(x[1])
            o = out_row(dout, 0)
            q = smt.fresh_int('q')
            ctx.oblige('itercrossjoin: a pair of rows yields one row: the left row followed by the right row, cells unchanged',
                       z3.And(dout.len == 1, o.len == ra.len + rb.len,
                              z3.ForAll([q], z3.Implies(z3.And(0 <= q, q < o.len), z3.Select(o.arr, q) == z3.If(q < ra.len, z3.Select(ra.arr, q), z3.Select(rb.arr, q - ra.len))))))
        it = h.interp(ctx, loops={(J + 'itercrossjoin', 1): LoopSpec(delta=delta, label='pairs of rows')})
        it.check_pulls = False
        A, B_ = sym_table(ctx, 'A', nmin=1), sym_table(ctx, 'B', nmin=1)
        rows_are_sequences(ctx, A); rows_are_sequences(ctx, B_)

        def data_summary(interp, args, kw, node):
            t = args[0]
            s = SrcIter(t.rows, t.n, 'data(%s)' % t.name)
            s.pos = z3.IntVal(1)
            return s
        it.summaries['petl.util.base.data'] = data_summary
        res = run_generator(it, closure_of(it, J + 'itercrossjoin'), [PyList([A, B_], 'list'), False])
        if res.exc is not None:
            ctx.oblige('itercrossjoin: never raises', z3.BoolVal(False), res.exc.origin or '')
            return
        if getattr(ctx, 'after_loop', None):
            pre = ctx.pre_loop_out
            o = out_row(pre, 0)
            ha, hb = src_row(A, 0), src_row(B_, 0)
            q = smt.fresh_int('q')
            ctx.oblige('itercrossjoin: header = the two headers side by side, once; nothing after the last pair',
                       z3.And(pre.len == 1, o.len == ha.len + hb.len, res.out.len == 0,
                              z3.ForAll([q], z3.Implies(z3.And(0 <= q, q < o.len), z3.Select(o.arr, q) == z3.If(q < ha.len, z3.Select(ha.arr, q), z3.Select(hb.arr, q - ha.len))))))
    h.explore(body)
