"""Contracts of petl.util.base helpers as their callers see them (modular verification).
asindices: proved against the real function by tasks C12.asindices.* (contracts/c12_transforms.py)."""
import z3
from pyvc import smt
from pyvc.smt import V
from pyvc.values import SInt, SBool, SCell, Seq, PyList, as_v, view_seq, _t, Unsupported
from pyvc.interp import PyExc

ASI = 'petl.util.base.asindices'


def asindices_contract(interp, args, kwargs, node):
    """asindices(hdr, spec) for a spec with a SYMBOLIC number of items.
    ensures: either FieldSelectionError, or a fresh list `r` with len(r) = len(spec) and for every j:
             r[j] is an int, r[j] < len(hdr), and r[j] >= 0 unless spec[j] itself is a negative int
             (requires below excludes negative ints, so 0 <= r[j] < len(hdr))."""
    hdr, spec = args
    hs = view_seq(hdr)
    if isinstance(spec, Seq) or (isinstance(spec, SCell)):
        sp = view_seq(spec)
    else:
        # a concrete selection (a name, an index, a literal tuple): run the real function
        real = interp.load_module('petl.util.base').env.vars['asindices']
        return interp.call_closure(real, args, kwargs, node)
    ctx = interp.ctx
    if ctx.branch(smt.fresh_bool('asindices_fails'), 'asindices: some field cannot be resolved'):
        raise PyExc('FieldSelectionError', None, interp.where(node) if node is not None else None)
    r = Seq(smt.fresh_arr('indices'), sp.len, 'list', 'Fresh')
    j = smt.fresh_int('j')
    iv = lambda jj: smt.ival(z3.Select(r.arr, jj))
    ctx.facts.append(z3.ForAll([j], z3.Implies(z3.And(0 <= j, j < r.len),
                                               z3.And(smt.is_int(z3.Select(r.arr, j)), 0 <= iv(j), iv(j) < hs.len,
                                                      z3.Select(r.arr, j) == smt.mkint(iv(j))))))
    return r


SUMMARIES = {ASI: asindices_contract}
