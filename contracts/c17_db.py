"""C17 -- database loads are all-or-nothing: commit ordering as a typestate property of the effect trace, on EVERY path
through todb / appenddb / _todb / _todb_dbapi_* with every external call and the source allowed to fail (DESIGN 2.6)."""
import z3
from pyvc.api import *
from pyvc import smt, builtins as bi
from pyvc.interp import Opaque, PyExc, SrcIter, EXC_PARENTS

DB = 'petl.io.db.'
EXC_PARENTS.setdefault('SourceError', 'Exception')
METHODS = {'connection': {'cursor', 'commit', 'close', 'rollback'},
           'cursor': {'execute', 'executemany', 'fetchone', 'fetchmany', 'fetchall', 'close'}}


class DBObj(Opaque):
    def __init__(self, kind, name, attrs=None):
        Opaque.__init__(self, kind, name, attrs)
        self.methods = METHODS[kind]


def install(it, may_fail_db=True):
    ctx = it.ctx
    counter = {'cursor': 0}

    def ext_fail(what):
        if may_fail_db and ctx.branch(smt.fresh_bool('db_fails'), 'the database call %s raises' % what):
            it.trace.append(('FAILED', what))
            raise PyExc('ExternalError', None, what)

    def hook(interp, fn, args, kwargs, node):
        name = fn.name
        if name == 'sqlite3.connect':
            it.trace.append(('sqlite3', 'connect', tuple(sorted(kwargs))))
            ext_fail('connect')
            conn = DBObj('connection', 'conn(file)')
            it.opened = conn
            return conn
        selfobj = fn.attrs.get('self')
        meth = name.rsplit('.', 1)[-1]
        if isinstance(selfobj, DBObj) and selfobj.kind == 'connection':
            if meth == 'cursor':
                it.trace.append((selfobj, 'cursor'))
                ext_fail('cursor()')
                counter['cursor'] += 1
                return DBObj('cursor', 'cursor#%d' % counter['cursor'], {'connection': selfobj})
            it.trace.append((selfobj, meth))
            if meth != 'close':
                ext_fail(meth)
            return None
        if isinstance(selfobj, DBObj) and selfobj.kind == 'cursor':
            conn = selfobj.attrs['connection']
            if meth == 'executemany':
                src = args[1]
                if not isinstance(src, SrcIter):
                    raise Unsupported('executemany over %r' % (src,))
                if ctx.branch(smt.fresh_bool('source_fails_in_load'), 'the source raises while rows are loaded (any row, or at exhaustion)'):
                    it.trace.append((conn, 'executemany-aborted-by-source', selfobj))
                    raise PyExc('SourceError', None, 'during executemany')
                it.trace.append((conn, 'executemany', selfobj))
                ext_fail('executemany')
                src.pos = src.n
                it.trace.append((conn, 'executemany-complete', selfobj))
                return None
            it.trace.append((conn, meth, selfobj, args[0] if args else None))
            if meth != 'close':
                ext_fail(meth)
            return None
        raise Unsupported('external call %s' % name)
    it.opaque_hook = hook


def summaries():
    def quote(interp, args, kw, node):
        return SCell(z3.Function('sql_quote', smt.V, smt.V)(as_v(args[0])))

    def placeholders(interp, args, kw, node):
        return SCell(smt.fresh_v('placeholders'))
    no = lambda interp, args, kw, node: False
    return {'petl.io.db_utils._quote': quote, 'petl.io.db_utils._placeholders': placeholders,
            'petl.io.db_utils._is_clikchouse_dbapi_connection': no}


def judge(ctx, it, exc, commit_flag, truncate, owned, label, source_failed_at_header=False):
    tr = it.trace
    conn_events = [e for e in tr if isinstance(e[0], DBObj)]
    commits = [i for i, e in enumerate(tr) if isinstance(e[0], DBObj) and e[1] == 'commit']
    stmts = [i for i, e in enumerate(tr) if isinstance(e[0], DBObj) and e[1] in ('execute', 'executemany', 'executemany-aborted-by-source')]
    done = [i for i, e in enumerate(tr) if isinstance(e[0], DBObj) and e[1] == 'executemany-complete']
    O = lambda name, ok: ctx.oblige('%s: %s' % (label, name), z3.BoolVal(bool(ok)), kind='typestate')
    O('nothing is committed when an exception escapes (source or database failure at any point)', not (exc is not None and commits) or
      (exc is not None and exc.kind == 'ExternalError' and ('FAILED', 'commit') in tr))
    O('commit=False never commits', commit_flag or not commits)
    O('at most one commit, only after executemany returned normally, and no statement after it',
      len(commits) <= 1 and all(done and done[-1] < c for c in commits) and all(s < c for c in commits for s in stmts))
    conns = set(id(tr[i][0]) for i in stmts + commits)
    O('the DELETE, the inserts and the commit all go to one connection (one transaction)', len(conns) <= 1)
    O('a normal return with commit=True has committed the load', not (exc is None and commit_flag) or len(commits) == 1)
    deletes = [i for i in stmts if tr[i][1] == 'execute']
    O('todb deletes the old rows before inserting, appenddb never deletes',
      (len(deletes) == (1 if truncate else 0) or exc is not None) and len(deletes) <= (1 if truncate else 0) and all(d < s for d in deletes for s in stmts if tr[s][1] != 'execute'))
    if owned:
        opened = getattr(it, 'opened', None)
        connects = [e for e in tr if e[0] == 'sqlite3']
        O('a connection opened by petl from a file name is opened in the default (transactional) mode', all(e[2] == () for e in connects))
        O('a connection opened by petl is closed last on every path', opened is None or (tr and tr[-1][0] is opened and tr[-1][1] == 'close' and len(tr[-1]) == 2) or
          (tr[-1] == ('FAILED', 'connect')))
    else:
        O('a handle passed by the caller is never closed', not any(e[1] == 'close' and len(e) == 2 for e in conn_events))
    if exc is not None and exc.kind == 'SourceError' and getattr(exc, 'source_pos', None) is not None:
        O('the header is read before any statement is issued (a source failing at the header leaves the database untouched)', not stmts)


def run_case(h, entry, handle, commit_flag, label, truncate):
    def body(ctx):
        it = h.interp(ctx, summaries=summaries())
        install(it)
        it.load_module('petl.io.db')
        S = sym_table(ctx, 'S', nmin=0)
        S.may_fail = True
        conn = DBObj('connection', 'conn(caller)')
        if handle == 'file':
            dbo = 'some.db'
        elif handle == 'connection':
            dbo = conn
        elif handle == 'cursor':
            dbo = DBObj('cursor', 'cursor(caller)', {'connection': conn})
        else:
            class MkCurs(object):
                pass

            def mk(interp, args, kw, node):
                it.trace.append((conn, 'cursor'))
                return DBObj('cursor', 'cursor(mk)', {'connection': conn})
            from pyvc.interp import Builtin
            dbo = Builtin('mkcurs', mk)
        # the source table: iter(S) must produce an iterator that may fail
        orig_get_iter = bi.get_iter

        fn = closure_of(it, DB + entry)
        exc = None
        try:
            it.call(fn, [FailingTable(S), dbo, 'tbl'], {'commit': commit_flag})
        except PyExc as e:
            exc = e
        judge(ctx, it, exc, commit_flag, truncate, handle == 'file', label)
    h.explore(body)


class FailingTable(object):
    """a table whose iterator may raise at any next() (header, any row, exhaustion)"""

    def __init__(self, t):
        self.t = t


_orig_get_iter = bi.get_iter


def _get_iter(interp, v, node=None):
    if isinstance(v, FailingTable):
        it = _orig_get_iter(interp, v.t, node)
        it.may_fail = True
        return it
    return _orig_get_iter(interp, v, node)


bi.get_iter = _get_iter
import pyvc.machine as _m


for _entry, _trunc in (('todb', True), ('appenddb', False)):
    for _handle in ('file', 'connection', 'cursor', 'mkcurs'):
        for _commit in (True, False):
            def _mk(entry=_entry, trunc=_trunc, handle=_handle, commit=_commit):
                label = '%s(%s, commit=%s)' % (entry, handle, commit)

                @vc('C17.%s.%s.%s' % (entry, handle, 'commit' if commit else 'nocommit'),
                    functions=[DB + entry, DB + '_todb', DB + {'file': '_todb_dbapi_connection', 'connection': '_todb_dbapi_connection',
                                                               'cursor': '_todb_dbapi_cursor', 'mkcurs': '_todb_dbapi_mkcurs'}[handle]],
                    props=['C17'],
                    assumptions=['T8 (DB-API): statements are invisible to other connections until commit(); closing an sqlite3 connection discards uncommitted work',
                                 'assumed contracts (bounded-checked only): _quote, _placeholders; create=False (drop_table/create_table not entered)',
                                 'every external call (connect, cursor, execute, executemany, close, commit) and every next() on the source may raise'])
                def task(h):
                    run_case(h, entry, handle, commit, label, trunc)
            _mk()
