"""C01 / C18 -- DictsGeneratorView.__iter__ (fromdicts on a generator: rows are spilled to one shared temporary file and
later passes / slower iterators are served from it) by rely/guarantee, for ANY number of live iterators and ANY schedule.

Shared state: the generator of dicts (consumed once, by whoever gets there first), the spill file (contents AND file
position are shared by all iterators), `_cached` (end of the spilled region).  Abstraction of the file (T7): a sequence of
pickled records; positions are counted in records (tell() after the i-th dump is "i"; seek(tell-value) + load returns that
record and leaves the position at the next one).  Because the proof shows that a record is only ever written at the END of
the spilled region (obligation "append only"), no record is ever overwritten, so record sizes never matter.

  Invariant I:  _cached == c == number of dicts consumed from the generator == number of records;
                record i == the row made from dict i (header projection), for every i < c
  Rely  (other iterators, while this one is suspended at a yield): keep I, only append (c grows, records [0, c) unchanged);
        the FILE POSITION MAY BE ANYTHING afterwards.
  Guarantee: the same, for every atomic section of this iterator (checked at every yield and at the end).
  Result: the iterator yields the header, then row(dict 0), row(dict 1), ... row(dict N-1): every pass, whatever the others do."""
import z3
from pyvc.api import *
from pyvc.values import _t
from pyvc import smt, builtins as bi
from pyvc.smt import V
from pyvc.interp import Opaque, PyExc, SrcIter

QN = 'petl.io.json.DictsGeneratorView.__iter__'
GET = z3.Function('meth_get_2', V, V, V, V)
GET_OK = z3.Function('meth_get_2_ok', V, V, V, z3.BoolSort())


def make(first):
    @vc('C18.DictsGeneratorView.rg.%s' % ('first' if first else 'later'), functions=[QN], props=['C18', 'C01'],
        assumptions=['T7: the spill file is a sequence of records addressed by tell() values (see module docstring)',
                     'the dicts support .get (deterministic); the header is known (given or determined by an earlier iterator)',
                     'rely/guarantee with guarantee == rely; interference only at yield points'])
    def task(h):
        def body(ctx):
            box = {'fp': smt.fresh_int('fp0'), 'F': smt.fresh_arr('F0')}
            ND = smt.fresh_int('ND')
            Dd = smt.fresh_arr('D')
            ctx.assume(ND >= 0)
            hdr = ('a', 'b')
            missing = sym_cell('missing')
            d_, f_, m_ = z3.Consts('d!g f!g m!g', V)
            ctx.facts.append(z3.ForAll([d_, f_, m_], GET_OK(d_, f_, m_)))

            def is_row_of(v, d):
                """v is the row the code builds from dict d: (d.get('a', missing), d.get('b', missing))"""
                return z3.And([smt.seq_len(v) == len(hdr)] +
                              [z3.Select(smt.seq_arr(v), q) == GET(d, as_v(f), missing.t) for q, f in enumerate(hdr)])

            gen = SrcIter(Dd, ND, 'dicts-generator')

            def I(c, F, cached):
                i = smt.fresh_int('i')
                return z3.And(0 <= c, c <= ND, cached == c,
                              z3.ForAll([i], z3.Implies(z3.And(0 <= i, i < c), is_row_of(z3.Select(F, i), z3.Select(Dd, i)))))

            def cur():
                return gen.pos, box['F'], _t(view.attrs['_cached'])

            def arbitrary(tag, after=None):
                c, F = smt.fresh_int('c_' + tag), smt.fresh_arr('F_' + tag)
                ctx.assume(I(c, F, c))
                if after is not None:
                    c0, F0, _ = after
                    i = smt.fresh_int('i')
                    ctx.assume(z3.And(c >= c0, z3.ForAll([i], z3.Implies(z3.And(0 <= i, i < c0), z3.Select(F, i) == z3.Select(F0, i)))))
                gen.pos = c
                box['F'] = F
                box['fp'] = smt.fresh_int('fp_' + tag)          # wherever the others left the shared file position
                view.attrs['_cached'] = SInt(c)
                box['last'] = (c, F)

            def guarantee(where):
                c, F, cached = cur()
                c0, F0 = box['last']
                i = smt.fresh_int('i')
                ctx.oblige('DictsGeneratorView guarantee (%s): _cached == dicts consumed == records spilled, record i is the row of dict i, '
                           'earlier records untouched' % where,
                           z3.And(I(c, F, cached), c >= c0,
                                  z3.ForAll([i], z3.Implies(z3.And(0 <= i, i < c0), z3.Select(F, i) == z3.Select(F0, i)))))

            def on_yield(v, node):
                box['yielded'] = v
                guarantee('at a yield')
                arbitrary('y', after=cur())

            def hook(interp, fn, args, kwargs, node):
                name = fn.name
                if name.endswith('NamedTemporaryFile'):
                    ctx.oblige('DictsGeneratorView: the spill file is private: NamedTemporaryFile(delete=False) opened read/write binary',
                               z3.BoolVal(kwargs.get('delete') is False and kwargs.get('mode') == 'wb+'))
                    box['fp'] = z3.IntVal(0)
                    return Opaque('file', 'spill')
                if name.endswith('.seek'):
                    box['fp'] = to_int_(args[0])
                    return None
                if name.endswith('.tell'):
                    return SInt(box['fp'])
                if name.endswith('pickle.load'):
                    fp = box['fp']
                    ctx.oblige('DictsGeneratorView: a record is read only inside the spilled region', z3.And(0 <= fp, fp < gen.pos))
                    box['fp'] = fp + 1
                    return SCell(z3.Select(box['F'], fp))
                if name.endswith('pickle.dump'):
                    fp = box['fp']
                    ctx.oblige('DictsGeneratorView: append only -- a record is written exactly at the end of the spilled region '
                               '(the shared file position is re-established first), never over an earlier record',
                               fp == gen.pos - 1)      # the dict being spilled has just been taken: records so far = gen.pos - 1
                    box['F'] = z3.Store(box['F'], fp, as_v(args[0]))
                    box['fp'] = fp + 1
                    return None
                raise Unsupported('external call %s' % name)

            def to_int_(x):
                return x.t if isinstance(x, SInt) else z3.IntVal(x) if isinstance(x, int) else smt.ival(as_v(x))

            def inv(ls):
                pos = _t(ls['position'])
                return z3.And(0 <= pos, pos <= gen.pos)

            def after_body(ls):
                pos = _t(ls['position'])
                ctx.oblige('DictsGeneratorView: the row yielded at position j is the row of dict j (from the file or fresh), and the position advances by one',
                           is_row_of(as_v(box['yielded']), z3.Select(Dd, pos - 1)))
                ctx.oblige('DictsGeneratorView: position advances by exactly one row per yield', pos == box['pos_before'] + 1)

            spec = LoopSpec(invariant=inv, label='rows')
            spec.rebind = lambda ls: (arbitrary('l'), box.__setitem__('pos_before', _t(ls['position'])))
            spec.after_body = after_body
            it = h.interp(ctx, loops={(QN, 0): spec})
            it.check_pulls = False
            it.on_yield = on_yield
            it.opaque_hook = hook
            cls = closure_of(it, 'petl.io.json.DictsGeneratorView')
            view = it.call(cls, [gen], {'header': hdr, 'missing': missing})
            view.attrs['dicts'] = gen
            if first:
                ctx.assume(gen.pos == 0)
                view.attrs['_cached'] = SInt(z3.IntVal(0))
                box['last'] = (z3.IntVal(0), box['F'])
            else:
                view.attrs['_filecache'] = Opaque('file', 'spill')
                arbitrary('init')
            res = run_generator(it, cls.find('__iter__')[0], [view])
            if res.exc is not None:
                ctx.oblige('DictsGeneratorView: never raises', z3.BoolVal(False), res.exc.origin or '')
                return
            guarantee('at the end of the pass')
            pos = res.env.lookup('position')
            ctx.oblige('DictsGeneratorView: the pass ends only when every dict of the generator has been served', _t(pos) == ND)
        h.explore(body)
    return task


make(True)
make(False)
