"""C10 -- duplicates / unique partition the rows by key multiplicity.

The loops carry state (previous row, flags).  They are verified with the hybrid rule: an inductive invariant pins the
carried state as a function of the position k in the (key-sorted) input, and the rows emitted in iteration k (`dout`) are
stated as a function of k and the input alone:

  iterduplicates, row k (k >= 2):  eq(k-1,k) ?  ([S[k-1]] unless S[k-1] == its predecessor) ++ [S[k]]  :  []
  iterunique,     row k (k >= 3):  emits S[k-1] iff  ne(k-2,k-1) and ne(k-1,k)      (+ the last row after the loop)

where eq/ne compare the key cells with Python ==.  Composing the per-iteration emissions (engine meta-theorem) row j of a
key-sorted table is emitted by duplicates exactly once iff its key equals a neighbour's key, by unique exactly once iff it
equals neither neighbour's -- i.e. iff the key occurs more than once / exactly once (keys are contiguous after the sort),
so the two outputs partition the input, in order."""
import z3
from pyvc.api import *
from pyvc.values import _t
from pyvc import smt, builtins as bi
from contracts import lib_base

D = 'petl.transform.dedup.'


def setup(ctx):
    S = sym_table(ctx, 'S', nmin=1)
    rows_are_sequences(ctx, S)
    rectangular(ctx, S)
    key = sym_seq(ctx, 'key', 'tuple')
    ctx.assume(key.len == 1)          # single key field (compound keys: bounded check)
    return S, key


def keq(S, idx0, i, j):
    """Python == of the key cells of rows i and j"""
    ri, rj = src_row(S, i), src_row(S, j)
    return smt.py_eq(z3.Select(ri.arr, idx0), z3.Select(rj.arr, idx0))


@vc('C10.iterduplicates', functions=[D + 'iterduplicates'], props=['C10', 'C03', 'C20'],
    assumptions=['rectangular table, single key field (contract of asindices for the field selection); input sorted by key is the '
                 'precondition under which "equals a neighbour" means "occurs more than once"',
                 'hybrid loop rule: invariant on carried state + per-iteration emission; composition is the engine meta-theorem'])
def iterduplicates(h):
    def body(ctx):
        S, key = setup(ctx)
        box = {}

        def i0(ls):
            return smt.ival(z3.Select(ls['indices'].arr, 0))

        def inv(ls):
            k = ls.k.t
            prev, py = ls['previous'], ls['previous_yielded']
            pv = as_v(prev)
            pyt = _t(py) if not isinstance(py, bool) else z3.BoolVal(py)
            return z3.And(z3.Implies(k == 1, z3.And(smt.cls(pv) == smt.NONE, z3.Not(pyt))),
                          z3.Implies(k >= 2, z3.And(pv == z3.Select(S.rows, k - 1),
                                                    pyt == z3.And(k >= 3, keq(S, i0(ls), k - 2, k - 1)))))

        def delta(ls, x, dout):
            k = ls.k.t
            e = keq(S, i0(ls), k - 1, k)
            already = z3.And(k >= 3, keq(S, i0(ls), k - 2, k - 1))
            one = z3.And(dout.len == 1, _t(row_eq(out_row(dout, 0), src_row(S, k))))
            two = z3.And(dout.len == 2, _t(row_eq(out_row(dout, 0), src_row(S, k - 1))), _t(row_eq(out_row(dout, 1), src_row(S, k))))
            ctx.oblige('iterduplicates: row k and (once) its predecessor are emitted iff their keys are ==; nothing otherwise',
                       z3.If(k == 1, dout.len == 0, z3.If(e, z3.If(already, one, two), dout.len == 0)))
        it = h.interp(ctx, loops={(D + 'iterduplicates', 0): LoopSpec(invariant=inv, delta=delta, label='rows', types={'previous': 'cell'})},
                      summaries=lib_base.SUMMARIES)
        it.check_pulls = False
        fn = closure_of(it, D + 'iterduplicates')
        res = run_generator(it, fn, [S, key])
        if res.exc is not None:
            inloop = getattr(ctx, 'in_iteration', None)
            ctx.oblige('iterduplicates: only FieldSelectionError escapes, before any data row', z3.BoolVal(res.exc.kind == 'FieldSelectionError' and inloop is None))
            return
        pre = ctx.pre_loop_out
        ctx.oblige('iterduplicates: the header is emitted first, once; nothing after the last row',
                   z3.And(pre.len == 1, _t(row_eq(out_row(pre, 0), src_row(S, 0))), res.out.len == 0))
    h.explore(body)


@vc('C10.iterunique', functions=[D + 'iterunique'], props=['C10', 'C03', 'C20'],
    assumptions=['as C10.iterduplicates'])
def iterunique(h):
    def body(ctx):
        S, key = setup(ctx)

        def i0(ls):
            return smt.ival(z3.Select(ls['indices'].arr, 0))

        def ne_prev(ls, k):          # row k-1 differs from its predecessor (or has none)
            return z3.Or(k == 2, z3.Not(keq(S, i0(ls), k - 2, k - 1)))

        def inv(ls):
            k = ls.k.t
            return z3.And(k >= 2, as_v(ls['prev']) == z3.Select(S.rows, k - 1),
                          as_v(ls['prev_key']) == z3.Select(src_row(S, k - 1).arr, i0(ls)),
                          _t(ls['prev_comp_ne']) == ne_prev(ls, k))

        def delta(ls, x, dout):
            k = ls.k.t
            emit_prev = z3.And(ne_prev(ls, k), z3.Not(keq(S, i0(ls), k - 1, k)))
            ctx.oblige('iterunique: the previous row is emitted iff its key differs (!=) from both neighbours',
                       z3.If(emit_prev, z3.And(dout.len == 1, _t(row_eq(out_row(dout, 0), src_row(S, k - 1)))), dout.len == 0))

        def on_exit(ls, count):
            box_exit['ne'] = ne_prev(ls, S.n)
        box_exit = {}
        spec = LoopSpec(invariant=inv, delta=delta, label='rows', types={'prev': 'cell', 'prev_key': 'cell', 'prev_comp_ne': 'bool'})
        spec.on_exit = on_exit
        it = h.interp(ctx, loops={(D + 'iterunique', 0): spec}, summaries=lib_base.SUMMARIES)
        it.check_pulls = False      # not a C02 operator (dedup is sort-backed); reads one row ahead by design
        fn = closure_of(it, D + 'iterunique')
        res = run_generator(it, fn, [S, key])
        if res.exc is not None:
            inloop = getattr(ctx, 'in_iteration', None)
            ctx.oblige('iterunique: only FieldSelectionError escapes, before any data row', z3.BoolVal(res.exc.kind == 'FieldSelectionError' and inloop is None))
            return
        if getattr(ctx, 'after_loop', None):
            last = src_row(S, S.n - 1)
            ctx.oblige('iterunique: after the loop the last row is emitted iff its key differs from its predecessor\'s',
                       z3.If(box_exit['ne'], z3.And(res.out.len == 1, _t(row_eq(out_row(res.out, 0), last))), res.out.len == 0))
            pre = ctx.pre_loop_out
            ctx.oblige('iterunique: the header is emitted first, once', z3.And(pre.len == 1, _t(row_eq(out_row(pre, 0), src_row(S, 0)))))
        else:
            ctx.oblige('iterunique: a table without data rows yields just the header', z3.And(res.out.len == 1, S.n == 1))
    h.explore(body)
