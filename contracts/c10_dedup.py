"""C10 -- duplicates / unique partition the rows by key multiplicity.

The loops carry state (previous row, flags).  They are verified with the hybrid rule: an inductive invariant pins the
carried state as a function of the position k in the (key-sorted) input, and the rows emitted in iteration k (`dout`) are
stated as a function of k and the input alone:

  iterduplicates, row k (k >= 2):  eq(k-1,k) ?  ([S[k-1]] unless S[k-1] == its predecessor) ++ [S[k]]  :  []
  iterunique,     row k (k >= 3):  emits S[k-1] iff  ne(k-2,k-1) and ne(k-1,k)      (+ the last row after the loop)

where eq/ne compare the key cells with Python ==.  Composing the per-iteration emissions (engine meta-theorem) row j of a
key-sorted table is emitted by duplicates exactly once iff its key equals a neighbour's key, by unique exactly once iff it
equals neither neighbour's -- i.e. iff the key occurs more than once / exactly once (keys are contiguous after the sort),
so the two outputs partition the input, in order."""
import z3
from pyvc.api import *
from pyvc.interp import PyExc
from pyvc.values import _t
from pyvc import smt, builtins as bi
from contracts import lib_base

D = 'petl.transform.dedup.'


def setup(ctx):
    S = sym_table(ctx, 'S', nmin=1)
    rows_are_sequences(ctx, S)
    rectangular(ctx, S)
    key = sym_seq(ctx, 'key', 'tuple')
    ctx.assume(key.len == 1)          # single key field (compound keys: bounded check)
    return S, key


def keq(S, idx0, i, j):
    """Python == of the key cells of rows i and j"""
    ri, rj = src_row(S, i), src_row(S, j)
    return smt.py_eq(z3.Select(ri.arr, idx0), z3.Select(rj.arr, idx0))


@vc('C10.iterduplicates', functions=[D + 'iterduplicates'], props=['C10', 'C03', 'C20'],
    assumptions=['rectangular table, single key field (contract of asindices for the field selection); input sorted by key is the '
                 'precondition under which "equals a neighbour" means "occurs more than once"',
                 'hybrid loop rule: invariant on carried state + per-iteration emission; composition is the engine meta-theorem'])
def iterduplicates(h):
    def body(ctx):
        S, key = setup(ctx)
        box = {}

        def i0(ls):
            return smt.ival(z3.Select(ls['indices'].arr, 0))

        def inv(ls):
            k = ls.k.t
            prev, py = ls['previous'], ls['previous_yielded']
            pv = as_v(prev)
            pyt = _t(py) if not isinstance(py, bool) else z3.BoolVal(py)
            return z3.And(z3.Implies(k == 1, z3.And(smt.cls(pv) == smt.NONE, z3.Not(pyt))),
                          z3.Implies(k >= 2, z3.And(pv == z3.Select(S.rows, k - 1),
                                                    pyt == z3.And(k >= 3, keq(S, i0(ls), k - 2, k - 1)))))

        def delta(ls, x, dout):
            k = ls.k.t
            e = keq(S, i0(ls), k - 1, k)
            already = z3.And(k >= 3, keq(S, i0(ls), k - 2, k - 1))
            one = z3.And(dout.len == 1, _t(row_eq(out_row(dout, 0), src_row(S, k))))
            two = z3.And(dout.len == 2, _t(row_eq(out_row(dout, 0), src_row(S, k - 1))), _t(row_eq(out_row(dout, 1), src_row(S, k))))
            ctx.oblige('iterduplicates: row k and (once) its predecessor are emitted iff their keys are ==; nothing otherwise',
                       z3.If(k == 1, dout.len == 0, z3.If(e, z3.If(already, one, two), dout.len == 0)))
        it = h.interp(ctx, loops={(D + 'iterduplicates', 0): LoopSpec(invariant=inv, delta=delta, label='rows', types={'previous': 'cell'})},
                      summaries=lib_base.SUMMARIES)
        it.check_pulls = False
        fn = closure_of(it, D + 'iterduplicates')
        res = run_generator(it, fn, [S, key])
        if res.exc is not None:
            inloop = getattr(ctx, 'in_iteration', None)
            ctx.oblige('iterduplicates: only FieldSelectionError escapes, before any data row', z3.BoolVal(res.exc.kind == 'FieldSelectionError' and inloop is None))
            return
        pre = ctx.pre_loop_out
        ctx.oblige('iterduplicates: the header is emitted first, once; nothing after the last row',
                   z3.And(pre.len == 1, _t(row_eq(out_row(pre, 0), src_row(S, 0))), res.out.len == 0))
    h.explore(body)


@vc('C10.iterunique', functions=[D + 'iterunique'], props=['C10', 'C03', 'C20'],
    assumptions=['as C10.iterduplicates'])
def iterunique(h):
    def body(ctx):
        S, key = setup(ctx)

        def i0(ls):
            return smt.ival(z3.Select(ls['indices'].arr, 0))

        def ne_prev(ls, k):          # row k-1 differs from its predecessor (or has none)
            return z3.Or(k == 2, z3.Not(keq(S, i0(ls), k - 2, k - 1)))

        def inv(ls):
            k = ls.k.t
            return z3.And(k >= 2, as_v(ls['prev']) == z3.Select(S.rows, k - 1),
                          as_v(ls['prev_key']) == z3.Select(src_row(S, k - 1).arr, i0(ls)),
                          _t(ls['prev_comp_ne']) == ne_prev(ls, k))

        def delta(ls, x, dout):
            k = ls.k.t
            emit_prev = z3.And(ne_prev(ls, k), z3.Not(keq(S, i0(ls), k - 1, k)))
            ctx.oblige('iterunique: the previous row is emitted iff its key differs (!=) from both neighbours',
                       z3.If(emit_prev, z3.And(dout.len == 1, _t(row_eq(out_row(dout, 0), src_row(S, k - 1)))), dout.len == 0))

        def on_exit(ls, count):
            box_exit['ne'] = ne_prev(ls, S.n)
        box_exit = {}
        spec = LoopSpec(invariant=inv, delta=delta, label='rows', types={'prev': 'cell', 'prev_key': 'cell', 'prev_comp_ne': 'bool'})
        spec.on_exit = on_exit
        it = h.interp(ctx, loops={(D + 'iterunique', 0): spec}, summaries=lib_base.SUMMARIES)
        it.check_pulls = False      # not a C02 operator (dedup is sort-backed); reads one row ahead by design
        fn = closure_of(it, D + 'iterunique')
        res = run_generator(it, fn, [S, key])
        if res.exc is not None:
            inloop = getattr(ctx, 'in_iteration', None)
            ctx.oblige('iterunique: only FieldSelectionError escapes, before any data row', z3.BoolVal(res.exc.kind == 'FieldSelectionError' and inloop is None))
            return
        if getattr(ctx, 'after_loop', None):
            last = src_row(S, S.n - 1)
            ctx.oblige('iterunique: after the loop the last row is emitted iff its key differs from its predecessor\'s',
                       z3.If(box_exit['ne'], z3.And(res.out.len == 1, _t(row_eq(out_row(res.out, 0), last))), res.out.len == 0))
            pre = ctx.pre_loop_out
            ctx.oblige('iterunique: the header is emitted first, once', z3.And(pre.len == 1, _t(row_eq(out_row(pre, 0), src_row(S, 0)))))
        else:
            ctx.oblige('iterunique: a table without data rows yields just the header', z3.And(res.out.len == 1, S.n == 1))
    h.explore(body)


# ------------------------------------------------------------------------------------------------ distinct
DV = D + 'DistinctView.__iter__'


def distinct_setup(ctx, it, count):
    S, key = setup(ctx)
    cls = closure_of(it, D + 'DistinctView')
    view = it.call(cls, [S], dict(key=key, count=count, presorted=True))
    return S, key, cls, view


@vc('C10.distinct', functions=[DV, D + 'DistinctView.__init__'], props=['C10', 'C03', 'C20'],
    assumptions=['as C10.iterduplicates (single key field, rectangular, key-sorted input: presorted=True passes the table through unchanged)',
                 'the INIT sentinel (object()) is == to nothing but itself'])
def distinct_plain(h):
    def body(ctx):
        box = {}

        def i0(ls):
            return smt.ival(z3.Select(view_seq(ls['indices']).arr, 0))

        def inv(ls):
            k = ls.k.t
            pk = as_v(ls['previous_keys'])
            S = box['S']
            if 'fresh' not in box:
                box['fresh'] = True        # the sentinel is created by this activation: it occurs nowhere in the source
                a_, b_ = smt.fresh_int('a'), smt.fresh_int('b')
                ctx.facts.append(z3.ForAll([a_, b_], z3.Select(smt.seq_arr(z3.Select(S.rows, a_)), b_) != as_v(ls['INIT'])))
            return z3.And(z3.Implies(k == 1, pk == as_v(ls['INIT'])),
                          z3.Implies(k >= 2, pk == z3.Select(src_row(S, k - 1).arr, i0(ls))))

        def delta(ls, x, dout):
            k, S = ls.k.t, box['S']
            first = z3.Or(k == 1, z3.Not(keq(S, i0(ls), k - 1, k)))
            ctx.oblige('distinct: a row is emitted iff it is the first row or its key differs (!=) from its predecessor\'s: one row per run of == keys, the first',
                       z3.If(first, z3.And(dout.len == 1, _t(row_eq(out_row(dout, 0), src_row(S, k)))), dout.len == 0))
        it = h.interp(ctx, loops={(DV, 1): LoopSpec(invariant=inv, delta=delta, label='rows', types={'previous_keys': 'cell', 'keys': 'cell'})},
                      summaries=lib_base.SUMMARIES)
        it.check_pulls = False
        S, key, cls, view = distinct_setup(ctx, it, None)
        box['S'] = S
        res = run_generator(it, cls.find('__iter__')[0], [view])
        if res.exc is not None:
            inloop = getattr(ctx, 'in_iteration', None)
            ctx.oblige('distinct: only FieldSelectionError escapes, before any data row', z3.BoolVal(res.exc.kind == 'FieldSelectionError' and inloop is None), res.exc.origin or '')
            return
        if getattr(ctx, 'after_loop', None):
            pre = ctx.pre_loop_out
            ctx.oblige('distinct: the header first, once; nothing after the last row', z3.And(pre.len == 1, _t(row_eq(out_row(pre, 0), src_row(S, 0))), res.out.len == 0))
    h.explore(body)


@vc('C10.distinct.count', functions=[DV, D + 'DistinctView.__init__'], props=['C10', 'C03', 'C20'],
    assumptions=['as C10.distinct; run starts are the ghost function st(j+1) = st(j) if key(st(j)) == key(j+1) else j+1 (the comparison the code makes)',
                 'meta-level: the run lengths telescope to the number of data rows (the count column adds up to nrows)'])
def distinct_count(h):
    def body(ctx):
        box = {}
        st = z3.Function('run_start', z3.IntSort(), z3.IntSort())

        def i0(ls):
            return smt.ival(z3.Select(view_seq(ls['indices']).arr, 0))

        def run_row(ls, j):          # (first row of the run that row j belongs to) ++ (rows of that run up to j,)
            return src_row(box['S'], st(j)), j - st(j) + 1

        def inv(ls):
            k, S = ls.k.t, box['S']
            prev, nd = as_v(ls['previous']), _t(ls['n_dup'])
            j = smt.fresh_int('j')
            if 'ax' not in box:
                box['ax'] = True
                ctx.facts.append(st(1) == 1)
                ctx.facts.append(z3.ForAll([j], z3.Implies(j >= 1, st(j + 1) == z3.If(keq(S, i0(ls), st(j), j + 1), st(j), j + 1))))
                ctx.facts.append(z3.ForAll([j], z3.Implies(j >= 1, z3.And(1 <= st(j), st(j) <= j))))      # lemma (induction on j), instance-checked below
            return z3.And(z3.Implies(k == 1, z3.And(prev == as_v(ls['INIT']), nd == 1)),
                          z3.Implies(k >= 2, z3.And(prev == z3.Select(S.rows, st(k - 1)), nd == (k - 1) - st(k - 1) + 1)))

        def delta(ls, x, dout):
            k, S = ls.k.t, box['S']
            o = out_row(dout, 0)
            first, cnt = run_row(ls, k - 1)
            q = smt.fresh_int('q')
            closes = z3.And(k >= 2, z3.Not(keq(S, i0(ls), st(k - 1), k)))
            rowok = z3.And(dout.len == 1, o.len == first.len + 1, smt.ival(z3.Select(o.arr, first.len)) == cnt,
                           z3.ForAll([q], z3.Implies(z3.And(0 <= q, q < first.len), z3.Select(o.arr, q) == z3.Select(first.arr, q))))
            ctx.oblige('distinct(count): when a run ends its first row is emitted once with the number of rows of the run; nothing while the run continues',
                       z3.If(closes, rowok, dout.len == 0))

        def on_exit(ls, count):
            box['n'] = box['S'].n
        spec = LoopSpec(invariant=inv, delta=delta, label='rows', types={'previous': 'cell', 'n_dup': 'int'})
        spec.on_exit = on_exit
        it = h.interp(ctx, loops={(DV, 0): spec}, summaries=lib_base.SUMMARIES)
        it.check_pulls = False
        S, key, cls, view = distinct_setup(ctx, it, 'n')
        box['S'] = S
        res = run_generator(it, cls.find('__iter__')[0], [view])
        if res.exc is not None:
            inloop = getattr(ctx, 'in_iteration', None)
            ctx.oblige('distinct(count): only FieldSelectionError escapes, before any data row', z3.BoolVal(res.exc.kind == 'FieldSelectionError' and inloop is None), res.exc.origin or '')
            return
        if getattr(ctx, 'after_loop', None):
            n = S.n
            first = src_row(S, st(n - 1))
            o = out_row(res.out, 0)
            q = smt.fresh_int('q')
            ctx.oblige('distinct(count): after the last row the open run is emitted (first row + its length); a header-only table yields just the header',
                       z3.If(n >= 2, z3.And(res.out.len == 1, o.len == first.len + 1, smt.ival(z3.Select(o.arr, first.len)) == (n - 1) - st(n - 1) + 1,
                                            z3.ForAll([q], z3.Implies(z3.And(0 <= q, q < first.len), z3.Select(o.arr, q) == z3.Select(first.arr, q)))),
                             res.out.len == 0))
            pre = ctx.pre_loop_out
            hdr = src_row(S, 0)
            oh = out_row(pre, 0)
            ctx.oblige('distinct(count): header = source header + the count field, once', z3.And(pre.len == 1, oh.len == hdr.len + 1))
    h.explore(body)


# ------------------------------------------------------------------------------------------------ conflicts
@vc('C10.iterconflicts', functions=[D + 'iterconflicts'], props=['C10', 'C03', 'C20'],
    assumptions=['as C10.iterduplicates; include = exclude = None (all fields compared)',
                 'conf(i, i+1) := keys == and some field holds two non-`missing` values that are !=   (what the inner zip loop computes: proved by its own invariant)'])
def iterconflicts(h):
    def body(ctx):
        S, key = setup(ctx)
        missing = sym_cell('missing')

        def i0(ls):
            return smt.ival(z3.Select(ls['indices'].arr, 0))

        def dis(a, b, q):       # field q of rows a, b disagrees on non-missing values
            x, y = z3.Select(src_row(S, a).arr, q), z3.Select(src_row(S, b).arr, q)
            return z3.And(z3.Not(smt.py_eq(missing.t, x)), z3.Not(smt.py_eq(missing.t, y)), z3.Not(smt.py_eq(x, y)))

        def conf(ls, a, b):
            q = smt.fresh_int('q')
            w = src_row(S, 0).len
            return z3.And(keq(S, i0(ls), a, b), z3.Exists([q], z3.And(0 <= q, q < w, dis(a, b, q))))

        CF = z3.Function('conflict_of_pair', z3.IntSort(), z3.IntSort(), z3.BoolSort())
        # CF(a, b) is DEFINED as conf(a, b); only ground instances of the definition are ever added (one per proof step),
        # so the solver never faces the existential under a universal quantifier

        def inv(ls):
            k = ls.k.t
            pv = as_v(ls['previous'])
            py = ls['previous_yielded']
            pyt = _t(py) if not isinstance(py, bool) else z3.BoolVal(py)
            return z3.And(z3.Implies(k == 1, z3.And(smt.cls(pv) == smt.NONE, z3.Not(pyt))),
                          z3.Implies(k >= 2, z3.And(pv == z3.Select(S.rows, k - 1), pyt == z3.And(k >= 3, CF(k - 2, k - 1)))))

        def delta(ls, x, dout):
            k = ls.k.t
            ctx.assume(CF(k - 1, k) == conf(ls, k - 1, k))          # ground instance of the definition of CF
            c = CF(k - 1, k)
            already = z3.And(k >= 3, CF(k - 2, k - 1))
            one = z3.And(dout.len == 1, _t(row_eq(out_row(dout, 0), src_row(S, k))))
            two = z3.And(dout.len == 2, _t(row_eq(out_row(dout, 0), src_row(S, k - 1))), _t(row_eq(out_row(dout, 1), src_row(S, k))))
            ctx.oblige('iterconflicts: row k and (once) its predecessor are emitted iff they have == keys and conflict on a non-missing field; nothing otherwise',
                       z3.If(k == 1, dout.len == 0, z3.If(c, z3.If(already, one, two), dout.len == 0)))

        def inner_inv(ls):
            j = ls.k.t                       # fields compared so far
            k = box['k']
            q = smt.fresh_int('q')
            cf = ls['conflict']
            cft = _t(cf) if not isinstance(cf, bool) else z3.BoolVal(cf)
            return z3.And(z3.Not(cft), z3.ForAll([q], z3.Implies(z3.And(0 <= q, q < j), z3.Not(dis(k - 1, k, q)))))
        box = {}
        outer = LoopSpec(invariant=inv, delta=delta, label='rows', types={'previous': 'cell', 'previous_yielded': 'bool', 'conflict': 'bool'})

        def outer_rebind_hook(ls):
            pass
        inner = LoopSpec(invariant=inner_inv, label='fields of the pair', types={'conflict': 'bool'})
        it = h.interp(ctx, loops={(D + 'iterconflicts', 0): outer, (D + 'iterconflicts', 1): inner}, summaries=lib_base.SUMMARIES)
        it.check_pulls = False
        # the inner invariant needs the outer position: remember it when the outer iteration starts
        orig_assign = it.assign

        def spy_assign(target, v, env):
            orig_assign(target, v, env)
            import ast as _ast
            if isinstance(target, _ast.Name) and target.id == 'row' and getattr(ctx, 'in_iteration', None):
                box['k'] = ctx.in_iteration[1].t if ctx.in_iteration[1] is not None else None
        it.assign = spy_assign
        res = run_generator(it, closure_of(it, D + 'iterconflicts'), [S, key, missing, None, None])
        if res.exc is not None:
            inloop = getattr(ctx, 'in_iteration', None)
            ctx.oblige('iterconflicts: only FieldSelectionError escapes, before any data row', z3.BoolVal(res.exc.kind == 'FieldSelectionError' and inloop is None), res.exc.origin or '')
            return
        if getattr(ctx, 'after_loop', None) == 'rows':
            pre = ctx.pre_loop_out
            ctx.oblige('iterconflicts: the header first, once; nothing after the last row', z3.And(pre.len == 1, _t(row_eq(out_row(pre, 0), src_row(S, 0))), res.out.len == 0))
    h.explore(body)


# ------------------------------------------------------------------------------------------------ isunique
@vc('C10.isunique', functions=[D + 'isunique', 'petl.util.base.itervalues'], props=['C10'],
    assumptions=['single field given by name; rows long enough to have it; set through its contract (T6: membership modulo ==, i.e. equality -- '
                 'not the hash -- decides)', 'counting lemmas (C07.cnt.lemmas); invariant rule with an early return'])
def isunique(h):
    """isunique(t, f) is False exactly when some value of f occurs twice (it returns at the first repeat), True otherwise:
    so it is true exactly when duplicates(t, f) has no data rows."""
    from contracts.lib_count import counting

    def body(ctx):
        box = {}

        def C(ls=None):
            if 'C' not in box:
                box['C'] = counting(ctx, 'CV', lambda i: bi.canon(z3.Select(src_row(S, i).arr, box['vi'])), witness=True)
            return box['C']

        def inv(ls):
            k = ls.k.t
            kap, i = z3.Const('kap!u', smt.V), smt.fresh_int('i')
            return z3.And(z3.ForAll([kap], z3.Select(box['vals'].has, kap) == (C()(kap, k) > 0)),
                          z3.ForAll([i], z3.Implies(z3.And(1 <= i, i < k), C()(bi.canon(z3.Select(src_row(S, i).arr, box['vi'])), i) == 0)))
        it = h.interp(ctx, loops={('petl.util.base.itervalues', 0): LoopSpec(invariant=inv, label='values')})
        it.loop_specs[('petl.util.base.itervalues', 0)].rebind = lambda ls: box['vals'].havoc(it, 'vals')
        real_asindices = closure_of(it, 'petl.util.base.asindices')

        def spy(interp, args, kw, node):
            r = interp.call_closure(real_asindices, args, kw, node)
            box['vi'] = smt.ival(as_v(r.items[0]))
            return r
        it.summaries['petl.util.base.asindices'] = spy
        it.symbolic_dicts = True
        it.on_new_container = lambda c: box.setdefault('vals', c)
        it.check_pulls = False
        S = sym_table(ctx, 'S', nmin=1)
        rows_are_sequences(ctx, S)
        rectangular(ctx, S)
        try:
            r = it.call(closure_of(it, D + 'isunique'), [S, 'f'], {})
        except PyExc as e:
            ctx.oblige('isunique: only FieldSelectionError escapes', z3.BoolVal(e.kind == 'FieldSelectionError'), e.origin or '')
            return
        if 'C' not in box:
            ctx.oblige('isunique: a table without data rows is unique', z3.BoolVal(r is True))
            return
        i, j = smt.fresh_int('i'), smt.fresh_int('j')
        key = lambda x: bi.canon(z3.Select(src_row(S, x).arr, box['vi']))
        if r is True:
            ctx.oblige('isunique returns True only if no value occurs twice', z3.ForAll([i], z3.Implies(z3.And(1 <= i, i < S.n), C()(key(i), i) == 0)))
        elif r is False:
            ctx.oblige('isunique returns False only at a value that occurred before (a genuine repeat under ==)',
                       z3.Exists([i, j], z3.And(1 <= i, i < j, j < S.n, key(i) == key(j))))
        else:
            ctx.oblige('isunique returns a bool', z3.BoolVal(False))
    h.explore(body)
