"""C20 -- tables with a header and no data rows: the zero-data-row instance of every operator's generator.
Each generator function of the catalogue is executed from the real AST on source tables that have exactly one row (a
header of symbolic width and symbolic field names); data loops then run zero times, so no loop contract is needed and
the result is exact for ALL header shapes: the obligation is "no exception escapes and exactly the header row is
emitted" (plus the operator-specific zero-row value where there is one)."""
import z3
from pyvc.api import *
from pyvc.values import _t
from pyvc import smt, builtins as bi
from contracts import lib_base, lib_order

T = 'petl.transform.'
f1 = lambda n='f': UCall(n, may_raise=True)


def H(ctx, name):
    return fixed_table(ctx, name, 1)


_sym_seq = sym_seq


def sym_seq(ctx, name, kind='list', origin='Source'):
    """a field selection / key / header argument: at least one item (an empty selection is an argument error)"""
    s = _sym_seq(ctx, name, kind, origin)
    ctx.assume(s.len >= 1)
    return s


def text_cell(ctx, name):
    c = sym_cell(name)
    ctx.assume(smt.cls(c.t) == smt.TEXT)
    return c


# (qualified generator name, args builder(ctx) , expected number of emitted rows, note)
CATALOGUE = [
    (T + 'basics.itercut', lambda c: [H(c, 'S'), sym_seq(c, 'spec', 'tuple'), None], 1),
    (T + 'basics.itercutout', lambda c: [H(c, 'S'), sym_seq(c, 'spec', 'tuple'), None], 1),
    (T + 'basics.iterstack', lambda c: [PyList([H(c, 'S1'), H(c, 'S2')]), None, True, True], 1),
    (T + 'basics.iteraddfield', lambda c: [H(c, 'S'), sym_cell('field'), sym_cell('value'), None], 1),
    (T + 'basics.iteraddfields', lambda c: [H(c, 'S'), PyList([(sym_cell('n1'), sym_cell('v1')), (sym_cell('n2'), sym_cell('v2'), sym_int('i2'))])], 1),
    (T + 'basics.iterannex', lambda c: [PyList([H(c, 'S1'), H(c, 'S2')]), None], 1),
    (T + 'basics.iteraddrownumbers', lambda c: [H(c, 'S'), sym_int('start'), sym_int('step'), sym_cell('field')], 1),
    (T + 'basics.iteraddcolumn', lambda c: [H(c, 'S'), sym_cell('field'), PyList([]), None, None], 1),
    (T + 'basics.iteraddfieldusingcontext', lambda c: [H(c, 'S'), sym_cell('field'), f1('query')], 1),
    (T + 'headers.iterrename', lambda c: [H(c, 'S'), bi.SDict(), False], 1),
    (T + 'headers.itersetheader', lambda c: [H(c, 'S'), sym_seq(c, 'header', 'tuple')], 1),
    (T + 'headers.iterextendheader', lambda c: [H(c, 'S'), sym_seq(c, 'fields', 'tuple')], 1),
    (T + 'headers.iterpushheader', lambda c: [H(c, 'S'), sym_seq(c, 'header', 'tuple')], 2),
    (T + 'conversions.iterfieldconvert', lambda c: [H(c, 'S'), bi.SDict(), False, None, None, False], 1),
    (T + 'selects.iterfieldselect', lambda c: [H(c, 'S'), sym_seq(c, 'field', 'tuple'), f1('where'), sym_bool('complement'), None], 1),
    (T + 'selects.iterrowselect', lambda c: [H(c, 'S'), f1('where'), None, sym_bool('complement')], 1),
    (T + 'selects.iterselectusingcontext', lambda c: [H(c, 'S'), f1('query')], 1),
    (T + 'fills.iterfilldown', lambda c: [H(c, 'S'), sym_seq(c, 'fillfields', 'tuple'), None], 1),
    (T + 'fills.iterfillright', lambda c: [H(c, 'S'), None], 1),
    (T + 'fills.iterfillleft', lambda c: [H(c, 'S'), None], 1),
    (T + 'maps.iterrowmap', lambda c: [H(c, 'S'), f1('rowmapper'), sym_seq(c, 'header', 'tuple'), False], 1),
    (T + 'maps.iterrowmapmany', lambda c: [H(c, 'S'), f1('rowgenerator'), sym_seq(c, 'header', 'tuple'), False], 1),
    (T + 'maps.iterfieldmap', lambda c: [H(c, 'S'), bi.SDict(), False, None], 1),
    (T + 'dedup.iterduplicates', lambda c: [H(c, 'S'), sym_seq(c, 'key', 'tuple')], 1),
    (T + 'dedup.iterunique', lambda c: [H(c, 'S'), sym_seq(c, 'key', 'tuple')], 1),
    (T + 'dedup.iterconflicts', lambda c: [H(c, 'S'), sym_seq(c, 'key', 'tuple'), None, None, None], 1),
    (T + 'joins.iterjoin', lambda c: [H(c, 'L'), H(c, 'R'), sym_seq(c, 'lkey', 'tuple'), sym_seq(c, 'rkey', 'tuple')], 1),
    (T + 'joins.iterjoin', lambda c: [H(c, 'L'), H(c, 'R'), sym_seq(c, 'lkey', 'tuple'), sym_seq(c, 'rkey', 'tuple'), True, True], 1),
    (T + 'joins.iterantijoin', lambda c: [H(c, 'L'), H(c, 'R'), sym_seq(c, 'lkey', 'tuple'), sym_seq(c, 'rkey', 'tuple')], 1),
    (T + 'joins.iterlookupjoin', lambda c: [H(c, 'L'), H(c, 'R'), sym_seq(c, 'lkey', 'tuple'), sym_seq(c, 'rkey', 'tuple')], 1),
    (T + 'basics.iterrowslice', lambda c: [H(c, 'S'), (3,)], 1),
    (T + 'hashjoins.iterhashjoin', lambda c: [H(c, 'L'), H(c, 'R'), sym_seq(c, 'lkey', 'tuple'), sym_seq(c, 'rkey', 'tuple'), bi.SDict(), None, None], 1),
    (T + 'hashjoins.iterhashleftjoin', lambda c: [H(c, 'L'), H(c, 'R'), sym_seq(c, 'lkey', 'tuple'), sym_seq(c, 'rkey', 'tuple'), None, bi.SDict(), None, None], 1),
    (T + 'setops.itercomplement', lambda c: [H(c, 'A'), H(c, 'B'), False], 1),
    (T + 'setops.iterintersection', lambda c: [H(c, 'A'), H(c, 'B')], 1),
    (T + 'reshape.itermelt', lambda c: [H(c, 'S'), sym_seq(c, 'key', 'tuple'), None, 'variable', 'value'], 1),
    ('petl.util.base.itervalues', lambda c: [H(c, 'S'), sym_seq(c, 'field', 'tuple')], 0),
    # key-less aggregation of an empty table is ONE row holding the aggregate of nothing (documented zero-row value)
    (T + 'reductions.itersimpleaggregate', lambda c: [H(c, 'S'), None, UCall('aggregation', may_raise=False), None, 'value'], 2),
    (T + 'reductions.itersimpleaggregate', lambda c: [H(c, 'S'), None, bi.BUILTINS['len'], None, 'value'], 2),
    (T + 'reductions.itersimpleaggregate', lambda c: [H(c, 'S'), (text_cell(c, 'k1'), text_cell(c, 'k2')), f1('aggregation'), None, 'value'], 1),
    (T + 'reductions.itersimpleaggregate', lambda c: [H(c, 'S'), text_cell(c, 'k'), f1('aggregation'), None, 'value'], 1),
    (T + 'reductions.iterfold', lambda c: [H(c, 'S'), sym_seq(c, 'key', 'tuple'), f1('f'), None], 1),
    (T + 'reductions.iterrowreduce', lambda c: [H(c, 'S'), sym_seq(c, 'key', 'tuple'), f1('reducer'), sym_seq(c, 'header', 'tuple')], 1),
]


def make(idx, qn, builder, nrows):
    short = qn.split('.')[-1]

    @vc('C20.%02d.%s' % (idx, short), functions=[qn], props=['C20'],
        assumptions=['contract of asindices for a symbolic field selection (contracts/lib_base.py); Comparable through its contract (lib_order)',
                     'header computations that filter a symbolic field list are over-approximated (contents unconstrained): the obligation here is only about exceptions and the number of rows'])
    def task(h):
        def body(ctx):
            summ = dict(lib_base.SUMMARIES)
            summ.update(lib_order.SUMMARIES)
            it = h.interp(ctx, summaries=summ)
            it.overapprox_filters = True
            fn = closure_of(it, qn)
            args = builder(ctx)
            res = run_generator(it, fn, args)
            if res.exc is not None:
                ok = res.exc.kind in ('FieldSelectionError',)       # a field that does not exist: an argument error, not a header-only problem
                ctx.oblige('%s on header-only input: never raises (only FieldSelectionError for a field that is not there)' % short,
                           z3.BoolVal(ok), res.exc.origin or '')
                return
            ctx.oblige('%s on header-only input: emits exactly %d row(s) (header, no data)' % (short, nrows), res.out.len == nrows)
        h.explore(body)
    return task


for _i, (_qn, _b, _n) in enumerate(CATALOGUE):
    make(_i, _qn, _b, _n)
