"""C01 -- re-iterable tables with independent iterators: the write-set obligations of the non-interference lemma
(DESIGN 5/C01).  For every Table/IterContainer subclass of the anchored modules the write set of `__iter__` (and of the
methods of `self` it reaches) is computed from the real AST; the obligation is

    writes(view.__iter__)  is empty                                  (stateless views)
    writes(view.__iter__)  is within the declared, justified set      (stateful views: table STATEFUL below)

plus, for the stateful views, the specific discipline obligations that make sharing harmless.
The analysis is syntactic over attribute stores / mutating calls / subscript stores / del / augmented assignment whose
receiver expression starts with `self`, `global` statements and calls that (re)seed the process-wide RNG; writes through
an alias of a self attribute held in a local are followed for simple `x = self.attr` assignments only (stated assumption).
"""
import ast, os
from pyvc.api import *
from pyvc.interp import MUTATORS

MODULES = ['petl.util.base', 'petl.util.materialise', 'petl.util.timing', 'petl.util.random', 'petl.util.counting',
           'petl.util.lookups', 'petl.transform.basics', 'petl.transform.headers', 'petl.transform.conversions',
           'petl.transform.selects', 'petl.transform.fills', 'petl.transform.maps', 'petl.transform.regex',
           'petl.transform.unpacks', 'petl.transform.reshape', 'petl.transform.sorts', 'petl.transform.joins',
           'petl.transform.hashjoins', 'petl.transform.setops', 'petl.transform.dedup', 'petl.transform.reductions',
           'petl.transform.validation', 'petl.io.json', 'petl.io.csv_py3', 'petl.io.pickle', 'petl.io.text', 'petl.io.base',
           'petl.io.db']

# stateful views: attribute -> why sharing it between iterators is harmless (each line is an obligation checked below
# where it can be checked syntactically; otherwise it is carried by the bounded interleaving check and listed as such)
STATEFUL = {
    'petl.transform.sorts.SortView': {
        'allowed': {'_hdrcache', '_memcache', '_filecache', '_getkey'},
        'why': 'write-once-per-pass cache: stored only after the rows are sorted / the chunks are complete; cache-backed '
               'generators receive the cached objects as arguments and never read self._*cache',
        'no_self_reads_in': ['_iterfrommemcache', '_iterfromfilecache'], 'no_self_reads_attrs': {'_hdrcache', '_memcache', '_filecache', '_getkey'}},
    'petl.transform.hashjoins.HashJoinView': {'allowed': {'rlookup'}, 'why': 'lookup dictionary rebuilt or reused, never mutated after assignment'},
    'petl.transform.hashjoins.HashLeftJoinView': {'allowed': {'rlookup'}, 'why': 'as HashJoinView'},
    'petl.transform.hashjoins.HashRightJoinView': {'allowed': {'llookup'}, 'why': 'as HashJoinView'},
    'petl.transform.hashjoins.HashAntiJoinView': {'allowed': {'rlookup'}, 'why': 'as HashJoinView'},
    'petl.transform.hashjoins.HashLookupJoinView': {'allowed': {'rlookup'}, 'why': 'as HashJoinView'},
    'petl.util.materialise.CacheView': {'allowed': {'cache', 'cachecomplete'},
                                        'why': 'shared prefix cache: a row is appended only at its own position (bounded interleaving check carries the invariant)'},
    'petl.io.json.DictsGeneratorView': {'allowed': {'_filecache', '_cached', '_header', 'dicts'},
                                        'why': 'one-shot generator spilled to a file; positions are byte offsets (bounded interleaving check carries the invariant)'},
    'petl.util.timing.ClockView': {'allowed': {'time'}, 'why': 'timing accumulator: never flows into a row'},
    'petl.util.timing.ProgressViewBase': {'allowed': set(), 'why': 'counters are locals'},
    'petl.transform.validation.ProblemsView': {'allowed': set(), 'why': ''},
}
TEE = {'TeeCSVView', 'TeePickleView', 'TeeTextView', 'TeeHTMLView'}      # excluded by the property statement


def root_name(node):
    while isinstance(node, (ast.Attribute, ast.Subscript, ast.Call)):
        node = node.value if not isinstance(node, ast.Call) else node.func
    return node.id if isinstance(node, ast.Name) else None


def self_attr(node):
    """'attr' if node is self.attr or self.attr[...] / self.attr.x ..., else None"""
    n = node
    while isinstance(n, (ast.Subscript,)) or (isinstance(n, ast.Attribute) and not (isinstance(n.value, ast.Name) and n.value.id == 'self')):
        n = n.value
        if not isinstance(n, (ast.Attribute, ast.Subscript)):
            return None
    if isinstance(n, ast.Attribute) and isinstance(n.value, ast.Name) and n.value.id == 'self':
        return n.attr
    return None


def writes_of(fn, cls_methods, seen=None):
    """(set of self attributes written, list of global effects, set of self methods reached)"""
    seen = seen if seen is not None else set()
    if fn.name in seen:
        return set(), [], set()
    seen.add(fn.name)
    w, g = set(), []
    alias = {}
    for n in ast.walk(fn):
        if isinstance(n, ast.Assign) and len(n.targets) == 1 and isinstance(n.targets[0], ast.Name):
            a = self_attr(n.value) if isinstance(n.value, (ast.Attribute, ast.Subscript)) else None
            if a and isinstance(n.value, ast.Attribute) and isinstance(n.value.value, ast.Name):
                alias[n.targets[0].id] = a
    for n in ast.walk(fn):
        targets = []
        if isinstance(n, ast.Assign):
            targets = n.targets
        elif isinstance(n, (ast.AugAssign, ast.AnnAssign)):
            targets = [n.target]
        elif isinstance(n, ast.Delete):
            targets = n.targets
        for t in targets:
            for tt in (t.elts if isinstance(t, (ast.Tuple, ast.List)) else [t]):
                a = self_attr(tt) if isinstance(tt, (ast.Attribute, ast.Subscript)) else None
                if a:
                    w.add(a)
                if isinstance(tt, ast.Subscript) and isinstance(tt.value, ast.Name) and tt.value.id in alias:
                    w.add(alias[tt.value.id])
        if isinstance(n, ast.Call) and isinstance(n.func, ast.Attribute):
            if n.func.attr in MUTATORS:
                a = self_attr(n.func.value) if isinstance(n.func.value, (ast.Attribute, ast.Subscript)) else None
                if a:
                    w.add(a)
                if isinstance(n.func.value, ast.Name) and n.func.value.id in alias:
                    w.add(alias[n.func.value.id])
            if n.func.attr == 'seed' and root_name(n.func) in ('random', 'pyrandom', 'np'):
                g.append('re-seeds the process-wide random generator (line %d)' % n.lineno)
            if isinstance(n.func.value, ast.Name) and n.func.value.id == 'self' and n.func.attr in cls_methods:
                w2, g2, _ = writes_of(cls_methods[n.func.attr], cls_methods, seen)
                w |= w2
                g += g2
        if isinstance(n, ast.Global):
            g.append('global %s (line %d)' % (','.join(n.names), n.lineno))
    return w, g, seen


def self_reads(fn, attrs):
    return sorted(set(n.attr for n in ast.walk(fn) if isinstance(n, ast.Attribute) and isinstance(n.value, ast.Name)
                      and n.value.id == 'self' and n.attr in attrs and isinstance(n.ctx, ast.Load)))


def classes_of(program, modname):
    m = program.module(modname)
    out = []
    for c in m.tree.body:
        if isinstance(c, ast.ClassDef):
            methods = {f.name: f for f in c.body if isinstance(f, ast.FunctionDef)}
            out.append((c, methods))
    return out


@vc('C01.frame', functions=[], props=['C01'], kind='vc',
    assumptions=['write-set analysis is syntactic (self.<attr> stores, mutating calls, subscript stores, del, global, RNG seeding); '
                 'aliases of self attributes are followed only through simple local assignments',
                 'non-interference lemma (DESIGN 5/C01): empty write set + sources independent => iterators independent (induction on the schedule, not machine-checked)',
                 'stateful views (sort caches, hash-join lookups, cache(), fromdicts(generator), clock): the declared write sets are justified in contracts/c01_frames.py STATEFUL; their interleavings are carried by the bounded check'])
def frame(h):
    n = 0
    for modname in MODULES:
        path = os.path.join(h.program.root, modname.replace('.', '/') + '.py')
        if not os.path.exists(path):
            continue
        for c, methods in classes_of(h.program, modname):
            if '__iter__' not in methods or c.name in TEE:
                continue
            qn = '%s.%s' % (modname, c.name)
            w, g, reached = writes_of(methods['__iter__'], methods)
            decl = STATEFUL.get(qn, {'allowed': set()})
            extra = sorted(w - decl['allowed'])
            n += 1
            ok = not extra
            h.results.append(ObResult(h.task.name, '%s.__iter__: writes no attribute of the view outside its declared set %s'
                                      % (qn, sorted(decl['allowed']) or '{}'), 'unsat' if ok else 'sat', 'pyvc-frame-analysis', 0.0,
                                      '%s:%d' % (modname, c.lineno), 'frame', 'writes: %s' % extra if extra else ''))
            okg = not g
            h.results.append(ObResult(h.task.name, '%s.__iter__: writes process-wide state (global / RNG): none' % qn,
                                      'unsat' if okg else 'sat', 'pyvc-frame-analysis', 0.0, '%s:%d' % (modname, c.lineno), 'frame', '; '.join(g)))
            for mname in decl.get('no_self_reads_in', []):
                if mname in methods:
                    r = self_reads(methods[mname], decl['no_self_reads_attrs'])
                    h.results.append(ObResult(h.task.name, '%s.%s: the running generator does not read the shared cache attributes (it owns what it was handed)' % (qn, mname),
                                              'unsat' if not r else 'sat', 'pyvc-frame-analysis', 0.0, '%s:%d' % (modname, methods[mname].lineno), 'frame', 'reads: %s' % r if r else ''))
                else:
                    h.results.append(ObResult(h.task.name, '%s.%s: the running generator does not read the shared cache attributes (it owns what it was handed)' % (qn, mname),
                                              'unknown', 'pyvc-frame-analysis', 0.0, '', 'frame', 'method not found'))
    if n < 60:
        h.results.append(ObResult(h.task.name, 'frame: at least 60 view classes analysed (found %d)' % n, 'sat', 'pyvc-frame-analysis', 0.0, '', 'frame'))


# ------------------------------------------------------------------------------------------------ C03: mutation sites of generator functions
ANCHOR_C03 = ['petl.transform.basics', 'petl.transform.fills', 'petl.transform.joins', 'petl.transform.hashjoins',
              'petl.transform.conversions', 'petl.transform.reshape', 'petl.transform.unpacks', 'petl.transform.regex',
              'petl.transform.sorts', 'petl.transform.maps', 'petl.transform.selects', 'petl.transform.headers',
              'petl.transform.dedup', 'petl.transform.setops', 'petl.transform.reductions']
FRESH_CALLS = {'list', 'tuple', 'dict', 'set', 'OrderedDict', 'deque', 'Counter', 'defaultdict', 'sorted', 'bytearray'}


def is_fresh_expr(e, st):
    """does the expression create a new container (not aliasing an argument, a source row or a yielded object)?"""
    if isinstance(e, (ast.List, ast.Dict, ast.Set, ast.ListComp, ast.DictComp, ast.SetComp, ast.Tuple, ast.Constant, ast.GeneratorExp)):
        return True
    if isinstance(e, ast.Call):
        f = e.func
        nm = f.id if isinstance(f, ast.Name) else (f.attr if isinstance(f, ast.Attribute) else None)
        return nm in FRESH_CALLS or nm == 'copy'
    if isinstance(e, ast.BinOp) and isinstance(e.op, (ast.Add, ast.Mult, ast.Mod)):
        return True
    if isinstance(e, ast.Subscript) and isinstance(e.slice, ast.Slice):
        return True
    if isinstance(e, ast.Name):
        return st.get(e.id) in ('F', 'FF')
    if isinstance(e, ast.IfExp):
        return is_fresh_expr(e.body, st) and is_fresh_expr(e.orelse, st)
    return False


def origin_analysis(fn):
    """flow-sensitive classification of local names: 'F' = bound to a container created in this activation and not yet
    yielded; anything else may alias an argument, a source row or a yielded object.  Branches are merged
    conservatively, loop bodies are analysed to a fixpoint.  Returns [(lineno, description, ok)] per mutation site."""
    sites = {}
    st0 = {}
    a = fn.args
    for p in a.args + a.kwonlyargs + a.posonlyargs:
        st0[p.arg] = 'N'
    if a.vararg:
        st0[a.vararg.arg] = 'F'
    if a.kwarg:
        st0[a.kwarg.arg] = 'F'

    def merge(x, y):
        out = {}
        for k in set(x) | set(y):
            out[k] = x.get(k, 'F') if x.get(k, 'F') == y.get(k, 'F') and x.get(k, 'F') in ('F', 'FF') else ('F' if x.get(k, 'F') in ('F', 'FF') and y.get(k, 'F') in ('F', 'FF') else 'N')
            if (k in x) != (k in y):
                out[k] = x.get(k, y.get(k))      # bound on one path only: a use on the other path would be a NameError
        return out

    def bind(t, st, fresh):
        if isinstance(t, ast.Name):
            st[t.id] = 'F' if fresh else 'N'
        elif isinstance(t, (ast.Tuple, ast.List)):
            for e in t.elts:
                bind(e, st, False)
        elif isinstance(t, ast.Starred):
            bind(t.value, st, False)

    def site(node, recv, what, st):
        if isinstance(recv, ast.Name):
            ok = st.get(recv.id) in ('F', 'FF')
            desc = '%s%s' % (recv.id, what)
        elif isinstance(recv, ast.Attribute) and isinstance(recv.value, ast.Name) and recv.value.id == 'self':
            return
        elif isinstance(recv, ast.Subscript) and isinstance(recv.value, ast.Name):
            ok = st.get(recv.value.id) in ('F', 'FF')
            desc = '%s[...]%s' % (recv.value.id, what)
        elif isinstance(recv, ast.Attribute) and isinstance(recv.value, ast.Name):
            ok = st.get(recv.value.id) == 'F'       # attribute of a locally created object
            desc = '%s.%s%s' % (recv.value.id, recv.attr, what)
        else:
            ok, desc = False, '%s%s' % (ast.unparse(recv)[:40], what)
        key = (node.lineno, desc)
        sites[key] = sites.get(key, True) and ok

    def expr_sites(e, st):
        if isinstance(e, (ast.ListComp, ast.SetComp, ast.GeneratorExp, ast.DictComp)):
            inner = dict(st)
            for g in e.generators:
                expr_sites(g.iter, inner)
                elem_fresh = isinstance(g.iter, ast.Name) and st.get(g.iter.id) == 'FF'
                bind(g.target, inner, False)
                if elem_fresh and isinstance(g.target, ast.Name):
                    inner[g.target.id] = 'F'      # element of a fresh list of fresh containers
                for c in g.ifs:
                    expr_sites(c, inner)
            for part in ([e.elt] if not isinstance(e, ast.DictComp) else [e.key, e.value]):
                expr_sites(part, inner)
            return
        for n in ast.iter_child_nodes(e):
            if isinstance(n, (ast.ListComp, ast.SetComp, ast.GeneratorExp, ast.DictComp)):
                expr_sites(n, st)
        for n in ast.walk(e):
            if isinstance(n, (ast.Lambda, ast.FunctionDef)):
                continue
            if isinstance(n, ast.Call) and isinstance(n.func, ast.Attribute) and n.func.attr in ('append', 'extend', 'insert', 'remove', 'sort', 'reverse', 'pop', 'clear', 'update', 'setdefault', 'popitem'):
                site(n, n.func.value, '.%s()' % n.func.attr, st)
            if isinstance(n, (ast.Yield,)) and n.value is not None and isinstance(n.value, ast.Name):
                if st.get(n.value.id) == 'F':
                    st[n.value.id] = 'Y'     # handed to the consumer: must not be touched any more

    def run(stmts, st):
        for s in stmts:
            if isinstance(s, (ast.FunctionDef, ast.ClassDef)):
                continue
            if isinstance(s, ast.Assign):
                expr_sites(s.value, st)
                fr = is_fresh_expr(s.value, st)
                for t in s.targets:
                    if isinstance(t, ast.Subscript):
                        site(s, t.value, ' item store', st)
                    elif isinstance(t, ast.Attribute):
                        pass
                    else:
                        bind(t, st, fr)
                        if isinstance(t, ast.Name) and isinstance(s.value, ast.ListComp) and is_fresh_expr(s.value.elt, {}):
                            st[t.id] = 'FF'       # fresh list whose elements are fresh containers too
            elif isinstance(s, ast.AugAssign):
                expr_sites(s.value, st)
                if isinstance(s.target, ast.Subscript):
                    site(s, s.target.value, ' item store', st)
                elif isinstance(s.target, ast.Name) and isinstance(s.op, ast.Add) and st.get(s.target.id) in ('N', 'Y') and s.target.id in maybe_seq:
                    site(s, s.target, ' += (in place if it is a list)', st)
            elif isinstance(s, ast.Delete):
                for t in s.targets:
                    if isinstance(t, ast.Subscript):
                        site(s, t.value, ' item delete', st)
            elif isinstance(s, ast.Expr):
                expr_sites(s.value, st)
            elif isinstance(s, ast.Return):
                if s.value is not None:
                    expr_sites(s.value, st)
            elif isinstance(s, ast.If):
                expr_sites(s.test, st)
                a1, a2 = dict(st), dict(st)
                run(s.body, a1)
                run(s.orelse, a2)
                st.clear()
                st.update(merge(a1, a2))
            elif isinstance(s, (ast.For, ast.While)):
                if isinstance(s, ast.For):
                    expr_sites(s.iter, st)
                for _ in range(3):
                    b = dict(st)
                    if isinstance(s, ast.For):
                        bind(s.target, b, False)
                    else:
                        expr_sites(s.test, b)
                    run(s.body, b)
                    m = merge(st, b)
                    if m == st:
                        break
                    st.clear()
                    st.update(m)
                run(s.orelse, st)
            elif isinstance(s, ast.Try):
                b = dict(st)
                run(s.body, b)
                outs = [b]
                for hd in s.handlers:
                    hb = merge(st, b)
                    run(hd.body, hb)
                    outs.append(hb)
                eb = dict(b)
                run(s.orelse, eb)
                outs[0] = eb
                m = outs[0]
                for o in outs[1:]:
                    m = merge(m, o)
                st.clear()
                st.update(m)
                run(s.finalbody, st)
            elif isinstance(s, ast.With):
                for it in s.items:
                    expr_sites(it.context_expr, st)
                    if it.optional_vars is not None:
                        bind(it.optional_vars, st, True)
                run(s.body, st)
    # names that may hold a row / sequence (loop targets and parameters): += on them could extend a list in place
    maybe_seq = set(st0)
    for n in ast.walk(fn):
        if isinstance(n, (ast.For, ast.comprehension)):
            for e in ast.walk(n.target):
                if isinstance(e, ast.Name):
                    maybe_seq.add(e.id)
    run(fn.body, dict(st0))
    return [(ln, desc, ok) for (ln, desc), ok in sorted(sites.items())]


@vc('C03.frame', functions=[], props=['C03'], kind='vc',
    assumptions=['mutation-site analysis is a flow-insensitive may-alias classification per function: the receiver of every in-place '
                 'mutation must be a local that is only ever bound to a freshly created container; "never mutated after being yielded" '
                 'is proved for the functions under a stateless-body contract and otherwise carried by the bounded snapshot check',
                 'user callbacks do not mutate their arguments'])
def c03_frame(h):
    total = 0
    for modname in ANCHOR_C03:
        m = h.program.module(modname)
        for fn in ast.walk(m.tree):
            if not isinstance(fn, ast.FunctionDef):
                continue
            if fn.name.startswith('__') and fn.name not in ('__iter__',):
                continue
            for lineno, desc, ok in origin_analysis(fn):
                total += 1
                h.results.append(ObResult(h.task.name, '%s.%s: %s mutates only a container created in this activation' % (modname, fn.name, desc),
                                          'unsat' if ok else 'sat', 'pyvc-frame-analysis', 0.0, '%s:%d' % (modname, lineno), 'frame'))
    if total < 50:
        h.results.append(ObResult(h.task.name, 'frame: at least 50 mutation sites analysed (found %d)' % total, 'sat', 'pyvc-frame-analysis', 0.0, '', 'frame'))
