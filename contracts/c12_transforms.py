"""C12 -- row/field transforms touch only what they are asked to (also C03 frame and C20 header-only instances of the
same generators).  Streaming generators are verified with the stateless-body rule: the loop body is executed for an
arbitrary data row of an arbitrary table, with everything the body assigns havocked, and the rows emitted for that one
row (`dout`) must be exactly what the property prescribes."""
import z3
from pyvc.api import *
from pyvc.values import _t
from pyvc import smt, builtins as bi
from pyvc.smt import V
from contracts import lib_base

B = 'petl.transform.basics.'
H = 'petl.transform.headers.'
UB = 'petl.util.base.'


def nonneg_int_or_name(seq):
    """requires of the field-selection contracts: no negative integer selectors"""
    j = smt.fresh_int('j')
    c = lambda jj: z3.Select(seq.arr, jj)
    return z3.ForAll([j], z3.Implies(z3.And(0 <= j, j < seq.len), z3.Not(z3.And(z3.Or(smt.is_int(c(j)), smt.is_bool(c(j))), smt.ival(c(j)) < 0))))


# ------------------------------------------------------------------------------------------------ asindices
@vc('C12.asindices.range', functions=[UB + 'asindices'], props=['C12', 'C13'],
    assumptions=['requires: integer field selectors are non-negative'])
def asindices_range(h):
    """for a spec of ANY length: the result has one index per selector, each an int with 0 <= index < len(hdr)
    (or FieldSelectionError) -- this is the contract callers use (contracts/lib_base.py)"""
    def body(ctx):
        def inv(st):
            ind, flds = st['indices'], st['flds']
            q = smt.fresh_int('q')
            c = lambda jj: z3.Select(ind.arr, jj)
            return z3.And(ind.len == st.k.t, flds.len == hs.len,
                          z3.ForAll([q], z3.Implies(z3.And(0 <= q, q < ind.len),
                                                    z3.And(z3.Or(smt.is_int(c(q)), smt.is_bool(c(q))), 0 <= smt.ival(c(q)), smt.ival(c(q)) < hs.len))))
        it = h.interp(ctx, loops={(UB + 'asindices', 0): LoopSpec(invariant=inv, label='selectors')})
        hdr = sym_seq(ctx, 'hdr', 'src')
        hs = hdr
        spec = sym_seq(ctx, 'spec', 'tuple')
        ctx.assume(nonneg_int_or_name(spec))
        fn = closure_of(it, UB + 'asindices')
        try:
            r = it.call(fn, [hdr, spec], {})
        except PyExc as e:
            ctx.oblige('asindices: only FieldSelectionError escapes', z3.BoolVal(e.kind == 'FieldSelectionError'))
            return
        q = smt.fresh_int('q')
        c = lambda jj: z3.Select(r.arr, jj)
        ctx.oblige('asindices: one index per selector', r.len == spec.len)
        ctx.oblige('asindices: every index is an int in [0, len(hdr))',
                   z3.ForAll([q], z3.Implies(z3.And(0 <= q, q < r.len), z3.And(0 <= smt.ival(c(q)), smt.ival(c(q)) < hs.len))))
    h.explore(body)


@vc('C12.asindices.exact', functions=[UB + 'asindices'], props=['C12'],
    assumptions=['stated for 1 selector (any kind) and for 2 field-name selectors (the "already used" marking needs two); header length unbounded'])
def asindices_exact(h):
    """the index of a selector: itself if an int below len(hdr); else the first not-yet-used field whose text equals it"""
    for nsel in (1, 2):
        def body(ctx, nsel=nsel):
            it = h.interp(ctx)
            hdr = sym_seq(ctx, 'hdr', 'src')
            sels = [sym_cell('s%d' % k) for k in range(nsel)]
            for s in sels:
                ctx.assume(z3.Not(z3.And(z3.Or(smt.is_int(s.t), smt.is_bool(s.t)), smt.ival(s.t) < 0)))
                if nsel == 2:
                    ctx.assume(smt.cls(s.t) == smt.TEXT)     # two field NAMES: what the "used" marking is about
            fn = closure_of(it, UB + 'asindices')
            text = lambda p: bi.str_of(z3.Select(hdr.arr, p))
            isidx = lambda s: z3.And(smt.cls(s.t) == smt.NUM, z3.Or(smt.is_int(s.t), smt.is_bool(s.t)), smt.ival(s.t) < hdr.len)
            q = smt.fresh_int('q')
            try:
                r = it.call(fn, [hdr, tuple(sels)], {})
            except PyExc as e:
                # raised iff some selector is neither an index nor the text of a still unused field
                s0 = sels[0]
                none0 = z3.And(z3.Not(isidx(s0)), z3.ForAll([q], z3.Implies(z3.And(0 <= q, q < hdr.len), z3.Not(smt.py_eq(text(q), s0.t)))))
                if nsel == 1:
                    ctx.oblige('asindices(1 selector): FieldSelectionError exactly when the selector matches nothing',
                               z3.And(z3.BoolVal(e.kind == 'FieldSelectionError'), none0))
                else:
                    ctx.oblige('asindices(2 selectors): only FieldSelectionError escapes', z3.BoolVal(e.kind == 'FieldSelectionError'))
                return
            r = view_seq(r)
            i0 = smt.ival(z3.Select(r.arr, 0))
            s0 = sels[0]
            first0 = z3.And(0 <= i0, i0 < hdr.len, smt.py_eq(text(i0), s0.t),
                            z3.ForAll([q], z3.Implies(z3.And(0 <= q, q < i0), z3.Not(smt.py_eq(text(q), s0.t)))))
            ctx.oblige('asindices(%d): first selector -> itself if an index, else the first field with that text' % nsel,
                       z3.If(isidx(s0), i0 == smt.ival(s0.t), first0))
            if nsel == 2:
                i1 = smt.ival(z3.Select(r.arr, 1))
                s1 = sels[1]
                used = lambda p: z3.And(z3.Not(isidx(s0)), p == i0)      # position consumed by the first (name) selector
                first1 = z3.And(0 <= i1, i1 < hdr.len, smt.py_eq(text(i1), s1.t), z3.Not(used(i1)),
                                z3.ForAll([q], z3.Implies(z3.And(0 <= q, q < i1), z3.Or(used(q), z3.Not(smt.py_eq(text(q), s1.t))))))
                ctx.oblige('asindices(2): second selector -> itself if an index, else the first UNUSED field with that text',
                           z3.If(isidx(s1), i1 == smt.ival(s1.t), first1))
        h.explore(body)


# ------------------------------------------------------------------------------------------------ cut
def idx(indices, j):
    return smt.ival(z3.Select(indices.arr, j))


@vc('C12.itercut', functions=[B + 'itercut', UB + 'rowgetter'], props=['C12', 'C03', 'C20', 'C02'],
    assumptions=['contract of asindices (contracts/lib_base.py), discharged by C12.asindices.range',
                 'stateless-body rule (engine meta-theorem): out = header ++ concat over data rows of the per-row delta'])
def itercut(h):
    def body(ctx):
        st = {}

        def delta(ls, x, dout):
            indices = ls['indices']
            row = view_seq(x)
            missing = ls['missing']
            o = out_row(dout, 0)
            q = smt.fresh_int('q')
            ctx.oblige('itercut: exactly one output row per input row', dout.len == 1)
            ctx.oblige('itercut: one cell per selected field', o.len == indices.len)
            ctx.oblige('itercut: cell j is the selected cell, or `missing` if the row is too short (never dropped, never IndexError)',
                       z3.ForAll([q], z3.Implies(z3.And(0 <= q, q < indices.len),
                                                 z3.Select(o.arr, q) == z3.If(idx(indices, q) < row.len, z3.Select(row.arr, idx(indices, q)), as_v(missing)))))
        it = h.interp(ctx, loops={(B + 'itercut', 0): LoopSpec(delta=delta, label='data rows')}, summaries=lib_base.SUMMARIES)
        S = sym_table(ctx, 'S', nmin=1)
        spec = sym_seq(ctx, 'spec', 'tuple')
        missing = sym_cell('missing')
        fn = closure_of(it, B + 'itercut')
        res = run_generator(it, fn, [S, spec, missing])
        if res.exc is not None:
            inloop = getattr(ctx, 'in_iteration', None)
            ctx.oblige('itercut: no exception escapes while rows are processed; only FieldSelectionError before the header',
                       z3.BoolVal(inloop is None and res.exc.kind == 'FieldSelectionError'))
            return
        pre = ctx.pre_loop_out
        indices = res.env.lookup('indices')
        hdr = src_row(S, 0)
        o = out_row(pre, 0)
        q = smt.fresh_int('q')
        ctx.oblige('itercut: the header is emitted first, once: the selected fields in the order asked',
                   z3.And(pre.len == 1, o.len == indices.len,
                          z3.ForAll([q], z3.Implies(z3.And(0 <= q, q < indices.len), z3.Select(o.arr, q) == z3.Select(hdr.arr, idx(indices, q))))))
        ctx.oblige('itercut: nothing after the last row (a header-only table gives just the header)', res.out.len == 0)
    h.explore(body)


# ------------------------------------------------------------------------------------------------ stack
@vc('C12.iterstack', functions=[B + 'iterstack'], props=['C12', 'C03', 'C20', 'C06', 'C02'],
    assumptions=['two source tables (the outer loop over tables is unrolled); rows, lengths, flags symbolic',
                 'stateless-body rule (engine meta-theorem)'])
def iterstack(h):
    def body(ctx):
        def delta(ls, x, dout):
            row = view_seq(x)
            n, trim, pad, missing = ls['n'], ls['trim'], ls['pad'], ls['missing']
            nn = _t(n)
            o = out_row(dout, 0)
            keep = z3.If(z3.And(_t(trim), row.len > nn), nn, row.len)        # cells carried over
            olen = z3.If(z3.And(_t(pad), keep < nn), nn, keep)
            q = smt.fresh_int('q')
            ctx.oblige('iterstack: exactly one output row per input row (never dropped)', dout.len == 1)
            ctx.oblige('iterstack: trimmed to the header length iff trim, padded to it iff pad', o.len == olen)
            ctx.oblige('iterstack: carried cells unchanged and in place, padding is `missing`',
                       z3.ForAll([q], z3.Implies(z3.And(0 <= q, q < olen), z3.Select(o.arr, q) == z3.If(q < keep, z3.Select(row.arr, q), as_v(missing)))))
        it = h.interp(ctx, loops={(B + 'iterstack', 2): LoopSpec(delta=delta, label='data rows')})
        S0, S1 = sym_table(ctx, 'S0', nmin=1), sym_table(ctx, 'S1', nmin=1)
        missing, trim, pad = sym_cell('missing'), sym_bool('trim'), sym_bool('pad')
        fn = closure_of(it, B + 'iterstack')
        res = run_generator(it, fn, [PyList([S0, S1]), missing, trim, pad])
        if res.exc is not None:
            ctx.oblige('iterstack: never raises', z3.BoolVal(False), res.exc.origin or '')
            return
        ctx.oblige('iterstack: nothing is emitted after the last row of the last table', res.out.len == 0)
    h.explore(body)


# ------------------------------------------------------------------------------------------------ addfield (fixed value)
def insert_spec(o, row, pos, v):
    q = smt.fresh_int('q')
    return z3.And(o.len == row.len + 1,
                  z3.ForAll([q], z3.Implies(z3.And(0 <= q, q < o.len),
                                            z3.Select(o.arr, q) == z3.If(q < pos, z3.Select(row.arr, q), z3.If(q == pos, v, z3.Select(row.arr, q - 1))))))


def clamp_ins(i, ln):
    return z3.If(i < 0, z3.If(i + ln < 0, 0, i + ln), z3.If(i > ln, ln, i))


@vc('C12.iteraddfield', functions=[B + 'iteraddfield'], props=['C12', 'C03', 'C20', 'C02'],
    assumptions=['the value is a fixed (non-callable) value or an uninterpreted callable; index is None or any integer',
                 'stateless-body rule (engine meta-theorem)'])
def iteraddfield(h):
    for mode in ('fixed', 'fixed-noindex', 'callable'):
        def body(ctx, mode=mode):
            def delta(ls, x, dout):
                row = view_seq(x if not isinstance(x, Instance) else x.attrs['_tuple'])
                index = ls['index']
                o = out_row(dout, 0)
                if mode == 'callable':
                    v = bi.ucall_terms('value', [as_v(x.attrs['_tuple'])])[0]
                else:
                    v = as_v(ls['value'])
                pos = clamp_ins(_t(index), row.len)
                ctx.oblige('iteraddfield[%s]: one output row per input row' % mode, dout.len == 1)
                ctx.oblige('iteraddfield[%s]: the new cell is inserted at the index (list.insert clamping), every other cell carried over in order' % mode,
                           insert_spec(o, row, pos, v))
            loops = {(B + 'iteraddfield', 0): LoopSpec(delta=delta, label='data rows (calculated value)'),
                     (B + 'iteraddfield', 1): LoopSpec(delta=delta, label='data rows (fixed value)')}
            it = h.interp(ctx, loops=loops)
            S = sym_table(ctx, 'S', nmin=1)
            field = sym_cell('field')
            index = None if mode == 'fixed-noindex' else sym_int('index')
            if mode == 'callable':
                value = UCall('value', may_raise=False)
            else:
                value = sym_cell('value')
                ctx.assume(z3.Not(z3.Function('is_callable', V, z3.BoolSort())(value.t)))
            fn = closure_of(it, B + 'iteraddfield')
            res = run_generator(it, fn, [S, field, value, index])
            if res.exc is not None:
                ctx.oblige('iteraddfield[%s]: never raises' % mode, z3.BoolVal(False), res.exc.origin or '')
                return
            pre = ctx.pre_loop_out
            hdr = src_row(S, 0)
            o = out_row(pre, 0)
            pos = clamp_ins(_t(index), hdr.len) if index is not None else hdr.len
            ctx.oblige('iteraddfield[%s]: header = source header with the new field inserted at the index' % mode,
                       z3.And(pre.len == 1, insert_spec(o, hdr, pos, field.t)))
            ctx.oblige('iteraddfield[%s]: nothing after the last row' % mode, res.out.len == 0)
        h.explore(body)


# ------------------------------------------------------------------------------------------------ addrownumbers
@vc('C12.iteraddrownumbers', functions=[B + 'iteraddrownumbers'], props=['C12', 'C03', 'C20', 'C02'],
    assumptions=['T2: zip(it, count(start, step)) pairs data row i (0-based) with start + i*step',
                 'stateless-body rule (engine meta-theorem)'])
def iteraddrownumbers(h):
    def body(ctx):
        def delta(ls, x, dout):
            row = view_seq(x[0])
            o = out_row(dout, 0)
            q = smt.fresh_int('q')
            num = start.t + step.t * (ls.k.t - 1)
            ctx.oblige('iteraddrownumbers: one output row per input row', dout.len == 1)
            ctx.oblige('iteraddrownumbers: row number first (start + i*step), then every source cell unchanged',
                       z3.And(o.len == row.len + 1, smt.ival(z3.Select(o.arr, 0)) == num,
                              z3.ForAll([q], z3.Implies(z3.And(0 <= q, q < row.len), z3.Select(o.arr, q + 1) == z3.Select(row.arr, q)))))
        it = h.interp(ctx, loops={(B + 'iteraddrownumbers', 0): LoopSpec(delta=delta, label='data rows')})
        S = sym_table(ctx, 'S', nmin=1)
        start, step, field = sym_int('start'), sym_int('step'), sym_cell('field')
        fn = closure_of(it, B + 'iteraddrownumbers')
        res = run_generator(it, fn, [S, start, step, field])
        if res.exc is not None:
            ctx.oblige('iteraddrownumbers: never raises', z3.BoolVal(False), res.exc.origin or '')
            return
        pre = ctx.pre_loop_out
        hdr = src_row(S, 0)
        o = out_row(pre, 0)
        q = smt.fresh_int('q')
        ctx.oblige('iteraddrownumbers: header = (field,) + source header',
                   z3.And(pre.len == 1, o.len == hdr.len + 1, z3.Select(o.arr, 0) == field.t,
                          z3.ForAll([q], z3.Implies(z3.And(0 <= q, q < hdr.len), z3.Select(o.arr, q + 1) == z3.Select(hdr.arr, q)))))
        ctx.oblige('iteraddrownumbers: nothing after the last row', res.out.len == 0)
    h.explore(body)


# ------------------------------------------------------------------------------------------------ header functions: data rows untouched
def passthrough_task(qn, nargs_builder, loop_ordinal=0, name=None, nmin=1):
    short = name or qn.split('.')[-1]

    @vc('C12.' + short, functions=[qn], props=['C12', 'C03', 'C20', 'C02'],
        assumptions=['stateless-body rule (engine meta-theorem)'])
    def task(h):
        def body(ctx):
            def delta(ls, x, dout):
                row = view_seq(x)
                ctx.oblige('%s: every data row is passed through once, unchanged (same cells, same length)' % short,
                           z3.And(dout.len == 1, _t(row_eq(out_row(dout, 0), row))))
            it = h.interp(ctx, loops={(qn, loop_ordinal): LoopSpec(delta=delta, label='data rows')})
            S = sym_table(ctx, 'S', nmin=nmin)
            fn = closure_of(it, qn)
            res = run_generator(it, fn, [S] + nargs_builder(ctx))
            if res.exc is not None:
                inloop = getattr(ctx, 'in_iteration', None)
                ctx.oblige('%s: no exception escapes while data rows are processed' % short, z3.BoolVal(inloop is None), res.exc.origin or '')
                return
            ctx.oblige('%s: exactly one header row before the data, nothing after the last row' % short,
                       z3.And(ctx.pre_loop_out.len == 1, res.out.len == 0))
        h.explore(body)
    return task


passthrough_task(H + 'itersetheader', lambda ctx: [sym_seq(ctx, 'header', 'tuple')])
passthrough_task(H + 'iterextendheader', lambda ctx: [sym_seq(ctx, 'fields', 'tuple')])
passthrough_task(H + 'iterpushheader', lambda ctx: [sym_seq(ctx, 'header', 'tuple')], nmin=0)


# ------------------------------------------------------------------------------------------------ cutout
@vc('C12.itercutout', functions=[B + 'itercutout', UB + 'rowgetter'], props=['C12', 'C03', 'C20', 'C02'],
    assumptions=['contract of asindices; T6: [i for i in range(n) if i not in X] is the ascending list of the positions not in X (exact model)',
                 'stateless-body rule (engine meta-theorem)'])
def itercutout(h):
    def body(ctx):
        def delta(ls, x, dout):
            indices = ls['indices']
            row = view_seq(x)
            o = out_row(dout, 0)
            q = smt.fresh_int('q')
            ctx.oblige('itercutout: exactly one output row per input row, one cell per kept field', z3.And(dout.len == 1, o.len == indices.len))
            ctx.oblige('itercutout: cell j is the row\'s cell at the j-th kept position, or `missing` if the row is too short',
                       z3.ForAll([q], z3.Implies(z3.And(0 <= q, q < indices.len),
                                                 z3.Select(o.arr, q) == z3.If(idx(indices, q) < row.len, z3.Select(row.arr, idx(indices, q)), as_v(ls['missing'])))))
        it = h.interp(ctx, loops={(B + 'itercutout', 0): LoopSpec(delta=delta, label='data rows')}, summaries=lib_base.SUMMARIES)
        S = sym_table(ctx, 'S', nmin=1)
        spec = sym_seq(ctx, 'spec', 'tuple')
        ctx.assume(spec.len >= 1)
        res = run_generator(it, closure_of(it, B + 'itercutout'), [S, spec, sym_cell('missing')])
        if res.exc is not None:
            inloop = getattr(ctx, 'in_iteration', None)
            ctx.oblige('itercutout: no exception escapes while rows are processed; only FieldSelectionError before the header',
                       z3.BoolVal(inloop is None and res.exc.kind == 'FieldSelectionError'), res.exc.origin or '')
            return
        pre = ctx.pre_loop_out
        indices, out_ix = res.env.lookup('indices'), res.env.lookup('indicesout')
        hdr = src_row(S, 0)
        o = out_row(pre, 0)
        q, i, p = smt.fresh_int('q'), smt.fresh_int('i'), smt.fresh_int('p')
        cut = lambda ii: z3.Exists([p], z3.And(0 <= p, p < out_ix.len, idx(out_ix, p) == ii))
        ctx.oblige('itercutout: the kept positions are header positions that were not selected',
                   z3.ForAll([q], z3.Implies(z3.And(0 <= q, q < indices.len), z3.And(0 <= idx(indices, q), idx(indices, q) < hdr.len, z3.Not(cut(idx(indices, q)))))))
        ctx.oblige('itercutout: the kept positions are in their original order',
                   z3.ForAll([q], z3.Implies(z3.And(0 <= q, q + 1 < indices.len), idx(indices, q) < idx(indices, q + 1))))
        ctx.oblige('itercutout: every header position that was not selected is kept',
                   z3.ForAll([i], z3.Implies(z3.And(0 <= i, i < hdr.len, z3.Not(cut(i))), z3.Exists([q], z3.And(0 <= q, q < indices.len, idx(indices, q) == i)))), solver='cvc5')
        ctx.oblige('itercutout: the header is emitted first, once: the kept fields',
                   z3.And(pre.len == 1, o.len == indices.len, res.out.len == 0,
                          z3.ForAll([q], z3.Implies(z3.And(0 <= q, q < indices.len), z3.Select(o.arr, q) == z3.Select(hdr.arr, idx(indices, q))))))
    h.explore(body)


# ------------------------------------------------------------------------------------------------ values
@vc('C12.itervalues', functions=[UB + 'itervalues'], props=['C12', 'C03', 'C02', 'C20'],
    assumptions=['contract of asindices', 'stateless-body rule (engine meta-theorem)'])
def itervalues(h):
    for nf in ('one', 'many'):
        def body(ctx, nf=nf):
            def delta(ls, x, dout):
                indices = ls['indices']
                row = view_seq(x)
                missing = ls['missing']
                if nf == 'one':
                    i0 = idx(indices, 0)
                    ctx.oblige('itervalues(one field): exactly one value per row: the cell, or `missing` for a short row',
                               z3.And(dout.len == 1, z3.Select(dout.arr, 0) == z3.If(i0 < row.len, z3.Select(row.arr, i0), as_v(missing))))
                else:
                    o = out_row(dout, 0)
                    q = smt.fresh_int('q')
                    ctx.oblige('itervalues(several fields): exactly one tuple per row: the selected cells in the order asked, `missing` where the row is too short',
                               z3.And(dout.len == 1, o.len == indices.len,
                                      z3.ForAll([q], z3.Implies(z3.And(0 <= q, q < indices.len),
                                                                z3.Select(o.arr, q) == z3.If(idx(indices, q) < row.len, z3.Select(row.arr, idx(indices, q)), as_v(missing))))))
            def inner_inv(ls):
                value, indices, row = ls['value'], ls['indices'], view_seq(ls['row'])
                q = smt.fresh_int('q')
                return z3.And(value.len == ls.k.t,
                              z3.ForAll([q], z3.Implies(z3.And(0 <= q, q < value.len),
                                                        z3.Select(value.arr, q) == z3.If(idx(indices, q) < row.len, z3.Select(row.arr, idx(indices, q)), as_v(ls['missing'])))))
            it = h.interp(ctx, loops={(UB + 'itervalues', 0): LoopSpec(delta=delta, label='data rows'),
                                      (UB + 'itervalues', 1): LoopSpec(invariant=inner_inv, label='one cell at a time')}, summaries=lib_base.SUMMARIES)
            S = sym_table(ctx, 'S', nmin=1)
            field = sym_seq(ctx, 'field', 'tuple')
            ctx.assume(field.len == 1 if nf == 'one' else field.len >= 2)
            res = run_generator(it, closure_of(it, UB + 'itervalues'), [S, field], {'missing': sym_cell('missing')})
            if res.exc is not None:
                inloop = getattr(ctx, 'in_iteration', None)
                ctx.oblige('itervalues: only FieldSelectionError escapes, before the data', z3.BoolVal(inloop is None and res.exc.kind == 'FieldSelectionError'), res.exc.origin or '')
                return
            if getattr(ctx, 'after_loop', None):
                ctx.oblige('itervalues: the header is not a value; nothing after the last row', z3.And(ctx.pre_loop_out.len == 0, res.out.len == 0))
        h.explore(body)


# ------------------------------------------------------------------------------------------------ addfields
@vc('C12.iteraddfields', functions=[B + 'iteraddfields'], props=['C12', 'C03', 'C20', 'C02'],
    assumptions=['two field definitions: (name, value) appended and (name, value, index) inserted; fixed (non-callable) values; any integer index',
                 'stateless-body rule (engine meta-theorem)'])
def iteraddfields(h):
    def body(ctx):
        def ins(f, ln, pos, v):
            """closed form of list.insert on a sequence given as an index function"""
            return lambda q: z3.If(q < pos, f(q), z3.If(q == pos, v, f(q - 1)))

        def twice(base, blen, i1, v1, i2, v2):
            p1 = clamp_ins(i1, blen)
            f1 = ins(lambda q: z3.Select(base.arr, q), blen, p1, v1)
            p2 = clamp_ins(i2, blen + 1)
            return ins(f1, blen + 1, p2, v2)

        def delta(ls, x, dout):
            row = view_seq(x)
            o = out_row(dout, 0)
            q = smt.fresh_int('q')
            f = twice(row, row.len, hl, v1.t, i2.t, v2.t)
            ctx.oblige('iteraddfields: one output row per input row: the row with both new cells inserted (list.insert semantics), all other cells carried over in order',
                       z3.And(dout.len == 1, o.len == row.len + 2, z3.ForAll([q], z3.Implies(z3.And(0 <= q, q < o.len), z3.Select(o.arr, q) == f(q)))))
        it = h.interp(ctx, loops={(B + 'iteraddfields', 1): LoopSpec(delta=delta, label='data rows')})
        S = sym_table(ctx, 'S', nmin=1)
        hl = smt.seq_len(z3.Select(S.rows, 0))
        n1, v1, n2, v2, i2 = sym_cell('n1'), sym_cell('v1'), sym_cell('n2'), sym_cell('v2'), sym_int('i2')
        isc = z3.Function('is_callable', smt.V, z3.BoolSort())
        ctx.assume(z3.And(z3.Not(isc(v1.t)), z3.Not(isc(v2.t))))
        res = run_generator(it, closure_of(it, B + 'iteraddfields'), [S, PyList([(n1, v1), (n2, v2, i2)])])
        if res.exc is not None:
            ctx.oblige('iteraddfields: never raises', z3.BoolVal(False), res.exc.origin or '')
            return
        pre = ctx.pre_loop_out
        hdr = src_row(S, 0)
        o = out_row(pre, 0)
        q = smt.fresh_int('q')
        f = twice(hdr, hdr.len, hl, n1.t, i2.t, n2.t)
        ctx.oblige('iteraddfields: header = source header with both names inserted the same way; nothing after the last row',
                   z3.And(pre.len == 1, o.len == hdr.len + 2, res.out.len == 0, z3.ForAll([q], z3.Implies(z3.And(0 <= q, q < o.len), z3.Select(o.arr, q) == f(q)))))
    h.explore(body)


# ------------------------------------------------------------------------------------------------ addcolumn
@vc('C12.iteraddcolumn', functions=[B + 'iteraddcolumn'], props=['C12', 'C03', 'C20'],
    assumptions=['T2: zip_longest(rows, col) runs max(len) steps, the shorter input reads as `missing`', 'no data row is == `missing`',
                 'stateless-body rule (engine meta-theorem)'])
def iteraddcolumn(h):
    for noindex in (True, False):
        def body(ctx, noindex=noindex):
            def delta(ls, x, dout):
                j = ls.k.t - 1                              # 0-based step: table position k (header at 0) <-> column position k - 1
                hdr = src_row(S, 0)
                val = z3.If(j < col.len, z3.Select(col.arr, j), missing.t)
                o = out_row(dout, 0)
                idx = hdr.len if noindex else index.t
                q = smt.fresh_int('q')
                have = ls.k.t < S.n
                row = src_row(S, ls.k.t)
                pos_r = clamp_ins(idx, row.len)
                pos_m = clamp_ins(idx, hdr.len)
                pad = z3.And(o.len == hdr.len + 1,
                             z3.ForAll([q], z3.Implies(z3.And(0 <= q, q < o.len), z3.Select(o.arr, q) == z3.If(q == pos_m, val, missing.t))))
                ctx.oblige('iteraddcolumn: step j yields one row: data row j (a row of `missing` once the table has run out) with column value j '
                           '(`missing` once the column has run out) inserted at the index -- by default at the position of the new field, '
                           'len(header) -- and every other cell carried over in order',
                           z3.And(dout.len == 1, z3.If(have, insert_spec(o, row, pos_r, val), pad)))
            it = h.interp(ctx, loops={(B + 'iteraddcolumn', 0): LoopSpec(delta=delta, label='rows x column')})
            it.check_pulls = False
            S = sym_table(ctx, 'S', nmin=1)
            rows_are_sequences(ctx, S)
            col = sym_seq(ctx, 'col')
            field, missing = sym_cell('field'), sym_cell('missing')
            index = None if noindex else sym_int('index')
            r = smt.fresh_int('r')
            ctx.facts.append(z3.ForAll([r], z3.Implies(z3.And(1 <= r, r < S.n), z3.Not(smt.py_eq(z3.Select(S.rows, r), missing.t)))))
            ctx.facts.append(smt.py_eq(missing.t, missing.t))
            res = run_generator(it, closure_of(it, B + 'iteraddcolumn'), [S, field, col, index, missing])
            if res.exc is not None:
                ctx.oblige('iteraddcolumn: never raises', z3.BoolVal(False), res.exc.origin or '')
                return
            if getattr(ctx, 'after_loop', None):
                pre = ctx.pre_loop_out
                hdr = src_row(S, 0)
                pos = hdr.len if noindex else clamp_ins(index.t, hdr.len)
                ctx.oblige('iteraddcolumn: header = source header with the new field inserted at the index (default: appended); nothing after the last row',
                           z3.And(pre.len == 1, insert_spec(out_row(pre, 0), hdr, pos, field.t), res.out.len == 0))
        h.explore(body)


# ------------------------------------------------------------------------------------------------ filldown
@vc('C12.iterfilldown', functions=['petl.transform.fills.iterfilldown'], props=['C12', 'C03'],
    assumptions=['one fill field given by name (several fields: the same loop body per field); rectangular table',
                 'hybrid loop rule: the fill state is a function of the position (ghost function LNM = last non-missing value above), emission per row'])
def iterfilldown(h):
    """filldown(t, f): a missing cell of column f is replaced by the nearest non-missing value above it (the first data row's
    value when there is none); every other cell, and every non-missing cell, is carried over unchanged; one row per row; the
    rows handed out are never the running fill state (C03)."""
    FD = 'petl.transform.fills.iterfilldown'

    def body(ctx):
        box = {}
        LNM = z3.Function('LNM', z3.IntSort(), V)          # value to fill with BEFORE row k is processed

        def c_of(ls):
            fi = ls['fillindices']
            return smt.ival(as_v(fi.items[0])) if hasattr(fi, 'items') else smt.ival(z3.Select(fi.arr, 0))

        def axioms(c):
            if 'ax' in box:
                return
            box['ax'] = True
            k = smt.fresh_int('k')
            cell = lambda r: z3.Select(src_row(S, r).arr, c)
            ctx.facts.append(LNM(2) == cell(1))
            ctx.facts.append(z3.ForAll([k], z3.Implies(k >= 3, LNM(k) == z3.If(smt.py_eq(cell(k - 1), missing.t), LNM(k - 1), cell(k - 1))), patterns=[LNM(k)]))

        def inv(ls):
            c = c_of(ls)
            axioms(c)
            fill = ls['fill']
            fill = fill if isinstance(fill, Seq) else view_seq(fill)
            return z3.And(ls.k.t >= 2, fill.len == src_row(S, 1).len, z3.Select(fill.arr, c) == LNM(ls.k.t))

        def delta(ls, x, dout):
            c = c_of(ls)
            row = view_seq(x)
            o = out_row(dout, 0)
            q = smt.fresh_int('q')
            want = lambda q_: z3.If(z3.And(q_ == c, smt.py_eq(z3.Select(row.arr, c), missing.t)), LNM(ls.k.t), z3.Select(row.arr, q_))
            ctx.oblige('iterfilldown: one output row per row; a missing cell of the fill field gets the nearest non-missing value above, every other cell is unchanged',
                       z3.And(dout.len == 1, o.len == row.len, z3.ForAll([q], z3.Implies(z3.And(0 <= q, q < o.len), z3.Select(o.arr, q) == want(q)))))
        spec = LoopSpec(invariant=inv, delta=delta, label='rows', types={'fill': 'keep'})
        spec.rebind = lambda ls: ls.interp.havoc_in_place(ls.env.lookup('fill'), 'fill')
        it = h.interp(ctx, loops={(FD, 0): spec})
        it.check_pulls = False
        S = sym_table(ctx, 'S', nmin=1)
        rows_are_sequences(ctx, S)
        rectangular(ctx, S)
        missing = sym_cell('missing')
        res = run_generator(it, closure_of(it, FD), [S, ('f',), missing])
        if res.exc is not None:
            ctx.oblige('iterfilldown: only FieldSelectionError escapes (unknown fill field)', z3.BoolVal(res.exc.kind == 'FieldSelectionError'), res.exc.origin or '')
            return
        if getattr(ctx, 'after_loop', None):
            pre = ctx.pre_loop_out
            ctx.oblige('iterfilldown: the header, then the first data row unchanged, both once; nothing after the last row',
                       z3.And(pre.len == 2, _t(row_eq(out_row(pre, 0), src_row(S, 0))), _t(row_eq(out_row(pre, 1), src_row(S, 1))), res.out.len == 0))
    h.explore(body)


# ------------------------------------------------------------------------------------------------ annex
@vc('C12.iterannex', functions=[B + 'iterannex'], props=['C12', 'C03', 'C20'],
    assumptions=['two tables (the loop body is uniform in their number); T2: zip_longest runs max(len) steps, an exhausted table reads as None',
                 'stateless-body rule (engine meta-theorem)'])
def iterannex(h):
    """annex(a, b): step j joins data row j of a and data row j of b side by side, each cut / padded with `missing` to the width of
    its own header; a table that has run out contributes a full width of `missing`; max(len) rows; header = both headers."""
    def body(ctx):
        def part(o, off, S, k, width):
            """o[off : off + width] is row k of S squared up to `width` (all missing when S has run out)"""
            q = smt.fresh_int('q')
            row = src_row(S, k)
            have = k < S.n
            return z3.ForAll([q], z3.Implies(z3.And(0 <= q, q < width),
                                             z3.Select(o.arr, off + q) == z3.If(z3.And(have, q < row.len), z3.Select(row.arr, q), missing.t)))

        def delta(ls, x, dout):
            k = ls.k.t
            wa, wb = src_row(A, 0).len, src_row(Bt, 0).len
            o = out_row(dout, 0)
            ctx.oblige('iterannex: one output row per step: row j of each table, squared up to its own header width (all `missing` once it has run out), side by side',
                       z3.And(dout.len == 1, o.len == wa + wb, part(o, 0, A, k, wa), part(o, wa, Bt, k, wb)))
        it = h.interp(ctx, loops={(B + 'iterannex', 1): LoopSpec(delta=delta, label='rows side by side')})
        it.check_pulls = False
        A, Bt = sym_table(ctx, 'A', nmin=1), sym_table(ctx, 'B', nmin=1)
        rows_are_sequences(ctx, A); rows_are_sequences(ctx, Bt)
        missing = sym_cell('missing')
        res = run_generator(it, closure_of(it, B + 'iterannex'), [PyList([A, Bt], 'list'), missing])
        if res.exc is not None:
            ctx.oblige('iterannex: never raises', z3.BoolVal(False), res.exc.origin or '')
            return
        if getattr(ctx, 'after_loop', None):
            pre = ctx.pre_loop_out
            o = out_row(pre, 0)
            ha, hb = src_row(A, 0), src_row(Bt, 0)
            q = smt.fresh_int('q')
            ctx.oblige('iterannex: header = the two headers side by side, once; nothing after the last row',
                       z3.And(pre.len == 1, o.len == ha.len + hb.len, res.out.len == 0,
                              z3.ForAll([q], z3.Implies(z3.And(0 <= q, q < o.len), z3.Select(o.arr, q) == z3.If(q < ha.len, z3.Select(ha.arr, q), z3.Select(hb.arr, q - ha.len))))))
    h.explore(body)


# ------------------------------------------------------------------------------------------------ fillright
@vc('C12.iterfillright', functions=['petl.transform.fills.iterfillright'], props=['C12', 'C03', 'C02'],
    assumptions=['nested rule: stateless over the rows, inductive invariant over the cells of one row (ghost function FR = the filled value of cell j)'])
def iterfillright(h):
    """fillright(t): in every row a missing cell takes the (already filled) value of its left neighbour unless that is missing too;
    non-missing cells and the row length are unchanged; one row per row; the source row is not written (C03)."""
    FQ = 'petl.transform.fills.iterfillright'

    def body(ctx):
        FR = z3.Function('FR', V, z3.IntSort(), V)
        r_, j_ = z3.Const('r!fr', V), smt.fresh_int('j')
        cellv = lambda r, j: z3.Select(smt.seq_arr(r), j)
        box = {}

        def axioms():
            ctx.facts.append(z3.ForAll([r_], FR(r_, 0) == cellv(r_, 0)))
            ctx.facts.append(z3.ForAll([r_, j_], z3.Implies(j_ >= 1, FR(r_, j_) == z3.If(
                z3.And(smt.py_eq(cellv(r_, j_), missing.t), z3.Not(smt.py_eq(FR(r_, j_ - 1), missing.t))), FR(r_, j_ - 1), cellv(r_, j_))),
                patterns=[FR(r_, j_)]))

        def inner_inv(ls):
            out = ls['outrow']
            out = out if isinstance(out, Seq) else view_seq(out)
            rowv = as_v(ls['row'])
            i = ls.k.t
            q = smt.fresh_int('q')
            return z3.And(out.len == smt.seq_len(rowv), 0 <= i, i <= out.len,
                          z3.ForAll([q], z3.Implies(z3.And(0 <= q, q < out.len), z3.Select(out.arr, q) == z3.If(q < i, FR(rowv, q), cellv(rowv, q)))))

        def outer(ls, x, dout):
            o = out_row(dout, 0)
            rowv = as_v(x)
            q = smt.fresh_int('q')
            ctx.oblige('iterfillright: one output row per row, same length; cell j is the right-filled value FR(j): itself unless missing, else its (filled) left neighbour unless that is missing',
                       z3.And(dout.len == 1, o.len == smt.seq_len(rowv), z3.ForAll([q], z3.Implies(z3.And(0 <= q, q < o.len), z3.Select(o.arr, q) == FR(rowv, q)))))
        inner = LoopSpec(invariant=inner_inv, label='cells', types={'outrow': 'keep'})
        inner.rebind = lambda ls: ls.interp.havoc_in_place(ls.env.lookup('outrow'), 'outrow')
        it = h.interp(ctx, loops={(FQ, 0): LoopSpec(delta=outer, label='rows'), (FQ, 1): inner})
        S = sym_table(ctx, 'S', nmin=1)
        rows_are_sequences(ctx, S)
        missing = sym_cell('missing')
        axioms()
        res = run_generator(it, closure_of(it, FQ), [S, missing])
        if res.exc is not None:
            ctx.oblige('iterfillright: never raises', z3.BoolVal(False), res.exc.origin or '')
            return
        if getattr(ctx, 'after_loop', None) == 'rows':
            pre = ctx.pre_loop_out
            ctx.oblige('iterfillright: the header first, once, unchanged; nothing after the last row',
                       z3.And(pre.len == 1, _t(row_eq(out_row(pre, 0), src_row(S, 0))), res.out.len == 0))
    h.explore(body)


@vc('C12.iterfillleft', functions=['petl.transform.fills.iterfillleft'], props=['C12', 'C03', 'C02'],
    assumptions=['as C12.iterfillright; reversed() through its contract (T6)'])
def iterfillleft(h):
    """fillleft(t): the mirror image: a missing cell takes the (already filled) value of its RIGHT neighbour unless that is missing."""
    FQ = 'petl.transform.fills.iterfillleft'

    def body(ctx):
        FL = z3.Function('FL', V, z3.IntSort(), V)          # filled value of cell j, counted from the RIGHT end (0 = last cell)
        r_, j_ = z3.Const('r!fl', V), smt.fresh_int('j')
        rc = lambda r, j: z3.Select(smt.seq_arr(r), smt.seq_len(r) - 1 - j)       # cell j from the right
        ctx_missing = {}

        def inner_inv(ls):
            out = ls['outrow']
            out = out if isinstance(out, Seq) else view_seq(out)
            rowv = as_v(ls['row'])
            i = ls.k.t
            q = smt.fresh_int('q')
            return z3.And(out.len == smt.seq_len(rowv), 0 <= i, i <= out.len,
                          z3.ForAll([q], z3.Implies(z3.And(0 <= q, q < out.len), z3.Select(out.arr, q) == z3.If(q < i, FL(rowv, q), rc(rowv, q)))))

        def outer(ls, x, dout):
            o = out_row(dout, 0)
            rowv = as_v(x)
            n = smt.seq_len(rowv)
            q = smt.fresh_int('q')
            ctx.oblige('iterfillleft: one output row per row, same length; cell j is the left-filled value: itself unless missing, else its (filled) right neighbour unless that is missing',
                       z3.And(dout.len == 1, o.len == n, z3.ForAll([q], z3.Implies(z3.And(0 <= q, q < n), z3.Select(o.arr, q) == FL(rowv, n - 1 - q)))))
        inner = LoopSpec(invariant=inner_inv, label='cells (from the right)', types={'outrow': 'keep'})
        inner.rebind = lambda ls: ls.interp.havoc_in_place(ls.env.lookup('outrow'), 'outrow')
        it = h.interp(ctx, loops={(FQ, 0): LoopSpec(delta=outer, label='rows'), (FQ, 1): inner})
        S = sym_table(ctx, 'S', nmin=1)
        rows_are_sequences(ctx, S)
        missing = sym_cell('missing')
        ctx.facts.append(z3.ForAll([r_], FL(r_, 0) == rc(r_, 0)))
        ctx.facts.append(z3.ForAll([r_, j_], z3.Implies(j_ >= 1, FL(r_, j_) == z3.If(
            z3.And(smt.py_eq(rc(r_, j_), missing.t), z3.Not(smt.py_eq(FL(r_, j_ - 1), missing.t))), FL(r_, j_ - 1), rc(r_, j_))), patterns=[FL(r_, j_)]))
        res = run_generator(it, closure_of(it, FQ), [S, missing])
        if res.exc is not None:
            ctx.oblige('iterfillleft: never raises', z3.BoolVal(False), res.exc.origin or '')
            return
        if getattr(ctx, 'after_loop', None) == 'rows':
            pre = ctx.pre_loop_out
            ctx.oblige('iterfillleft: the header first, once, unchanged; nothing after the last row',
                       z3.And(pre.len == 1, _t(row_eq(out_row(pre, 0), src_row(S, 0))), res.out.len == 0))
    h.explore(body)


# ------------------------------------------------------------------------------------------------ rename
@vc('C12.iterrename', functions=['petl.transform.headers.iterrename'], props=['C12', 'C03', 'C02'],
    assumptions=['a rename specification with one positional entry {p: X} and one by-name entry {n: Y}; strict=False',
                 'dict membership / lookup modulo == (T6)', 'stateless-body rule for the data rows'])
def iterrename(h):
    """rename: header position i becomes X if i is the renamed POSITION, else Y if its name is the renamed NAME, else stays as it is
    (the text of the field) -- a positional rename touches that one position only, even when other fields carry the same name; data
    rows pass through unchanged, one per row."""
    HQ = 'petl.transform.headers.iterrename'

    def body(ctx):
        def delta(ls, x, dout):
            ctx.oblige('iterrename: every data row is yielded once, as a tuple of itself', z3.And(dout.len == 1, _t(row_eq(out_row(dout, 0), x))))
        it = h.interp(ctx, loops={(HQ, 1): LoopSpec(delta=delta, label='data rows')})
        S = sym_table(ctx, 'S', nmin=1)
        pidx = sym_int('p')
        ctx.assume(pidx.t >= 0)
        n, X, Y = sym_cell('n'), sym_cell('X'), sym_cell('Y')
        ctx.assume(smt.cls(n.t) == smt.TEXT)
        ctx.facts.append(smt.py_eq(n.t, n.t))
        xx = z3.Const('x!r', V)
        ctx.facts.append(z3.ForAll([xx], z3.Not(smt.py_eq(bi._strf(xx), smt.mkint(pidx.t)))))      # a field name (text) is never == an int
        ctx.facts.append(z3.ForAll([xx], z3.Implies(smt.is_int(xx), z3.Not(smt.py_eq(xx, n.t)))))   # ... and an int position never == a name
        ctx.facts.append(z3.ForAll([xx], z3.Not(smt.py_eq(smt.mkint(pidx.t), bi._strf(xx)))))
        ii = smt.fresh_int('i')
        ctx.facts.append(z3.ForAll([ii], smt.is_int(smt.mkint(ii))))          # (the lifting axiom of mkint, universally: it is instantiated per use otherwise)
        ctx.facts.append(z3.ForAll([xx], z3.Implies(smt.is_int(xx), z3.Not(smt.py_eq(n.t, xx)))))
        spec = bi.SDict(it)
        spec.setitem(it, pidx, X)
        spec.setitem(it, n, Y)
        res = run_generator(it, closure_of(it, HQ), [S, spec, False])
        if res.exc is not None:
            ctx.oblige('iterrename: never raises (strict=False)', z3.BoolVal(False), res.exc.origin or '')
            return
        if getattr(ctx, 'after_loop', None):
            pre = ctx.pre_loop_out
            o = out_row(pre, 0)
            hdr = src_row(S, 0)
            q = smt.fresh_int('q')
            name = lambda qq: bi._strf(z3.Select(hdr.arr, qq))
            ctx.oblige('iterrename: header position i is X for the renamed position, else Y for the renamed name, else the field name itself',
                       z3.And(pre.len == 1, o.len == hdr.len, res.out.len == 0,
                              z3.ForAll([q], z3.Implies(z3.And(0 <= q, q < hdr.len),
                                                        z3.Select(o.arr, q) == z3.If(q == pidx.t, X.t, z3.If(smt.py_eq(name(q), n.t), Y.t, name(q)))))))
    h.explore(body)


# ------------------------------------------------------------------------------------------------ movefield
MV = B + 'MoveFieldView.__iter__'


@vc('C12.movefield', functions=[MV, B + 'MoveFieldView.__init__', B + 'movefield', UB + 'rowgetter'], props=['C12', 'C03', 'C20', 'C02'],
    assumptions=['contract of asindices (contracts/lib_base.py), discharged by C12.asindices.range',
                 'stateless-body rule (engine meta-theorem)',
                 'the header rearrangement itself (filter + insert + str names) is decided by the bounded layer only'])
def movefield(h):
    """movefield(t, field, index): per data row the output is the cells selected by `indices` (what asindices resolved for the
    rearranged header), a short row padded with the view's `missing`, never dropped and never an IndexError; the view gets the
    caller's table, field and index."""
    def body(ctx):
        def delta(ls, x, dout):
            indices = ls['indices']
            row = view_seq(x)
            missing = ls['self'].attrs['missing']
            o = out_row(dout, 0)
            q = smt.fresh_int('q')
            ctx.oblige('movefield: exactly one output row per input row', dout.len == 1)
            ctx.oblige('movefield: one cell per output field', o.len == indices.len)
            ctx.oblige('movefield: cell j is the cell of the field now at position j, or `missing` if the row is too short (never dropped, never IndexError)',
                       z3.ForAll([q], z3.Implies(z3.And(0 <= q, q < indices.len),
                                                 z3.Select(o.arr, q) == z3.If(idx(indices, q) < row.len, z3.Select(row.arr, idx(indices, q)), as_v(missing)))))
        it = h.interp(ctx, loops={(MV, 0): LoopSpec(delta=delta, label='data rows')}, summaries=lib_base.SUMMARIES)
        it.exact_filters = True
        S = sym_table(ctx, 'S', nmin=1)
        field, index = sym_cell('field'), sym_int('index')
        view = it.call(closure_of(it, B + 'movefield'), [S, field, index], {})
        a = getattr(view, 'attrs', {})
        ctx.oblige('movefield: the view gets the caller\'s table, field and index; missing defaults to None',
                   z3.BoolVal(bool(a.get('table') is S and a.get('field') is field and a.get('index') is index)))
        cls = closure_of(it, B + 'MoveFieldView')
        res = run_generator(it, cls.find('__iter__')[0], [view])
        if res.exc is not None:
            inloop = getattr(ctx, 'in_iteration', None)
            ctx.oblige('movefield: no exception escapes while rows are processed; only FieldSelectionError before the data',
                       z3.BoolVal(inloop is None and res.exc.kind == 'FieldSelectionError'), res.exc.origin or '')
            return
        pre = ctx.pre_loop_out
        ctx.oblige('movefield: exactly one header row before the data, nothing after the last row',
                   z3.And(pre.len == 1, res.out.len == 0))
        # header: the source fields that are != field, in source order, with `field` inserted at the index (list.insert clamping).
        # The filter comprehension is characterised exactly by the engine through a strictly increasing index map fidx and its
        # inverse finv (pyvc.builtins.exact_filter, T6); the obligation restates that characterisation for the EMITTED header.
        outhdr = res.env.lookup('outhdr')
        fo = getattr(outhdr, 'filter_of', None)
        ctx.oblige('movefield: the header is built by filtering the source header', z3.BoolVal(fo is not None))
        if fo is None:
            return
        fidx, finv = fo
        hdr = src_row(S, 0)
        o = out_row(pre, 0)
        pos = clamp_ins(_t(index), o.len - 1)
        q, q2, p_ = smt.fresh_int('q'), smt.fresh_int('q2'), smt.fresh_int('p')
        jq = lambda x: z3.If(x < pos, fidx(x), fidx(x - 1))
        ctx.oblige('movefield: the moved field sits at the requested index (negative / out-of-range indices clamp as list.insert does)',
                   z3.And(o.len >= 1, 0 <= pos, pos < o.len, z3.Select(o.arr, pos) == field.t))
        ctx.oblige('movefield: every other header cell is a source field other than the moved one, each at most once and in source order',
                   z3.And(z3.ForAll([q], z3.Implies(z3.And(0 <= q, q < o.len, q != pos),
                                                    z3.And(0 <= jq(q), jq(q) < hdr.len, z3.Select(o.arr, q) == z3.Select(hdr.arr, jq(q)),
                                                           z3.Not(smt.py_eq(z3.Select(hdr.arr, jq(q)), field.t))))),
                          z3.ForAll([q, q2], z3.Implies(z3.And(0 <= q, q < q2, q2 < o.len, q != pos, q2 != pos), jq(q) < jq(q2)))))
        ctx.oblige('movefield: no other source field is lost: every source field != the moved one appears in the header',
                   z3.ForAll([p_], z3.Implies(z3.And(0 <= p_, p_ < hdr.len, z3.Not(smt.py_eq(z3.Select(hdr.arr, p_), field.t))),
                                              z3.And(0 <= finv(p_), finv(p_) < o.len - 1,
                                                     z3.Select(o.arr, z3.If(finv(p_) < pos, finv(p_), finv(p_) + 1)) == z3.Select(hdr.arr, p_)))))
    h.explore(body)


# ------------------------------------------------------------------------------------------------ addfieldusingcontext
AFC = B + 'iteraddfieldusingcontext'


@vc('C12.iteraddfieldusingcontext', functions=[AFC, 'petl.util.base.Record.__init__'], props=['C12', 'C03'],
    assumptions=['`query` is a deterministic callback on (previous, current, next) records that may raise',
                 'hybrid loop rule: `cur` is a function of the position (invariant); `prv` is only known to be None exactly at the first '
                 'data row and some record afterwards (that it is the previous OUTPUT row is decided by the bounded layer)'])
def iteraddfieldusingcontext(h):
    """every data row i gives exactly one output row = the cells of row i, unchanged and in order, plus ONE new cell: the result of
    the single call query(prv, row i, row i+1 or None) made for it; header = source header + (field,); one row of look-ahead."""
    def body(ctx):
        box = {}

        def record(i):
            return it.call(Rec, [SCell(z3.Select(S.rows, i)), flds_box[0]], {})

        def rebind(ls):
            k = ls.k.t
            flds_box[0] = ls['flds']
            ls.env.vars['cur'] = record(k - 1)
            ls.env.vars['prv'] = None if ctx.branch(k == 2, 'second data row') else it.call(Rec, [sym_seq(ctx, 'prvrow', 'tuple'), flds_box[0]], {})
            box['ncalls'] = len(ls['query'].calls)

        def is_row(v, i):
            return _t(row_eq(view_seq(SCell(v)), src_row(S, i)))

        def rec_is(r, i):
            return is_row(as_v(r.attrs['_tuple']), i) if isinstance(r, Instance) else z3.BoolVal(False)

        def inv(ls):
            k = ls.k.t
            cur, prv = ls['cur'], ls['prv']
            p = (k == 2) if prv is None else z3.And(k > 2, z3.BoolVal(isinstance(prv, Instance)))
            return z3.And(k >= 2, rec_is(cur, k - 1), p)

        def judge(dout, call, i, first, last):
            pv, cv, nv = call
            r, raises, exc = bi.ucall_terms('query', [pv, cv, nv])
            row = src_row(S, i)
            o = out_row(dout, 0)
            q = smt.fresh_int('q')
            args_ok = z3.And(is_row(cv, i), (pv == as_v(None)) == first, (nv == as_v(None)) if last else is_row(nv, i + 1))
            return z3.And(args_ok, dout.len == 1, o.len == row.len + 1, z3.Select(o.arr, row.len) == r,
                          z3.ForAll([q], z3.Implies(z3.And(0 <= q, q < row.len), z3.Select(o.arr, q) == z3.Select(row.arr, q))))

        def delta(ls, x, dout):
            k = ls.k.t
            calls = ls['query'].calls
            ctx.oblige('addfieldusingcontext: one call of query per step', z3.BoolVal(len(calls) == box['ncalls'] + 1))
            ctx.oblige('addfieldusingcontext: data row i gives exactly one output row: its cells unchanged + query(prv (None iff first), row i, row i+1)',
                       judge(dout, calls[-1], k - 1, k == 2, False))
        spec = LoopSpec(invariant=inv, delta=delta, label='rows (with one row of look-ahead)')
        spec.rebind = rebind
        spec.lookahead = 1
        it = h.interp(ctx, loops={(AFC, 0): spec})
        flds_box = [None]
        S = sym_table(ctx, 'S', nmin=1)
        field = sym_cell('field')
        Rec = closure_of(it, 'petl.util.base.Record')
        res = run_generator(it, closure_of(it, AFC), [S, field, UCall('query')])
        if res.exc is not None:
            ctx.oblige('addfieldusingcontext: only the exception of `query` escapes', z3.BoolVal(res.exc.kind == 'UserError'), res.exc.origin or '')
            return
        if getattr(ctx, 'after_loop', None):
            n = S.n
            calls = res.env.lookup('query').calls
            ctx.oblige('addfieldusingcontext: the last data row is extended with query(prv, row, None)', judge(res.out, calls[-1], n - 1, n == 2, True))
            pre = ctx.pre_loop_out
            hdr = src_row(S, 0)
            o = out_row(pre, 0)
            q = smt.fresh_int('q')
            ctx.oblige('addfieldusingcontext: header = source header + (field,), once',
                       z3.And(pre.len == 1, o.len == hdr.len + 1, z3.Select(o.arr, hdr.len) == field.t,
                              z3.ForAll([q], z3.Implies(z3.And(0 <= q, q < hdr.len), z3.Select(o.arr, q) == z3.Select(hdr.arr, q)))))
        else:
            ctx.oblige('addfieldusingcontext: a table without data rows yields the header only', z3.And(res.out.len <= 1, S.n <= 1))
    h.explore(body)
