"""C08 -- the SORT-based set operations (complement / intersection, which diff, recordcomplement ... are built from): the
merge loops of itercomplement and iterintersection, proved for ALL pairs of sorted tables with the same keep-predicates as
the hash variants (contracts/c08_setops.py):

    occA(i) = #{ p < i : a[p] == a[i] },   cntB(v) = #{ q : b[q] == v }
    complement keeps row i of a    iff  occA(i) >= cntB(a[i])         (strict: iff cntB(a[i]) == 0)
    intersection keeps row i of a  iff  occA(i) <  cntB(a[i])

Precondition (established by the two sorts, C05/C11.wiring): both inputs ascending under Comparable.  Rows are compared
with Comparable (<) and with tuple == ; for rows whose cells are not themselves sequences these agree (C04: "eq agrees with
== on non-sequence values", lifted elementwise by lemma Lex), which is assumed here: tuple == is read as Comparable-equality.
Comparable is used through its contract (ORDER_LAWS_CORE, discharged by C04.ladder).

Inductive invariant of `while True` (i = index of the current a, j = index of the current b, j = len(b) when b ran out):
    every consumed b-row is <= the current a-row                              (strict: < )
    #consumed b-rows equal to a[i]  ==  min(occA(i), cntB(a[i]))              (non-strict)
Per iteration (also the one that leaves the loop): a row is yielded only if it is the current a-row and its keep-predicate
holds; an a-row that is passed over without being yielded fails the predicate; positions only advance."""
import z3
from pyvc.api import *
from pyvc.values import _t
from pyvc import smt, builtins as bi
from pyvc.smt import V
from pyvc.interp import PyExc
from contracts import lib_order
from contracts.lib_order import LT, EQ, CmpObj, ORDER_LAWS_CORE, DOMAIN
from contracts.lib_count import counting

SO = 'petl.transform.setops.'
CL = z3.Function('eqclass', V, V)


def trow(S, i):
    r = z3.Select(S.rows, i)
    return smt.mkseq(smt.seq_arr(r), smt.seq_len(r), smt.TUPLE)


def is_trow(x, S, i):
    """the interpreter value x is tuple(S[i])"""
    r = z3.Select(S.rows, i)
    return isinstance(x, Seq) and x.kind == 'tuple' and z3.And(x.arr == smt.seq_arr(r), x.len == smt.seq_len(r))


def mk_trow(S, i):
    r = z3.Select(S.rows, i)
    return Seq(smt.seq_arr(r), smt.seq_len(r), 'tuple', 'Fresh')


def theory(ctx, A, B):
    ctx.facts.extend(ORDER_LAWS_CORE)
    ctx._order_laws = True
    x, y = z3.Consts('x!cl y!cl', V)
    ctx.facts.append(z3.ForAll([x, y], z3.Implies(z3.And(DOMAIN(x), DOMAIN(y)), EQ(x, y) == (CL(x) == CL(y)))))
    p, q = smt.fresh_int('p'), smt.fresh_int('q')
    for S in (A, B):
        ctx.facts.append(z3.ForAll([p], smt.cls(trow(S, p)) == smt.TUPLE))
        ctx.facts.append(z3.ForAll([p, q], z3.Implies(z3.And(1 <= p, p <= q, q < S.n), z3.Not(LT(trow(S, q), trow(S, p))))))
    cA = counting(ctx, 'CA', lambda i: CL(trow(A, i)), witness=True)
    cB = counting(ctx, 'CB', lambda i: CL(trow(B, i)), witness=True, tail=True)
    return cA, cB


def step_lemmas(ctx, A, B, cA, cB, i0, i1, jj1, who):
    """facts about the a-row the merge moves on to (cuts: each proved on its own, then used for the invariant)"""
    k0, k1 = CL(trow(A, i0)), CL(trow(A, i1))
    adv = i1 == i0 + 1
    ctx.cut('%s (lemma): a is sorted: the next a-row is not below the current one' % who, z3.Implies(adv, z3.Not(LT(trow(A, i1), trow(A, i0)))))
    ctx.cut('%s (lemma): a next a-row of a new value has no equal among the earlier a-rows' % who, z3.Implies(z3.And(adv, k1 != k0), cA(k1, i1) == 0))
    ctx.cut('%s (lemma): ... and none among the consumed b-rows (they are all <= the previous a-row)' % who, z3.Implies(z3.And(adv, k1 != k0), cB(k1, jj1) == 0))
    ctx.cut('%s (lemma): a next a-row of the same value has one more equal before it' % who, z3.Implies(z3.And(adv, k1 == k0), cA(k1, i1) == cA(k0, i0) + 1))


def mn(x, y):
    return z3.If(x < y, x, y)


def make_complement(strict):
    qn = SO + 'itercomplement'

    @vc('C08.itercomplement.merge%s' % ('.strict' if strict else ''), functions=[qn], props=['C08', 'C03'],
        assumptions=['both inputs sorted ascending under Comparable (the sorts: C05, C11.wiring.complement)',
                     'tuple == on rows read as Comparable equality (rows without nested sequences; C04 law + lemma Lex)',
                     'Comparable through its contract (C04.ladder); counting lemmas (C07.cnt.lemmas)',
                     'while-loop invariant rule; composition of the per-iteration judgements: positions only advance (meta-level)'])
    def task(h):
        def body(ctx):
            box = {'yields': [], 'phase': 'pre'}

            def pos(ls):
                return bi.base_iter(ls['ita']).pos, bi.base_iter(ls['itb']).pos

            def idx(ls):
                pa, pb = pos(ls)
                b = ls.env.lookup('b')
                return pa - 1, (B.n if b is None else pb - 1)

            def keep(i):
                k = CL(trow(A, i))
                return (cB(k, B.n) == 0) if strict else (cA(k, i) >= cB(k, B.n))

            def inv(ls):
                pa, pb = pos(ls)
                a, b = ls.env.lookup('a'), ls.env.lookup('b')
                i, jj = idx(ls)
                q = smt.fresh_int('q')
                shape = z3.And(2 <= pa, pa <= A.n, 2 <= pb, pb <= B.n, is_trow(a, A, i) if isinstance(a, Seq) else z3.BoolVal(False),
                               (pb == B.n) if b is None else (is_trow(b, B, pb - 1) if isinstance(b, Seq) else z3.BoolVal(False)))
                ai = trow(A, i)
                if strict:
                    order = z3.ForAll([q], z3.Implies(z3.And(1 <= q, q < jj), LT(trow(B, q), ai)))
                    return z3.And(shape, order)
                order = z3.ForAll([q], z3.Implies(z3.And(1 <= q, q < jj), z3.Not(LT(ai, trow(B, q)))))
                k = CL(ai)
                return z3.And(shape, order, cB(k, jj) == mn(cA(k, i), cB(k, B.n)))

            def rebind(ls):
                pa, pb = pos(ls)
                ls.env.vars['a'] = mk_trow(A, pa - 1)
                if ctx.branch(smt.fresh_bool('b_exhausted'), 'b has run out'):
                    ls.env.vars['b'] = None
                else:
                    ls.env.vars['b'] = mk_trow(B, pb - 1)
                box['yields'] = []
                box['i0'] = pa - 1
                box['pa0'], box['pb0'] = pa, pb
                box['phase'] = 'loop'
                box['jj0'] = B.n if ls.env.vars['b'] is None else pb - 1

            def judge(ls, broke):
                pa, pb = pos(ls)
                i0 = box['i0']
                ys = box['yields']
                if ys and not strict:
                    q = smt.fresh_int('q')
                    k = CL(trow(A, i0))
                    ctx.cut('itercomplement (lemma): when a row is yielded no b-row from the current one on equals it (b is sorted and the current b-row is greater, or b ran out)',
                            z3.ForAll([q], z3.Implies(z3.And(box['jj0'] <= q, q < B.n), CL(trow(B, q)) != k)))
                    ctx.cut('itercomplement (lemma): hence all b-rows equal to it have been consumed', cB(k, B.n) == cB(k, box['jj0']))
                ctx.oblige('itercomplement: at most one row is yielded per step and positions only advance, by at most one',
                           z3.And(z3.BoolVal(len(ys) <= 1), z3.Or(pa == box['pa0'], pa == box['pa0'] + 1), z3.Or(pb == box['pb0'], pb == box['pb0'] + 1)))
                consumed = z3.BoolVal(True) if broke else (pa == box['pa0'] + 1)
                if ys:
                    y = ys[0]
                    ctx.oblige('itercomplement%s: a yielded row is the current a-row, is passed over afterwards, and satisfies the keep-predicate (%s)' %
                               ('(strict)' if strict else '', 'cntB == 0' if strict else 'occA >= cntB'),
                               z3.And(is_trow(y, A, i0) if isinstance(y, Seq) else z3.BoolVal(False), consumed, keep(i0)))
                else:
                    ctx.oblige('itercomplement%s: an a-row passed over without being yielded fails the keep-predicate' % ('(strict)' if strict else ''),
                               z3.Implies(consumed, z3.Not(keep(i0))))
                if not broke and not strict:
                    b1 = ls.env.lookup('b')
                    step_lemmas(ctx, A, B, cA, cB, i0, pa - 1, (B.n if b1 is None else pb - 1), 'itercomplement')
                if broke:
                    ctx.oblige('itercomplement: the loop is left only when a has run out (every a-row has been judged)',
                               z3.And(pa == A.n, box['i0'] == A.n - 1))

            def tail_rows(ls, x, dout):
                # b has no data rows at all: every a-row is kept
                ctx.oblige('itercomplement: with an empty b every a-row is yielded once, unchanged', z3.And(dout.len == 1, _t(row_eq(out_row(dout, 0), x)), B.n == 1))
            wspec = LoopSpec(invariant=inv, label='merge', extra_havoc=('ita', 'itb'), types={'a': 'keep', 'b': 'keep'})
            wspec.rebind = rebind
            wspec.after_body = lambda ls: judge(ls, False)
            wspec.on_break = lambda ls: judge(ls, True)
            it = h.interp(ctx, loops={(qn, 0): LoopSpec(delta=tail_rows, label='rest of a (b empty)'), (qn, 1): wspec})
            it.summaries.update(lib_order.SUMMARIES)
            it.check_pulls = False
            it.seq_eq_hook = lambda interp, a, b: SBool(EQ(as_v(a), as_v(b)))
            it.on_yield = lambda v, node: box['yields'].append(v)
            A, B = sym_table(ctx, 'A', nmin=1), sym_table(ctx, 'B', nmin=1)
            rows_are_sequences(ctx, A); rows_are_sequences(ctx, B)
            cA, cB = theory(ctx, A, B)
            res = run_generator(it, closure_of(it, qn), [A, B, strict])
            if res.exc is not None:
                ctx.oblige('itercomplement: never raises', z3.BoolVal(False), res.exc.origin or '')
                return
            if box['phase'] == 'pre':
                ys = box['yields']
                if getattr(ctx, 'after_loop', None):
                    return          # b empty: header, first row, then the for loop (judged by tail_rows)
                ctx.oblige('itercomplement: an a without data rows yields its header only', z3.And(z3.BoolVal(len(ys) == 1), A.n == 1))
        h.explore(body)
    return task


make_complement(False)
make_complement(True)


@vc('C08.iterintersection.merge', functions=[SO + 'iterintersection'], props=['C08', 'C03'],
    assumptions=['as C08.itercomplement.merge', 'the loop is left through StopIteration of either input (caught outside the loop): judged at the end of the pass'])
def intersection_merge(h):
    qn = SO + 'iterintersection'

    def body(ctx):
        box = {'yields': [], 'phase': 'pre'}

        def pos(env):
            return bi.base_iter(env.lookup('ita')).pos, bi.base_iter(env.lookup('itb')).pos

        def keep(i):
            k = CL(trow(A, i))
            return cA(k, i) < cB(k, B.n)

        def inv(ls):
            pa, pb = pos(ls.env)
            a, b = ls.env.lookup('a'), ls.env.lookup('b')
            i, jj = pa - 1, pb - 1
            q = smt.fresh_int('q')
            ai = trow(A, i)
            k = CL(ai)
            return z3.And(2 <= pa, pa <= A.n, 2 <= pb, pb <= B.n,
                          is_trow(a, A, i) if isinstance(a, Seq) else z3.BoolVal(False), is_trow(b, B, jj) if isinstance(b, Seq) else z3.BoolVal(False),
                          z3.ForAll([q], z3.Implies(z3.And(1 <= q, q < jj), z3.Not(LT(ai, trow(B, q))))),
                          cB(k, jj) == mn(cA(k, i), cB(k, B.n)))

        def rebind(ls):
            pa, pb = pos(ls.env)
            ls.env.vars['a'] = mk_trow(A, pa - 1)
            ls.env.vars['b'] = mk_trow(B, pb - 1)
            box.update(yields=[], i0=pa - 1, jj0=pb - 1, pa0=pa, pb0=pb, phase='loop', judged=False)

        def lemmas_no_more_b(i0, jj0):
            q = smt.fresh_int('q')
            k = CL(trow(A, i0))
            ctx.cut('iterintersection (lemma): the current b-row is greater than the current a-row, so no b-row from it on equals that a-row',
                    z3.ForAll([q], z3.Implies(z3.And(jj0 <= q, q < B.n), CL(trow(B, q)) != k)))
            ctx.cut('iterintersection (lemma): hence every b-row equal to it has been consumed', cB(k, B.n) == cB(k, jj0))

        def judge_step(ls):
            pa, pb = pos(ls.env)
            i0, jj0, ys = box['i0'], box['jj0'], box['yields']
            box['judged'] = True
            ctx.oblige('iterintersection: at most one row is yielded per step and positions only advance, by at most one',
                       z3.And(z3.BoolVal(len(ys) <= 1), z3.Or(pa == box['pa0'], pa == box['pa0'] + 1), z3.Or(pb == box['pb0'], pb == box['pb0'] + 1)))
            if ys:
                y = ys[0]
                ctx.oblige('iterintersection: a yielded row is the current a-row, is passed over afterwards, and satisfies occA < cntB',
                           z3.And(is_trow(y, A, i0) if isinstance(y, Seq) else z3.BoolVal(False), pa == box['pa0'] + 1, keep(i0)))
            else:
                if not isinstance(z3.simplify(pa == box['pa0'] + 1), bool) and ctx.branch(pa == box['pa0'] + 1, 'a advanced without a yield'):
                    lemmas_no_more_b(i0, jj0)
                    ctx.oblige('iterintersection: an a-row passed over without being yielded fails occA < cntB', z3.Not(keep(i0)))
            step_lemmas(ctx, A, B, cA, cB, i0, pa - 1, pb - 1, 'iterintersection')

        def judge_exit(env):
            """the step that ended the loop through StopIteration"""
            pa, pb = pos(env)
            i0, jj0, ys = box['i0'], box['jj0'], box['yields']
            a_out = bi.base_iter(env.lookup('ita')).exhausted_seen
            b_out = bi.base_iter(env.lookup('itb')).exhausted_seen
            ctx.oblige('iterintersection: the loop ends because exactly one input ran out', z3.BoolVal(bool(a_out) != bool(b_out) and len(ys) <= 1))
            if ys:
                y = ys[0]
                ctx.oblige('iterintersection: (last step) a yielded row is the current a-row and satisfies occA < cntB',
                           z3.And(is_trow(y, A, i0) if isinstance(y, Seq) else z3.BoolVal(False), keep(i0)))
            p = smt.fresh_int('p')
            if a_out:
                ctx.oblige('iterintersection: a ran out: every a-row has been judged', pa == A.n)
                if not ys:
                    lemmas_no_more_b(i0, jj0)
                    ctx.oblige('iterintersection: (last step) the a-row passed over without being yielded fails occA < cntB', z3.Not(keep(i0)))
            else:
                first = (i0 + 1) if ys else i0
                k = CL(trow(A, i0))
                ctx.oblige('iterintersection: b ran out', pb == B.n)
                # everything in b is consumed: what it holds of the current a-row's value is accounted for, greater a-rows have no partner
                ctx.cut('iterintersection (lemma): all of b is <= the current a-row',
                        z3.ForAll([p], z3.Implies(z3.And(1 <= p, p < B.n), z3.Not(LT(trow(A, i0), trow(B, p))))))
                ctx.cut('iterintersection (lemma): b holds no more rows equal to the current a-row than a-rows equal to it have been passed',
                        cB(k, B.n) <= cA(k, first))
                ctx.oblige('iterintersection: b ran out: no remaining a-row satisfies occA < cntB (none of them is yielded)',
                           z3.ForAll([p], z3.Implies(z3.And(first <= p, p < A.n), z3.Not(keep(p)))))
        wspec = LoopSpec(invariant=inv, label='merge', extra_havoc=('ita', 'itb'), types={'a': 'keep', 'b': 'keep'})
        wspec.rebind = rebind
        wspec.after_body = judge_step
        it = h.interp(ctx, loops={(qn, 0): wspec})
        it.summaries.update(lib_order.SUMMARIES)
        it.check_pulls = False
        it.seq_eq_hook = lambda interp, a, b: SBool(EQ(as_v(a), as_v(b)))
        it.on_yield = lambda v, node: box['yields'].append(v)
        A, B = sym_table(ctx, 'A', nmin=1), sym_table(ctx, 'B', nmin=1)
        rows_are_sequences(ctx, A); rows_are_sequences(ctx, B)
        cA, cB = theory(ctx, A, B)
        res = run_generator(it, closure_of(it, qn), [A, B])
        if res.exc is not None:
            ctx.oblige('iterintersection: never raises', z3.BoolVal(False), res.exc.origin or '')
            return
        if box['phase'] == 'pre':
            ctx.oblige('iterintersection: an input without data rows gives the header only', z3.And(z3.BoolVal(len(box['yields']) == 1), z3.Or(A.n == 1, B.n == 1)))
        elif not box['judged']:
            judge_exit(res.env)
    h.explore(body)
