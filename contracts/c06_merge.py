"""C06 -- sort-merge joins, the merge half, at GROUP level, for ALL pairs of tables (unbounded numbers of groups).

itertools.groupby is used through its contract T2 (contracts see the two inputs as sequences of groups with keys
KL[0..nL), KR[0..nR)); the precondition from the two sorts + T2 is that the keys are STRICTLY ascending under the ordering of
C04 (`sort` orders by the key, `groupby` merges runs of == keys).  Keys are Comparable objects seen through their contract
(contracts/lib_order.py: LT / EQ with the laws proved in C04.ladder).  `joinrows` -- whose row assembly is proved
separately (C06.joinrows.*) -- is replaced by an event ('joinrows', left group | None, right group | None).

Proved (iterjoin, for leftouter / rightouter symbolic):
  * inductive invariant of `while True`:  every left group before the current one is < the current right key, every right
    group before the current one is < the current left key; the loop variables denote the current groups;
  * each iteration settles exactly what the relational operator prescribes: key(L) < key(R): the left group has NO partner
    anywhere and is emitted alone iff leftouter; symmetric for >; otherwise the keys are EQ and exactly that pair is emitted;
    the iterators advance accordingly;
  * at every exit (either side running out at any of the six `next` calls): a fetched group that was not settled is
    flushed exactly when its side is outer, a settled one never again, the remaining groups of an outer side are each
    emitted once, alone, and have no partner; nothing else is emitted.
With the composition argument (each group is settled exactly once: positions only advance) this is the relational
join / left / right / outer join on groups, in ascending key order."""
import ast
import z3
from pyvc.api import *
from pyvc.values import _t
from pyvc import smt, builtins as bi
from pyvc.smt import V
from pyvc.interp import loops_of, ListIter, SrcIter
from contracts import lib_order
from contracts.lib_order import LT, EQ, CmpObj

J = 'petl.transform.joins.'
inner = bi.grp_inner


class GKey(CmpObj):
    """the key object groupby delivers for group element e: a Comparable whose value is grp_inner(e)"""

    def __init__(self, e):
        CmpObj.__init__(self, inner(e))
        self.e = e


def ordinals(program, qn):
    m, fnode, _ = program.find(qn)
    out = {}
    for k, n in enumerate(loops_of(fnode)):
        if isinstance(n, ast.While):
            out['while'] = k
        elif isinstance(n.target, ast.Tuple) and [getattr(e, 'id', None) for e in n.target.elts] == ['lkval', 'lrowgrp']:
            out['ltail'] = k
        elif isinstance(n.target, ast.Tuple) and [getattr(e, 'id', None) for e in n.target.elts] == ['rkval', 'rrowgrp']:
            out['rtail'] = k
        elif isinstance(n.target, ast.Name) and n.target.id == 'row' and isinstance(n.iter, ast.Name) and n.iter.id == 'lrowgrp':
            out.setdefault('rows_of_left_group', []).append(k)
    return out


def pos_of(elem):
    """index term of a group element Select(garr, idx)"""
    return elem.arg(1)


def off(term, base):
    d = z3.simplify(term - base)
    return d.as_long() if z3.is_int_value(d) else None


def make(lo_flag, ro_flag, fname='iterjoin'):
  QN = J + fname

  @vc('C06.%s.merge.%s%s' % (fname, 'L' if lo_flag else 'l', 'R' if ro_flag else 'r'), functions=[QN], props=['C06'],
      assumptions=['T2 itertools.groupby at group level; precondition: group keys strictly ascending on both sides (the sorts of JoinView + T2)',
                   'Comparable through its contract (laws discharged by C04.ladder); joinrows through the event it stands for (row assembly: C06.joinrows.*)',
                   'single key field given by name on each side', 'composition: positions only advance, so every group is settled exactly once (meta-level)'])
  def iterjoin_merge(h):
      ords = ordinals(h.program, QN)

      def body(ctx):
          G = {}            # 'L' / 'R' -> the group iterator (SrcIter over group elements)
          st = {}

          def on_groupby(gi):
              side = 'L' if 'L' not in G else 'R'
              G[side] = gi
              a, b = smt.fresh_int('a'), smt.fresh_int('b')
              key = lambda idx: inner(z3.Select(gi.arr, idx))
              ctx.facts.append(z3.ForAll([a, b], z3.Implies(z3.And(0 <= a, a < b, b < gi.n), LT(key(a), key(b)))))
              ctx.facts.append(z3.ForAll([a], lib_order.DOMAIN(key(a))))

          def joinrows_event(interp, args, kw, node):
              def ge(x):
                  if x is None:
                      return None
                  return getattr(x, 'group_elem', 'EMPTY')
              interp.trace.append(('joinrows', ge(args[0]), ge(args[1])))
              return ListIter([])

          def kL(idx): return inner(z3.Select(G['L'].arr, idx))
          def kR(idx): return inner(z3.Select(G['R'].arr, idx))

          def no_partner_left(k):      # left key k equals no right key
              b = smt.fresh_int('b')
              return z3.ForAll([b], z3.Implies(z3.And(0 <= b, b < G['R'].n), z3.Not(EQ(k, kR(b)))))

          def no_partner_right(k):
              a = smt.fresh_int('a')
              return z3.ForAll([a], z3.Implies(z3.And(0 <= a, a < G['L'].n), z3.Not(EQ(kL(a), k))))

          def group_iter(side, idx):
              e = z3.Select(G[side].arr, idx)
              s = view_seq(SCell(bi.grp_rows(e)))
              r = SrcIter(s.arr, s.len, 'group')
              r.group_elem = e
              return r

          # ---------------------------------------------------------------- the while loop
          def rebind(ls):
              lg, rg = G['L'], G['R']
              st['i0'], st['j0'] = lg.pos - 1, rg.pos - 1
              env = ls.env
              it.set_var(env, 'lkval', GKey(z3.Select(lg.arr, lg.pos - 1)))
              it.set_var(env, 'rkval', GKey(z3.Select(rg.arr, rg.pos - 1)))
              it.set_var(env, 'lrowgrp', group_iter('L', lg.pos - 1))
              if env.has('rrowgrp'):
                  it.set_var(env, 'rrowgrp', group_iter('R', rg.pos - 1))
              if env.has('rstarted'):
                  it.set_var(env, 'rstarted', True)

          def inv(ls):
              lg, rg = G['L'], G['R']
              a, b = smt.fresh_int('a'), smt.fresh_int('b')
              lk, rk = ls['lkval'], ls['rkval']
              i, j = lg.pos - 1, rg.pos - 1
              obj = z3.And(z3.BoolVal(isinstance(lk, CmpObj) and isinstance(rk, CmpObj)),
                           lk.v == kL(i) if isinstance(lk, CmpObj) else z3.BoolVal(False),
                           rk.v == kR(j) if isinstance(rk, CmpObj) else z3.BoolVal(False),
                           z3.BoolVal(getattr(ls['lrowgrp'], 'group_elem', None) is not None) and getattr(ls['lrowgrp'], 'group_elem') == z3.Select(lg.arr, i),
                           (getattr(ls['rrowgrp'], 'group_elem') == z3.Select(rg.arr, j) if getattr(ls['rrowgrp'], 'group_elem', None) is not None else z3.BoolVal(False)) if ls.env.has('rrowgrp') else z3.BoolVal(True))
              started = ls['rstarted'] if ls.env.has('rstarted') else True
              return z3.And(lg.pos >= 1, lg.pos <= lg.n, rg.pos >= 1, rg.pos <= rg.n, obj,
                            z3.BoolVal(started is True) if isinstance(started, bool) else _t(started),
                            z3.ForAll([a], z3.Implies(z3.And(0 <= a, a < i), LT(kL(a), kR(j)))),
                            z3.ForAll([b], z3.Implies(z3.And(0 <= b, b < j), LT(kR(b), kL(i)))))

          def settle_check(events, i0, j0, label):
              """what one pass through the body may emit, given the keys of the current groups (LG[i0], RG[j0])"""
              lk, rk = kL(i0), kR(j0)
              le, re_ = z3.Select(G['L'].arr, i0), z3.Select(G['R'].arr, j0)
              lo, ro = ctx.branch(leftouter), ctx.branch(rightouter)
              if ctx.branch(LT(lk, rk), 'spec: left key smaller'):
                  exp = [('L', le)] if lo else []
                  ctx.oblige('%s: key(L) < key(R): the left group has no partner on the right at all' % label, no_partner_left(lk))
              elif ctx.branch(LT(rk, lk), 'spec: right key smaller'):
                  exp = [('R', re_)] if ro else []
                  ctx.oblige('%s: key(L) > key(R): the right group has no partner on the left at all' % label, no_partner_right(rk))
              else:
                  exp = [('LR', le, re_)] if fname != 'iterantijoin' else []     # antijoin drops matched groups
                  ctx.oblige('%s: neither smaller: the two keys are EQ' % label, EQ(lk, rk))
              got = []
              for e in events:
                  if e[0] != 'joinrows':
                      continue
                  if e[1] is not None and e[2] is not None:
                      got.append(('LR', e[1], e[2]))
                  elif e[1] is not None:
                      got.append(('L', e[1]))
                  else:
                      got.append(('R', e[2]))
              same = len(got) == len(exp) and all(g[0] == x[0] for g, x in zip(got, exp))
              eqs = [z3.BoolVal(same)]
              if same:
                  for g, x in zip(got, exp):
                      for u, v in zip(g[1:], x[1:]):
                          eqs.append(u == v if not isinstance(u, str) else z3.BoolVal(False))
              ctx.oblige('%s: exactly the prescribed group(s) are emitted: L alone iff leftouter, R alone iff rightouter, the pair when EQ' % label, z3.And(eqs))
              return exp

          def after_body(ls):
              lg, rg = G['L'], G['R']
              ev = it.trace[ls.trace_start:]
              settle_check(ev, st['i0'], st['j0'], 'iteration')
              dl, dr = off(lg.pos - 1, st['i0']), off(rg.pos - 1, st['j0'])
              lk, rk = kL(st['i0']), kR(st['j0'])
              adv = z3.If(LT(lk, rk), z3.BoolVal((dl, dr) == (1, 0)), z3.If(LT(rk, lk), z3.BoolVal((dl, dr) == (0, 1)), z3.BoolVal((dl, dr) == (1, 1))))
              ctx.oblige('iteration: the smaller side advances by one group, both when EQ', adv)
              st['completed'] = True

          wspec = LoopSpec(invariant=inv, label='merge loop', extra_havoc=('lgit', 'rgit'))
          wspec.rebind = rebind
          wspec.after_body = after_body

          # ---------------------------------------------------------------- the tails
          def tail_delta(side):
              def delta(ls, x, dout):
                  ev = [e for e in it.trace[ls.trace_start:] if e[0] == 'joinrows']
                  elem = z3.Select(G[side].arr, ls.k.t)
                  k = inner(elem)
                  if side == 'L':
                      ok = len(ev) == 1 and ev[0][2] is None and ev[0][1] is not None and not isinstance(ev[0][1], str)
                      ctx.oblige('left tail: every remaining left group is emitted once, alone', z3.And(z3.BoolVal(ok), ev[0][1] == elem) if ok else z3.BoolVal(False))
                      ctx.oblige('left tail: a remaining left group has no partner on the right', no_partner_left(k))
                  else:
                      ok = len(ev) == 1 and ev[0][1] is None and ev[0][2] is not None and not isinstance(ev[0][2], str)
                      ctx.oblige('right tail: every remaining right group is emitted once, alone', z3.And(z3.BoolVal(ok), ev[0][2] == elem) if ok else z3.BoolVal(False))
                      ctx.oblige('right tail: a remaining right group has no partner on the left', no_partner_right(k))
              return delta

          def tail_exit(side):
              def f(ls, count):
                  st[side + 'tail_k0'] = ls.k0.t
                  it.trace.append(('MARK', side + 'tail'))
              return f
          lspec, rspec = LoopSpec(delta=tail_delta('L'), label='left tail'), LoopSpec(delta=tail_delta('R'), label='right tail')
          lspec.on_exit, rspec.on_exit = tail_exit('L'), tail_exit('R')
          loops = {(QN, ords['while']): wspec, (QN, ords['ltail']): lspec}
          if 'rtail' in ords:
              loops[(QN, ords['rtail'])] = rspec
          for k_ in ords.get('rows_of_left_group', []):
              def row_delta(ls, x, dout):
                  ctx.oblige('antijoin: each row of an emitted left group is yielded once, as a tuple of itself', z3.And(dout.len == 1, _t(row_eq(out_row(dout, 0), x))))

              def row_exit(ls, count):
                  it.trace.append(('joinrows', getattr(ls['lrowgrp'], 'group_elem', 'EMPTY'), None))
              rs = LoopSpec(delta=row_delta, label='rows of a left group')
              rs.on_exit = row_exit
              loops[(QN, k_)] = rs
          summ = dict(lib_order.SUMMARIES)
          summ['petl.comparison.comparable_itemgetter'] = lambda interp, args, kw, node: UCall('getkey', may_raise=False)
          summ[QN + '.<locals>.joinrows'] = joinrows_event
          summ['petl.util.base.rowgetter'] = lambda interp, args, kw, node: UCall('rgetv', may_raise=False)
          it = h.interp(ctx, loops=loops, summaries=summ)
          it.overapprox_filters = True
          it.check_pulls = False
          it.group_key_factory = GKey
          it.on_groupby = on_groupby
          ctx.facts.extend(lib_order.ORDER_LAWS_CORE)
          ctx._order_laws = True
          L, R = sym_table(ctx, 'L', nmin=1), sym_table(ctx, 'R', nmin=1)
          leftouter, rightouter = lo_flag, ro_flag
          fn = closure_of(it, QN)
          args = {'iterjoin': [L, R, 'a', 'b', leftouter, rightouter, sym_cell('missing'), None, None], 'iterlookupjoin': [L, R, 'a', 'b', sym_cell('missing'), None, None],
                  'iterantijoin': [L, R, 'a', 'b']}[fname]
          res = run_generator(it, fn, args)
          if res.exc is not None:
              ctx.oblige('merge join: only FieldSelectionError escapes (unknown key field)', z3.BoolVal(res.exc.kind == 'FieldSelectionError'), res.exc.origin or '')
              return
          # ---------------------------------------------------------------- judge the exit
          tr = it.trace
          marks = [k for k, e in enumerate(tr) if e[0] == 'except' and e[1] == 'StopIteration']
          ctx.oblige('merge join: the merge loop is left exactly once, through the StopIteration of an exhausted side', z3.BoolVal(len(marks) == 1))
          if len(marks) != 1:
              return
          main, tail = tr[:marks[0]], tr[marks[0] + 1:]
          lg, rg = G.get('L'), G.get('R')
          lo, ro = ctx.branch(leftouter), ctx.branch(rightouter)
          # positions when the loop was left
          exitL = st.get('Ltail_k0', lg.pos if lg is not None else None)
          exitR = st.get('Rtail_k0', rg.pos if rg is not None else None)
          main_ev = [e for e in main if e[0] == 'joinrows']
          if 'i0' in st:          # a symbolic iteration was cut short by an exhausted side: it must still have settled correctly
              settle_check(main_ev, st['i0'], st['j0'], 'last (cut short) iteration')
          else:
              ctx.oblige('before the loop nothing is emitted', z3.BoolVal(len(main_ev) == 0))

          def settled(side, elem):
              """is this group mentioned by an emission of the main phase? (formula)"""
              idx = 1 if side == 'L' else 2
              cl = [e[idx] == elem for e in main_ev if e[idx] is not None and not isinstance(e[idx], str)]
              if 'i0' in st:
                  # matched in the iteration that was cut short (a match may emit nothing: antijoin)
                  cur0 = z3.Select(G[side].arr, st['i0'] if side == 'L' else st['j0'])
                  cl.append(z3.And(elem == cur0, EQ(kL(st['i0']), kR(st['j0']))))
              return z3.Or(cl or [z3.BoolVal(False)])

          def split_tail():
              seg = {'hl': [], 'lt': [], 'hr': [], 'rt': []}
              cur = 'hl'
              for e in tail:
                  if e[0] == 'MARK':
                      cur = 'hr' if e[1] == 'Ltail' else 'done'
                      continue
                  if e[0] == 'joinrows':
                      if cur == 'hl' and e[1] is None:
                          cur = 'hr'
                      seg[cur if cur in seg else 'rt'].append(e)
              return seg
          seg = split_tail()
          # hanging left group
          fetchedL = z3.simplify(exitL >= 1) if exitL is not None else z3.BoolVal(False)
          if exitL is not None and ctx.branch(fetchedL, 'a left group was fetched'):
              cur = z3.Select(lg.arr, exitL - 1)
              flushed = [e for e in seg['hl'] if e[2] is None]
              want = z3.And(z3.BoolVal(lo), z3.Not(settled('L', cur)))
              ctx.oblige('exit: the fetched left group is flushed exactly when leftouter and it has not been settled (never twice, never when settled)',
                         z3.If(want, z3.And(z3.BoolVal(len(flushed) == 1), flushed[0][1] == cur) if len(flushed) == 1 and not isinstance(flushed[0][1], str) else z3.BoolVal(False),
                               z3.BoolVal(len([e for e in flushed if not isinstance(e[1], str)]) == 0)))
              if len(flushed) == 1 and not isinstance(flushed[0][1], str):
                  ctx.oblige('exit: a flushed left group has no partner on the right', z3.Implies(want, no_partner_left(inner(cur))), solver='cvc5')
          else:
              ctx.oblige('exit: without a fetched left group nothing of the left is flushed', z3.BoolVal(all(isinstance(e[1], str) for e in seg['hl'])))
          # hanging right group
          fetchedR = z3.simplify(exitR >= 1) if exitR is not None else z3.BoolVal(False)
          hr = [e for e in seg['hr'] if e[1] is None and not isinstance(e[2], str)]
          if exitR is not None and ctx.branch(fetchedR, 'a right group was fetched'):
              cur = z3.Select(rg.arr, exitR - 1)
              want = z3.And(z3.BoolVal(ro), z3.Not(settled('R', cur)))
              ctx.oblige('exit: the fetched right group is flushed exactly when rightouter and it has not been settled',
                         z3.If(want, z3.And(z3.BoolVal(len(hr) == 1), hr[0][2] == cur) if len(hr) == 1 else z3.BoolVal(False), z3.BoolVal(len(hr) == 0)))
              if len(hr) == 1:
                  ctx.oblige('exit: a flushed right group has no partner on the left', z3.Implies(want, no_partner_right(inner(cur))))
          else:
              ctx.oblige('exit: without a fetched right group nothing of the right is flushed', z3.BoolVal(len(hr) == 0))
          # an outer side whose tail loop ran has delivered all of its groups (stateless rule); an inner side emits nothing more
          if not lo:
              ctx.oblige('exit: without leftouter no left group is emitted alone after the loop', z3.BoolVal(len([e for e in tail if e[0] == 'joinrows' and e[2] is None and not isinstance(e[1], str)]) == 0))
          if not ro:
              ctx.oblige('exit: without rightouter no right group is emitted alone after the loop', z3.BoolVal(len([e for e in tail if e[0] == 'joinrows' and e[1] is None]) == 0))
          # the side that did not run out must be the one whose remaining groups are flushed; the other side is exhausted
          ctx.oblige('exit: the loop is left only when a side is exhausted', z3.Or(exitL == lg.n if lg is not None else z3.BoolVal(True), exitR == rg.n if rg is not None else z3.BoolVal(True)))
      h.explore(body)
  return iterjoin_merge


for _l in (False, True):
    for _r in (False, True):
        make(_l, _r)
make(True, False, 'iterlookupjoin')      # lookupjoin = left join on groups; joinrows(L, R) there takes the FIRST right row only (C06.joinrows / bounded)
make(True, False, 'iterantijoin')        # antijoin = the left groups without a partner (matched groups dropped)
