"""C11 -- execution-strategy arguments never change results, the wiring half: every sort-backed public constructor is
executed from the real AST with symbolic buffersize / tempdir / cache arguments and the object graph it returns is
inspected:
  * every SortView reachable from the result carries exactly the caller's buffersize, tempdir and cache (no inner sort
    silently falls back to the defaults -- the defect class repaired in groupselectmin/max, diff, unjoin);
  * with presorted=False each source reaches the operator through a sort on the operator's own key; with presorted=True
    no sort is inserted (except where the operator must sort anyway);
  * nothing is read at construction.
Together with the strategy-free contract of the sort itself (C05: the rows that reach the merge do not depend on
buffersize; bounded: the merge) this is the deductive content of C11; the result-equality clause is the bounded check."""
import z3
from pyvc.api import *
from pyvc import smt
from pyvc.interp import Instance

T = 'petl.transform.'
f1 = lambda n='f': UCall(n)
# (name, qualified function, args builder(a, b) -> (args, kwargs), sorts expected without presorted, sorts expected with presorted=True or None if n/a)
CATALOGUE = [
    ('join', T + 'joins.join', lambda a, b: ([a, b], {'key': 'k'}), 2, 0, {'k'}, 2),
    ('leftjoin', T + 'joins.leftjoin', lambda a, b: ([a, b], {'key': 'k'}), 2, 0, {'k'}, 2),
    ('rightjoin', T + 'joins.rightjoin', lambda a, b: ([a, b], {'lkey': 'k', 'rkey': 'j'}), 2, 0, {'k','j'}, 2),
    ('outerjoin', T + 'joins.outerjoin', lambda a, b: ([a, b], {'key': 'k'}), 2, 0, {'k'}, 2),
    ('antijoin', T + 'joins.antijoin', lambda a, b: ([a, b], {'key': 'k'}), 2, 0, {'k'}, None),
    ('lookupjoin', T + 'joins.lookupjoin', lambda a, b: ([a, b], {'key': 'k'}), 2, 0, {'k'}, 2),
    ('unjoin', T + 'joins.unjoin', lambda a, b: ([a, 'v'], {}), 1, 0, {'v'}, None),
    ('unjoin.key', T + 'joins.unjoin', lambda a, b: ([a, 'v'], {'key': 'k'}), 2, None, {None}, None),
    ('complement', T + 'setops.complement', lambda a, b: ([a, b], {}), 2, 0, {None}, None),
    ('intersection', T + 'setops.intersection', lambda a, b: ([a, b], {}), 2, 0, {None}, None),
    ('diff', T + 'setops.diff', lambda a, b: ([a, b], {}), 2, 0, {None}, None),
    ('duplicates', T + 'dedup.duplicates', lambda a, b: ([a, 'k'], {}), 1, 0, {'k'}, None),
    ('unique', T + 'dedup.unique', lambda a, b: ([a, 'k'], {}), 1, 0, {'k'}, None),
    ('distinct', T + 'dedup.distinct', lambda a, b: ([a, 'k'], {}), 1, 0, {'k'}, None),
    ('conflicts', T + 'dedup.conflicts', lambda a, b: ([a, 'k'], {}), 1, 0, {'k'}, None),
    ('aggregate', T + 'reductions.aggregate', lambda a, b: ([a, 'k', f1()], {}), 1, 0, {'k'}, None),
    ('rowreduce', T + 'reductions.rowreduce', lambda a, b: ([a, 'k', f1()], {}), 1, 0, {'k'}, None),
    ('fold', T + 'reductions.fold', lambda a, b: ([a, 'k', f1()], {}), 1, 0, {'k'}, None),
    ('groupselectfirst', T + 'reductions.groupselectfirst', lambda a, b: ([a, 'k'], {}), 1, 0, {'k'}, None),
    ('groupselectlast', T + 'reductions.groupselectlast', lambda a, b: ([a, 'k'], {}), 1, 0, {'k'}, None),
    ('groupselectmin', T + 'reductions.groupselectmin', lambda a, b: ([a, 'k', 'v'], {}), 2, 2, {'k','v'}, None),
    ('groupselectmax', T + 'reductions.groupselectmax', lambda a, b: ([a, 'k', 'v'], {}), 2, 2, {'k','v'}, None),
    ('mergeduplicates', T + 'reductions.mergeduplicates', lambda a, b: ([a, 'k'], {}), 1, 0, {'k'}, None),
    ('pivot', T + 'reshape.pivot', lambda a, b: ([a, 'k', 'j', 'v', f1()], {}), 1, 0, {('k','j')}, None),
    ('rowgroupmap', T + 'maps.rowgroupmap', lambda a, b: ([a, 'k', f1()], {}), 1, 0, {'k'}, None),
]


def reachable(obj, seen=None, depth=0):
    """all interpreter Instances reachable through attributes / tuples (the view graph)"""
    seen = seen if seen is not None else []
    if depth > 12 or any(o is obj for o in seen):
        return seen
    if isinstance(obj, Instance):
        seen.append(obj)
        for v in obj.attrs.values():
            reachable(v, seen, depth + 1)
    elif isinstance(obj, (tuple, list)):
        for v in obj:
            reachable(v, seen, depth + 1)
    elif isinstance(obj, PyList):
        for v in obj.items:
            reachable(v, seen, depth + 1)
    return seen


def make(name, qn, builder, n_sorts, n_presorted, keys, n_stacks):
    @vc('C11.wiring.' + name, functions=[qn, T + 'sorts.SortView.__init__'], props=['C11', 'C02'] + (['C06'] if n_stacks else []),
        assumptions=['the object graph is inspected through view attributes (sort-backed views keep their (sorted) inputs as attributes)'])
    def task(h):
        for presorted in ([False, True] if n_presorted is not None else [False]):
            def body(ctx, presorted=presorted):
                it = h.interp(ctx)
                it.overapprox_filters = True
                a, b = sym_table(ctx, 'A', nmin=0), sym_table(ctx, 'B', nmin=0)
                B_, tmp, cache = sym_int('buffersize'), sym_cell('tempdir'), sym_bool('cache')
                args, kw = builder(a, b)
                kw = dict(kw, buffersize=B_, tempdir=tmp, cache=cache)
                if n_presorted is not None:
                    kw['presorted'] = presorted
                try:
                    res = it.call(closure_of(it, qn), args, kw)
                except PyExc as e:
                    ctx.oblige('%s: the constructor accepts the strategy arguments' % name, z3.BoolVal(False), e.origin or '')
                    return
                sorts = [o for o in reachable(res) if o.cls.name == 'SortView']
                ok = all(s.attrs.get('buffersize') is B_ and s.attrs.get('tempdir') is tmp and s.attrs.get('cache') is cache for s in sorts)
                ctx.oblige('%s(presorted=%s): every sort it builds carries the caller\'s buffersize, tempdir and cache' % (name, presorted), z3.BoolVal(ok))
                want = n_presorted if presorted else n_sorts
                ctx.oblige('%s(presorted=%s): %d sort(s) inserted' % (name, presorted, want), z3.BoolVal(len(sorts) == want))
                def keyof(sv):
                    k = sv.attrs.get('key')
                    return tuple(k) if isinstance(k, (tuple, list)) else (tuple(k.items) if isinstance(k, PyList) else k)
                ctx.oblige('%s(presorted=%s): every sort is on one of the operator\'s own keys %s' % (name, presorted, sorted(map(str, keys))),
                           z3.BoolVal(all(keyof(sv) in keys for sv in sorts)))
                if n_stacks is not None:
                    stacks = [o for o in reachable(res) if o.cls.name == 'StackView']
                    ctx.oblige('%s(presorted=%s): both inputs are squared up (stack) whether or not they are sorted' % (name, presorted), z3.BoolVal(len(stacks) == n_stacks))
                    ctx.oblige('%s(presorted=%s): the sort is applied to the squared-up table (rows are padded BEFORE their key is read)' % (name, presorted),
                               z3.BoolVal(all(isinstance(sv.attrs.get('source'), Instance) and sv.attrs['source'].cls.name == 'StackView' for sv in sorts)))
                ctx.oblige('%s: nothing is read at construction' % name, z3.BoolVal(not getattr(a, 'iterators', []) and not getattr(b, 'iterators', [])))
            h.explore(body)
    return task


for _e in CATALOGUE:
    make(*_e)
