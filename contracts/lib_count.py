"""Ghost counting functions  C(k, m) = #{ i in [1, m) : key(i) == k }  over the data rows of a table (axiomatised by their
recursion); the two lemmas contracts use (bounds, monotone in m) are proved by the induction obligations of task
C07.cnt.lemmas for an arbitrary key sequence."""
import z3
from pyvc import smt
from pyvc.smt import V


def counting(ctx, name, keyterm):
    """declare C_name with its axioms for the key sequence keyterm(i); returns the z3 function"""
    C = z3.Function(name, V, z3.IntSort(), z3.IntSort())
    kap, m, i, j = z3.Const('kap!' + name, V), smt.fresh_int('m'), smt.fresh_int('i'), smt.fresh_int('j')
    ctx.facts.append(z3.ForAll([kap], C(kap, 1) == 0))
    ctx.facts.append(z3.ForAll([kap, m], z3.Implies(m >= 1, C(kap, m + 1) == C(kap, m) + z3.If(keyterm(m) == kap, 1, 0))))
    ctx.facts.append(z3.ForAll([kap, m], z3.Implies(m >= 1, z3.And(C(kap, m) >= 0, C(kap, m) <= m - 1))))
    ctx.facts.append(z3.ForAll([kap, i, j], z3.Implies(z3.And(1 <= i, i <= j), C(kap, i) <= C(kap, j))))
    return C
