"""Ghost counting functions  C(k, m) = #{ i in [1, m) : key(i) == k }  over the data rows of a table (axiomatised by their
recursion); the two lemmas contracts use (bounds, monotone in m) are proved by the induction obligations of task
C07.cnt.lemmas for an arbitrary key sequence."""
import z3
from pyvc import smt
from pyvc.smt import V


def counting(ctx, name, keyterm, witness=False, tail=False):
    """declare C_name with its axioms for the key sequence keyterm(i); returns the z3 function"""
    C = z3.Function(name, V, z3.IntSort(), z3.IntSort())
    kap, m, i, j = z3.Const('kap!' + name, V), smt.fresh_int('m'), smt.fresh_int('i'), smt.fresh_int('j')
    ctx.facts.append(z3.ForAll([kap], C(kap, 1) == 0))
    ctx.facts.append(z3.ForAll([kap, m], z3.Implies(m >= 1, C(kap, m + 1) == C(kap, m) + z3.If(keyterm(m) == kap, 1, 0))))
    ctx.facts.append(z3.ForAll([kap, m], z3.Implies(m >= 1, z3.And(C(kap, m) >= 0, C(kap, m) <= m - 1))))
    ctx.facts.append(z3.ForAll([kap, i, j], z3.Implies(z3.And(1 <= i, i <= j), C(kap, i) <= C(kap, j))))
    if witness:
        # C(k, m) > 0  <=>  some row in [1, m) has key k   (both directions proved by induction in C07.cnt.lemmas)
        wit = z3.Function('wit!' + name, V, z3.IntSort(), z3.IntSort())
        ctx.facts.append(z3.ForAll([kap, m, j], z3.Implies(z3.And(1 <= j, j < m, keyterm(j) == kap), C(kap, m) > 0)))
        ctx.facts.append(z3.ForAll([kap, m], z3.Implies(z3.And(m >= 1, C(kap, m) > 0),
                                                        z3.And(1 <= wit(kap, m), wit(kap, m) < m, keyterm(wit(kap, m)) == kap))))
    if tail:
        # C(k, n) > C(k, j)  ==>  some row in [j, n) has key k   (proved by induction in C07.cnt.lemmas)
        tw = z3.Function('twit!' + name, V, z3.IntSort(), z3.IntSort(), z3.IntSort())
        n_ = smt.fresh_int('n')
        ctx.facts.append(z3.ForAll([kap, j, n_], z3.Implies(z3.And(1 <= j, j <= n_, C(kap, n_) > C(kap, j)),
                                                           z3.And(j <= tw(kap, j, n_), tw(kap, j, n_) < n_, keyterm(tw(kap, j, n_)) == kap)),
                                   patterns=[z3.MultiPattern(C(kap, n_), C(kap, j))]))
    return C
