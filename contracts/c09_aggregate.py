"""C09 -- grouping and aggregation, at group level: the keyed drivers itersimpleaggregate (single key), iterfold and
iterrowreduce emit exactly one row per group delivered by rowgroupby, carrying the group's key (the unwrapped `inner` of
the Comparable key) and the aggregation function applied to exactly the values of that group's rows, in order.
itertools.groupby is used through its contract T2 at group level (consecutive non-empty runs; that they partition the
sorted input into one group per distinct key is T2 + the sort precondition, which the bounded check exercises)."""
import z3
from pyvc.api import *
from pyvc.values import _t
from pyvc import smt, builtins as bi
from contracts import lib_base

RD = 'petl.transform.reductions.'


def install(it, ctx, S):
    it.summaries.update(lib_base.SUMMARIES)
    it.summaries['petl.comparison.comparable_itemgetter'] = lambda interp, args, kw, node: UCall('getkey', may_raise=False)
    it.check_pulls = False
    anye, i = z3.Const('anye', smt.V), smt.fresh_int('i')
    hl = smt.seq_len(z3.Select(S.rows, 0))
    # rows inside a group are rows of the (rectangular) table
    ctx.facts.append(z3.ForAll([anye, i], smt.seq_len(z3.Select(smt.seq_arr(bi.grp_rows(anye)), i)) == hl))


@vc('C09.itersimpleaggregate', functions=[RD + 'itersimpleaggregate', 'petl.util.base.rowgroupby'], props=['C09', 'C03'],
    assumptions=['T2 itertools.groupby at group level; single key field and single value field given by name; rectangular table',
                 'the aggregation function is an uninterpreted callback', 'stateless-body rule over the groups (engine meta-theorem)'])
def itersimpleaggregate(h):
    # the value field by name, and by index 0 (a FALSY but valid selection: `value=0` is the first column, not `no value`)
    for vspec, tag in (('v', ''), (0, ' [value=0]')):
        _itersimpleaggregate(h, vspec, tag)


def _itersimpleaggregate(h, vspec, tag):
    def body(ctx):
        agg = UCall('aggregation')

        def delta(ls, x, dout):
            e = z3.Select(ls.base.arr, ls.k.t)
            grows = view_seq(SCell(bi.grp_rows(e)))
            a = getattr(agg, 'last_args', [None])[0]
            ok_args = z3.BoolVal(False)
            if isinstance(a, Seq) and vindex:          # (no value index resolved: the value selection was ignored -> obligation fails)
                q = smt.fresh_int('q')
                vidx = smt.ival(as_v(vindex[0]))
                ok_args = z3.And(a.len == grows.len,
                                 z3.ForAll([q], z3.Implies(z3.And(0 <= q, q < a.len),
                                                           z3.Select(a.arr, q) == z3.Select(smt.seq_arr(z3.Select(grows.arr, q)), vidx))))
            ctx.oblige('itersimpleaggregate: the aggregation function receives exactly the values of this group\'s rows, in order' + tag, ok_args)
            o = out_row(dout, 0)
            res = bi.ucall_terms('aggregation', [as_v(a)])[0] if isinstance(a, Seq) else None
            ctx.oblige('itersimpleaggregate: one output row per group: (the group\'s key, aggregation(values))' + tag,
                       z3.And(dout.len == 1, o.len == 2, z3.Select(o.arr, 0) == bi.grp_inner(e), z3.Select(o.arr, 1) == res) if res is not None else z3.BoolVal(False))
        it = h.interp(ctx, loops={(RD + 'itersimpleaggregate', 1): LoopSpec(delta=delta, label='groups')})
        S = sym_table(ctx, 'S', nmin=1)
        rows_are_sequences(ctx, S)
        rectangular(ctx, S)
        install(it, ctx, S)
        vindex = []
        orig = it.summaries.get('petl.util.base.asindices')
        fn = closure_of(it, RD + 'itersimpleaggregate')
        # remember the value index that rowgroupby computes (second asindices call: the value field)
        real_asindices = closure_of(it, 'petl.util.base.asindices')

        def spy(interp, args, kw, node):
            r = interp.call_closure(real_asindices, args, kw, node)
            if type(args[1]) is type(vspec) and args[1] == vspec:
                vindex[:] = list(r.items)
            return r
        it.summaries['petl.util.base.asindices'] = spy
        res = run_generator(it, fn, [S, 'k', agg, vspec, 'value'])
        if res.exc is not None:
            inloop = getattr(ctx, 'in_iteration', None)
            ctx.oblige('itersimpleaggregate: only FieldSelectionError (before the groups) or the aggregation function\'s own exception (at its group) escapes' + tag,
                       z3.BoolVal((res.exc.kind == 'FieldSelectionError' and inloop is None) or (res.exc.kind == 'UserError' and inloop is not None)), res.exc.origin or '')
            return
        if getattr(ctx, 'after_loop', None):
            pre = ctx.pre_loop_out
            o = out_row(pre, 0)
            ctx.oblige('itersimpleaggregate: header = (key field, output field), once; nothing after the last group' + tag,
                       z3.And(pre.len == 1, o.len == 2, res.out.len == 0))
    h.explore(body)


@vc('C09.iterfold', functions=[RD + 'iterfold', 'petl.util.base.rowgroupby'], props=['C09'],
    assumptions=['T2 groupby at group level; functools.reduce(f, values) seen as an uninterpreted function of (f, the group\'s values)',
                 'single key field, single value field, rectangular table', 'stateless-body rule over the groups'])
def iterfold(h):
    def body(ctx):
        red = UCall('reduce')

        def delta(ls, x, dout):
            e = z3.Select(ls.base.arr, ls.k.t)
            grows = view_seq(SCell(bi.grp_rows(e)))
            a = getattr(red, 'last_args', [None, None])
            vals = a[1] if len(a) > 1 else None
            ok = z3.BoolVal(False)
            if isinstance(vals, Seq) and a[0] is f and vindex:      # (no value index resolved -> the obligation fails, not the checker)
                q = smt.fresh_int('q')
                vidx = smt.ival(as_v(vindex[0]))
                o = out_row(dout, 0)
                ok = z3.And(vals.len == grows.len,
                            z3.ForAll([q], z3.Implies(z3.And(0 <= q, q < vals.len), z3.Select(vals.arr, q) == z3.Select(smt.seq_arr(z3.Select(grows.arr, q)), vidx))),
                            dout.len == 1, o.len == 2, z3.Select(o.arr, 0) == bi.grp_inner(e))
            ctx.oblige('iterfold: one output row per group: (key, reduce(f, exactly this group\'s values in order))', ok)
        it = h.interp(ctx, loops={(RD + 'iterfold', 0): LoopSpec(delta=delta, label='groups')})
        S = sym_table(ctx, 'S', nmin=1)
        rows_are_sequences(ctx, S)
        rectangular(ctx, S)
        install(it, ctx, S)
        vindex = []
        real_asindices = closure_of(it, 'petl.util.base.asindices')

        def spy(interp, args, kw, node):
            r = interp.call_closure(real_asindices, args, kw, node)
            if args[1] == 'v':
                vindex[:] = list(r.items)
            return r
        it.summaries['petl.util.base.asindices'] = spy
        m = it.load_module('petl.transform.reductions')
        m.env.vars['reduce'] = red
        f = UCall('f')
        res = run_generator(it, closure_of(it, RD + 'iterfold'), [S, 'k', f, 'v'])
        if res.exc is not None:
            inloop = getattr(ctx, 'in_iteration', None)
            ctx.oblige('iterfold: only FieldSelectionError or the reducer\'s own exception escapes',
                       z3.BoolVal((res.exc.kind == 'FieldSelectionError') or (res.exc.kind == 'UserError' and inloop is not None)), res.exc.origin or '')
    h.explore(body)


@vc('C09.iterrowreduce', functions=[RD + 'iterrowreduce', 'petl.util.base.rowgroupby'], props=['C09', 'C03'],
    assumptions=['T2 groupby at group level; single key field; the reducer is an uninterpreted callback of (key, rows)',
                 'stateless-body rule over the groups'])
def iterrowreduce(h):
    def body(ctx):
        red = UCall('reducer')

        def delta(ls, x, dout):
            e = z3.Select(ls.base.arr, ls.k.t)
            a = getattr(red, 'last_args', [None, None])
            ok = z3.BoolVal(False)
            if len(a) == 2 and isinstance(a[1], Seq):
                grows = view_seq(SCell(bi.grp_rows(e)))
                res = bi.ucall_terms('reducer', [as_v(a[0]), as_v(a[1])])[0]
                ok = z3.And(as_v(a[0]) == bi.grp_inner(e), _t(row_eq(a[1], grows)),
                            dout.len == 1, _t(row_eq(out_row(dout, 0), SCell(res))))
            ctx.oblige('iterrowreduce: one output row per group: tuple(reducer(key, exactly the rows of that group, in order))', ok)
        it = h.interp(ctx, loops={(RD + 'iterrowreduce', 0): LoopSpec(delta=delta, label='groups')})
        S = sym_table(ctx, 'S', nmin=1)
        rows_are_sequences(ctx, S)
        rectangular(ctx, S)
        install(it, ctx, S)
        header = sym_seq(ctx, 'header', 'tuple')
        res = run_generator(it, closure_of(it, RD + 'iterrowreduce'), [S, 'k', red, header])
        if res.exc is not None:
            inloop = getattr(ctx, 'in_iteration', None)
            ctx.oblige('iterrowreduce: only FieldSelectionError or the reducer\'s own exception (at its group) escapes',
                       z3.BoolVal((res.exc.kind == 'FieldSelectionError') or (res.exc.kind == 'UserError' and inloop is not None)), res.exc.origin or '')
            return
        if getattr(ctx, 'after_loop', None):
            pre = ctx.pre_loop_out
            ctx.oblige('iterrowreduce: the given header first, once; nothing after the last group',
                       z3.And(pre.len == 1, _t(row_eq(out_row(pre, 0), header)), res.out.len == 0))
    h.explore(body)


@vc('C09.itermultiaggregate', functions=[RD + 'itermultiaggregate', 'petl.util.base.rowgroupby'], props=['C09', 'C03'],
    assumptions=['T2 groupby at group level; single key field; rectangular table',
                 'two output fields: one aggregating whole rows (a callable), one aggregating the values of a field (field, callable); uninterpreted callbacks',
                 'stateless-body rule over the groups'])
def itermultiaggregate(h):
    def body(ctx):
        agg1, agg2 = UCall('rowsagg'), UCall('valsagg')

        def delta(ls, x, dout):
            e = z3.Select(ls.base.arr, ls.k.t)
            grows = view_seq(SCell(bi.grp_rows(e)))
            a1 = getattr(agg1, 'last_args', [None])[0]
            a2 = getattr(agg2, 'last_args', [None])[0]
            ok = z3.BoolVal(False)
            if isinstance(a1, Seq) and isinstance(a2, Seq):
                q = smt.fresh_int('q')
                r1 = bi.ucall_terms('rowsagg', [as_v(a1)])[0]
                r2 = bi.ucall_terms('valsagg', [as_v(a2)])[0]
                o = out_row(dout, 0)
                vidx = box['vidx']
                ok = z3.And(_t(row_eq(a1, grows)),
                            a2.len == grows.len,
                            z3.ForAll([q], z3.Implies(z3.And(0 <= q, q < a2.len), z3.Select(a2.arr, q) == z3.Select(smt.seq_arr(z3.Select(grows.arr, q)), vidx))),
                            dout.len == 1, o.len == 3, z3.Select(o.arr, 0) == bi.grp_inner(e), z3.Select(o.arr, 1) == r1, z3.Select(o.arr, 2) == r2)
            ctx.oblige('itermultiaggregate: one output row per group: (key, rows-aggregate of exactly this group\'s rows, value-aggregate of exactly '
                       'their values of the named field, in order), output fields in the order given', ok)
        it = h.interp(ctx, loops={(RD + 'itermultiaggregate', 2): LoopSpec(delta=delta, label='groups')})
        S = fixed_header_table(ctx)
        install(it, ctx, S)
        box = {'vidx': z3.IntVal(1)}
        d = bi.SDict(it)
        d.setitem(it, 'n', agg1)
        d.setitem(it, 'vs', ('v', agg2))
        res = run_generator(it, closure_of(it, RD + 'itermultiaggregate'), [S, 'k', d])
        if res.exc is not None:
            inloop = getattr(ctx, 'in_iteration', None)
            ctx.oblige('itermultiaggregate: only an aggregation function\'s own exception escapes, at its group',
                       z3.BoolVal(res.exc.kind == 'UserError' and inloop is not None), res.exc.origin or '')
            return
        if getattr(ctx, 'after_loop', None):
            pre = ctx.pre_loop_out
            o = out_row(pre, 0)
            ctx.oblige('itermultiaggregate: header = (key field, output fields in the order given), once; nothing after the last group',
                       z3.And(pre.len == 1, o.len == 3, z3.Select(o.arr, 0) == as_v('k'), z3.Select(o.arr, 1) == as_v('n'), z3.Select(o.arr, 2) == as_v('vs'), res.out.len == 0))
    h.explore(body)


def fixed_header_table(ctx):
    """a table with the concrete header ('k', 'v') and any number of (rectangular) data rows"""
    S = sym_table(ctx, 'S', nmin=1)
    rows_are_sequences(ctx, S)
    rectangular(ctx, S)
    hdr = src_row(S, 0)
    ctx.facts.append(z3.And(hdr.len == 2, z3.Select(hdr.arr, 0) == as_v('k'), z3.Select(hdr.arr, 1) == as_v('v')))
    x = z3.Const('x!s', smt.V)
    ctx.facts.append(z3.ForAll([x], z3.Implies(smt.cls(x) == smt.TEXT, bi._strf(x) == x)))      # str(s) is s for a str (T6)
    ctx.facts.append(smt.py_eq(as_v('k'), as_v('k')))
    ctx.facts.append(z3.Not(smt.py_eq(as_v('k'), as_v('v'))))
    return S
