"""C16 -- progress / log_progress / clock / wrap are transparent.  Their generators do floating-point timing arithmetic that
the value model does not interpret, so transparency is proved as a SHAPE obligation on the real AST (same spirit as the
frame analysis of C01/C03): in `__iter__`
  * there is exactly one loop over the wrapped table's rows (for r in [enumerate](self.inner) / while True: row = next(it));
  * its body yields exactly once per iteration, unconditionally (the yield is a top-level statement of the loop body,
    not under if / try / a nested loop), and what it yields is the loop's row variable, which nothing in the body assigns;
  * there is no other yield in the function; timing values are never part of what is yielded;
  * the only way out of the loop before exhaustion is the StopIteration of the wrapped iterator.
Hence every inner row is yielded once, in order, unchanged, and nothing else."""
import ast
from pyvc.api import *

TARGETS = [('petl.util.timing', 'ProgressViewBase', 'inner'), ('petl.util.timing', 'ClockView', 'wrapped'), ('petl.util.base', 'TableWrapper', 'inner')]


def analyse(fn, attr):
    """list of (ok, text)"""
    out = []
    yields = [n for n in ast.walk(fn) if isinstance(n, (ast.Yield, ast.YieldFrom))]
    loops = [n for n in ast.walk(fn) if isinstance(n, (ast.For, ast.While))]
    if not yields:
        # not a generator: must hand back an iterator over the wrapped table itself
        rets = [n for n in ast.walk(fn) if isinstance(n, ast.Return)]
        ok = len(rets) == 1 and isinstance(rets[0].value, ast.Call) and getattr(rets[0].value.func, 'id', None) == 'iter' \
            and ast.unparse(rets[0].value.args[0]) == 'self.' + attr
        return [(ok, 'returns iter(self.%s) and nothing else' % attr)]
    out.append((len(loops) == 1, 'exactly one loop'))
    if len(loops) != 1:
        return out
    loop = loops[0]
    if isinstance(loop, ast.For):
        src = ast.unparse(loop.iter)
        out.append((src in ('self.' + attr, 'enumerate(self.%s)' % attr), 'the loop runs over the wrapped table (%s)' % src))
        t = loop.target
        rowvar = t.id if isinstance(t, ast.Name) else (t.elts[-1].id if isinstance(t, ast.Tuple) and isinstance(t.elts[-1], ast.Name) else None)
        body = loop.body
    else:
        # while True: try: row = next(it) except StopIteration: return
        out.append((isinstance(loop.test, ast.Constant) and loop.test.value is True, 'while True'))
        rowvar = None
        body = loop.body
        for s in body:
            if isinstance(s, ast.Try) and len(s.body) == 1 and isinstance(s.body[0], ast.Assign) and isinstance(s.body[0].value, ast.Call) \
                    and getattr(s.body[0].value.func, 'id', None) == 'next' and isinstance(s.body[0].targets[0], ast.Name):
                rowvar = s.body[0].targets[0].id
                itname = ast.unparse(s.body[0].value.args[0])
                okh = len(s.handlers) == 1 and getattr(s.handlers[0].type, 'id', None) == 'StopIteration' and \
                    all(isinstance(x, ast.Return) and x.value is None for x in s.handlers[0].body)
                out.append((okh, 'the loop ends only on the StopIteration of the wrapped iterator'))
                src = [n for n in ast.walk(fn) if isinstance(n, ast.Assign) and isinstance(n.targets[0], ast.Name) and n.targets[0].id == itname]
                out.append((len(src) == 1 and ast.unparse(src[0].value) == 'iter(self.%s)' % attr, 'the iterator is iter(self.%s)' % attr))
    out.append((rowvar is not None, 'the row variable is identified'))
    top = [s for s in body if isinstance(s, ast.Expr) and isinstance(s.value, ast.Yield)]
    out.append((len(yields) == 1 and len(top) == 1 and top[0].value is yields[0], 'exactly one yield, a top-level statement of the loop body (once per iteration, unconditional)'))
    if len(top) == 1:
        v = top[0].value.value
        out.append((isinstance(v, ast.Name) and v.id == rowvar, 'what is yielded is the row variable itself'))
    assigns = [n for n in ast.walk(loop) if isinstance(n, ast.Name) and isinstance(n.ctx, ast.Store) and n.id == rowvar]
    allowed = 1
    out.append((len(assigns) == allowed, 'nothing in the body re-assigns the row variable'))
    brk = [n for n in ast.walk(loop) if isinstance(n, (ast.Break,))] + [n for n in ast.walk(loop) if isinstance(n, ast.Return) and isinstance(loop, ast.For)]
    out.append((not brk, 'no break / early return inside the loop'))
    idx = body.index(top[0]) if len(top) == 1 else -1
    # nothing before the yield inside the loop may skip it: no continue, no raise at top level of the body
    skip = [n for s in body[:idx] for n in ast.walk(s) if isinstance(n, (ast.Continue,))]
    out.append((not skip, 'no continue before the yield'))
    return out


@vc('C16.passthrough', functions=['petl.util.timing.ProgressViewBase.__iter__', 'petl.util.timing.ClockView.__iter__', 'petl.util.base.TableWrapper.__iter__'],
    props=['C16', 'C02', 'C03'], assumptions=['shape analysis of the generator (syntactic); exceptions raised by the timing arithmetic itself are not modelled'])
def passthrough(h):
    for mod, cname, attr in TARGETS:
        m = h.program.module(mod)
        cls = [c for c in m.tree.body if isinstance(c, ast.ClassDef) and c.name == cname]
        if not cls:
            h.results.append(ObResult(h.task.name, '%s.%s exists' % (mod, cname), 'unknown', 'pyvc-shape-analysis', 0.0, '', 'shape', 'class not found'))
            continue
        fn = [f for f in cls[0].body if isinstance(f, ast.FunctionDef) and f.name == '__iter__']
        for ok, text in analyse(fn[0], attr):
            h.results.append(ObResult(h.task.name, '%s.__iter__: %s' % (cname, text), 'unsat' if ok else 'sat', 'pyvc-shape-analysis', 0.0,
                                      '%s:%d' % (mod, fn[0].lineno), 'shape'))
