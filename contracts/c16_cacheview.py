"""C16 / C01 -- CacheView.__iter__ by rely/guarantee, for ANY number of concurrent readers and ANY interleaving.

Shared state of the view: cache (a list), cachecomplete (a flag).  T = the rows of the inner table (header included), the
same on every pass (assumption: the inner table is repeatable; clearcache() is not called while iterators are live).

  Invariant I(cache, complete):  cache is a prefix of T  (len(cache) <= len(T), cache[i] == T[i]);
                                 n > 0  ==>  len(cache) <= n;     complete ==> len(cache) == len(T)
  Rely   (what the other readers may do while this one is suspended at a yield): any change that keeps I, only lets the
         cache grow and never resets `complete`.
  Guarantee (proved here for every atomic section between two yields of this reader): the same.

Since every reader runs this code, guarantee == rely closes the argument (Jones): I holds in every reachable state of every
schedule.  Under the rely the reader is proved to yield exactly T[0], T[1], ... T[len(T)-1]: loop 1 serves T[k] at step k
up to the CURRENT end of the live cache, loop 2 resumes the inner table exactly there (no gap, no repetition) and serves
the rest; a complete cache serves everything.  That is transparency (C16: cache() yields the wrapped rows, on every pass)
and non-interference (C01: what a reader yields does not depend on what other readers do)."""
import z3
from pyvc.api import *
from pyvc.values import _t
from pyvc import smt
from pyvc.smt import V

QN = 'petl.util.materialise.CacheView.__iter__'


def make(nkind):
    @vc('C16.CacheView.rg.n_' + nkind, functions=[QN], props=['C16', 'C01', 'C02'],
        assumptions=['the inner table yields the same rows on every pass; no clearcache() while iterators are live',
                     'rely/guarantee (guarantee == rely because all readers run this code); interference only at yield points '
                     '(CPython generators are not preempted: C01 is about interleaved next() calls, not threads)',
                     'list iterators are live (T2): next() looks at the current length of the list'])
    def task(h):
        def body(ctx):
            box = {}
            T = sym_table(ctx, 'T', nmin=0)
            N = T.n
            if nkind == 'none':
                nval, n_true, n_t = None, z3.BoolVal(False), None
            else:
                nval = sym_int('n')
                n_t = nval.t
                n_true = n_t != 0

            def I(arr, ln, cc):
                i = smt.fresh_int('i')
                parts = [0 <= ln, ln <= N, z3.ForAll([i], z3.Implies(z3.And(0 <= i, i < ln), z3.Select(arr, i) == z3.Select(T.rows, i))),
                         z3.Implies(cc, ln == N)]
                if n_t is not None:
                    parts.append(z3.Implies(n_t > 0, ln <= n_t))
                return z3.And(parts)

            def cur():
                c = view.attrs['cache']
                return c.arr, c.len, _t(view.attrs['cachecomplete'])

            def set_shared(arr, ln, cc):
                c = view.attrs['cache']
                c.arr, c.len = arr, ln
                view.attrs['cachecomplete'] = SBool(cc)
                box['last'] = (arr, ln, cc)

            def arbitrary(tag, after=None):
                """an arbitrary shared state satisfying I (and reachable from `after` under the rely)"""
                arr, ln, cc = smt.fresh_arr('cache_' + tag), smt.fresh_int('clen_' + tag), smt.fresh_bool('cc_' + tag)
                ctx.assume(I(arr, ln, cc))
                if after is not None:
                    ctx.assume(z3.And(ln >= after[1], z3.Implies(after[2], cc)))
                set_shared(arr, ln, cc)

            def guarantee(where):
                arr, ln, cc = cur()
                la, ll, lc = box['last']
                ctx.oblige('CacheView guarantee (%s): the shared cache is still a prefix of the inner table, within n, only grown; '
                           '`cachecomplete` only if the cache holds the whole table, never reset' % where,
                           z3.And(I(arr, ln, cc), ln >= ll, z3.Implies(lc, cc)))

            def on_yield(v, node):
                guarantee('at a yield')
                arbitrary('y', after=cur())          # the other readers run

            def same_row(dout, k):
                return z3.And(dout.len == 1, z3.Select(dout.arr, 0) == z3.Select(T.rows, k))

            def d0(ls, x, dout):
                ctx.oblige('CacheView: step k of the cache loop yields exactly row k of the inner table', same_row(dout, ls.k.t))

            def exit0(ls, count):
                box['m'] = ls.k.t           # rows served so far = the position at which the loop over the (live) list stopped

            def inv1(ls):
                pos = ls['pos'].t
                arr, ln, cc = cur()
                room = z3.BoolVal(True) if n_t is None else z3.Or(n_t == 0, ln < n_t)
                return z3.And(pos == ls.k.t, ls.k0.t == box['m'], z3.Implies(room, ln >= pos))

            def d1(ls, x, dout):
                ctx.oblige('CacheView: the inner table is resumed exactly where the cache ended and step k yields row k', same_row(dout, ls.k.t))
                ctx.oblige('CacheView: a step pulls exactly its own row from the inner table (no read-ahead: what is pulled for k rows does not depend on the table\'s length)',
                           ls.base.pos == ls.k.t + 1)

            def exit1(ls, count):
                box['served_all'] = True
            s0 = LoopSpec(delta=d0, label='cache rows')
            s0.on_exit = exit0
            s0.rebind = lambda ls: arbitrary('l0')
            s1 = LoopSpec(invariant=inv1, delta=d1, label='inner rows')
            s1.on_exit = exit1
            s1.rebind = lambda ls: arbitrary('l1')
            it = h.interp(ctx, loops={(QN, 0): s0, (QN, 1): s1})
            it.check_pulls = False
            it.on_yield = on_yield
            cls = closure_of(it, 'petl.util.materialise.CacheView')
            view = it.call(cls, [T], {'n': nval})
            c = Seq(smt.fresh_arr('cache0'), smt.fresh_int('clen0'), 'list', 'ViewState')
            c.live = True
            view.attrs['cache'] = c
            arbitrary('init')
            res = run_generator(it, cls.find('__iter__')[0], [view])
            if res.exc is not None:
                ctx.oblige('CacheView: never raises', z3.BoolVal(False), res.exc.origin or '')
                return
            guarantee('at the end of the pass')
            if 'm' in box:
                if box.get('served_all'):
                    pass        # rows [0, m) from the cache, [m, N) from the inner table (loop-1 entry obligation k0 == m)
                else:
                    ctx.oblige('CacheView: when the cache is complete the pass has served every row of the inner table', box['m'] == N)
        h.explore(body)
    return task


make('none')
make('int')
