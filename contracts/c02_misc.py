"""Small contracts of helpers that other properties lean on:
  C02  _vis_overflow (look / repr / display): renders at most `limit` data rows and pulls at most limit + 2 rows from the table,
       however long it is;
  C12  rowgetter(*indices): the row projection cut / join / lookup are built from;
  C19  the failonerror default is read from petl.config when the VIEW IS CONSTRUCTED (argument omitted), an explicit argument --
       False included -- wins, and __iter__ hands the stored policy to the generator."""
import z3
from pyvc.api import *
from pyvc.values import _t
from pyvc import smt, builtins as bi
from pyvc.interp import Opaque, PyExc


@vc('C02.vis_overflow', functions=['petl.util.vis._vis_overflow'], props=['C02'],
    assumptions=['T2: list(islice(it, 0, n)) pulls at most n items'])
def vis_overflow(h):
    def body(ctx):
        it = h.interp(ctx)
        S = sym_table(ctx, 'S', nmin=0)
        limit = sym_int('limit')
        ctx.assume(limit.t >= 1)
        r = it.call(closure_of(it, 'petl.util.vis._vis_overflow'), [S, limit], {})
        tbl, overflow = r
        pulled = [i.pos for i in getattr(S, 'iterators', [])]
        tb = tbl if isinstance(tbl, Seq) else view_seq(tbl)
        q = smt.fresh_int('q')
        n = S.n
        want_len = z3.If(n > limit.t + 1, limit.t + 1, n)
        ctx.oblige('_vis_overflow: at most limit + 2 rows are pulled from the table, whatever its length (one iterator)',
                   z3.And(z3.BoolVal(len(pulled) == 1), pulled[0] <= limit.t + 2) if pulled else z3.BoolVal(False))
        ctx.oblige('_vis_overflow: the rows kept are the header and the first `limit` data rows (all of them if there are fewer), in order; overflow iff there are more',
                   z3.And(tb.len == want_len, _t(overflow) == (n > limit.t + 1),
                          z3.ForAll([q], z3.Implies(z3.And(0 <= q, q < tb.len), z3.Select(tb.arr, q) == z3.Select(S.rows, q)))))
    h.explore(body)


@vc('C12.rowgetter', functions=['petl.util.base.rowgetter'], props=['C12', 'C06', 'C07'],
    assumptions=['operator.itemgetter through its contract (T6)'])
def rowgetter(h):
    for n in (0, 1, 2, 3):
        def body(ctx, n=n):
            it = h.interp(ctx)
            row = sym_seq(ctx, 'row', kind='src')
            idx = [sym_int('i%d' % j) for j in range(n)]
            for i in idx:
                ctx.assume(i.t >= 0)
            g = it.call(closure_of(it, 'petl.util.base.rowgetter'), idx, {})
            try:
                r = it.call(g, [row], {})
            except PyExc as e:
                ctx.oblige('rowgetter: IndexError exactly when the row is too short for one of the indices',
                           z3.And(z3.BoolVal(e.kind == 'IndexError'), z3.Or([i.t >= row.len for i in idx]) if idx else z3.BoolVal(False)))
                return
            rs = r if isinstance(r, Seq) else view_seq(r)
            ctx.oblige('rowgetter(*indices)(row) is the TUPLE (row[i0], row[i1], ...) -- also for zero and for one index',
                       z3.And(rs.len == n, z3.BoolVal(getattr(rs, 'kind', 'tuple') == 'tuple' or isinstance(r, tuple)), *[z3.Select(rs.arr, j) == z3.Select(row.arr, idx[j].t) for j in range(n)]))
        h.explore(body)


VIEWS = [('petl.transform.conversions.FieldConvertView', lambda T: ([T], {}), 'iterfieldconvert'),
         ('petl.transform.maps.FieldMapView', lambda T: ([T], {}), 'iterfieldmap'),
         ('petl.transform.maps.RowMapView', lambda T: ([T, UCall('rowmapper'), ('a', 'b')], {}), 'iterrowmap'),
         ('petl.transform.maps.RowMapManyView', lambda T: ([T, UCall('rowgenerator'), ('a', 'b')], {}), 'iterrowmapmany')]


@vc('C19.config-default', functions=[v[0] + '.__init__' for v in VIEWS] + [v[0] + '.__iter__' for v in VIEWS], props=['C19'],
    assumptions=['generator functions are lazy: calling one binds its arguments'])
def config_default(h):
    for qn, mk, gen in VIEWS:
        for given in (False, True):
            def body(ctx, qn=qn, mk=mk, gen=gen, given=given):
                it = h.interp(ctx)
                cfg = sym_cell('config_failonerror')
                m = it.load_module('petl.config')
                m.env.vars['failonerror'] = cfg
                arg = sym_cell('failonerror_arg')
                ctx.assume(smt.cls(arg.t) != smt.NONE)
                T = sym_table(ctx, 'T', nmin=0)
                a, k = mk(T)
                if given:
                    k = dict(k, failonerror=arg)
                cls = closure_of(it, qn)
                view = it.call(cls, a, k)
                want = arg if given else cfg
                ctx.oblige('%s: the policy stored at construction is %s' % (qn.split('.')[-1], 'the explicit argument (whatever its value)' if given else 'petl.config.failonerror as it is NOW'),
                           z3.BoolVal(view.attrs.get('failonerror') is want))
                m.env.vars['failonerror'] = sym_cell('config_changed_later')
                g = it.call(cls.find('__iter__')[0], [view], {})
                ok = isinstance(g, bi.GenObj) and g.fn.qualname.endswith(gen) and g.env.vars.get('failonerror') is want
                ctx.oblige('%s.__iter__: hands the stored policy to %s (a later change of the config does not reach an existing view); nothing read' % (qn.split('.')[-1], gen),
                           z3.BoolVal(bool(ok) and not getattr(T, 'iterators', [])))
            h.explore(body)
