"""Small contracts of helpers that other properties lean on:
  C02  _vis_overflow (look / repr / display): renders at most `limit` data rows and pulls at most limit + 2 rows from the table,
       however long it is;
  C12  rowgetter(*indices): the row projection cut / join / lookup are built from;
  C19  the failonerror default is read from petl.config when the VIEW IS CONSTRUCTED (argument omitted), an explicit argument --
       False included -- wins, and __iter__ hands the stored policy to the generator."""
import z3
from pyvc.api import *
from pyvc.values import _t
from pyvc import smt, builtins as bi
from pyvc.interp import Opaque, PyExc


@vc('C02.vis_overflow', functions=['petl.util.vis._vis_overflow'], props=['C02'],
    assumptions=['T2: list(islice(it, 0, n)) pulls at most n items'])
def vis_overflow(h):
    def body(ctx):
        it = h.interp(ctx)
        S = sym_table(ctx, 'S', nmin=0)
        limit = sym_int('limit')
        ctx.assume(limit.t >= 1)
        r = it.call(closure_of(it, 'petl.util.vis._vis_overflow'), [S, limit], {})
        tbl, overflow = r
        pulled = [i.pos for i in getattr(S, 'iterators', [])]
        tb = tbl if isinstance(tbl, Seq) else view_seq(tbl)
        q = smt.fresh_int('q')
        n = S.n
        want_len = z3.If(n > limit.t + 1, limit.t + 1, n)
        ctx.oblige('_vis_overflow: at most limit + 2 rows are pulled from the table, whatever its length (one iterator)',
                   z3.And(z3.BoolVal(len(pulled) == 1), pulled[0] <= limit.t + 2) if pulled else z3.BoolVal(False))
        ctx.oblige('_vis_overflow: the rows kept are the header and the first `limit` data rows (all of them if there are fewer), in order; overflow iff there are more',
                   z3.And(tb.len == want_len, _t(overflow) == (n > limit.t + 1),
                          z3.ForAll([q], z3.Implies(z3.And(0 <= q, q < tb.len), z3.Select(tb.arr, q) == z3.Select(S.rows, q)))))
    h.explore(body)


@vc('C12.rowgetter', functions=['petl.util.base.rowgetter'], props=['C12', 'C06', 'C07'],
    assumptions=['operator.itemgetter through its contract (T6)'])
def rowgetter(h):
    for n in (0, 1, 2, 3):
        def body(ctx, n=n):
            it = h.interp(ctx)
            row = sym_seq(ctx, 'row', kind='src')
            idx = [sym_int('i%d' % j) for j in range(n)]
            for i in idx:
                ctx.assume(i.t >= 0)
            g = it.call(closure_of(it, 'petl.util.base.rowgetter'), idx, {})
            try:
                r = it.call(g, [row], {})
            except PyExc as e:
                ctx.oblige('rowgetter: IndexError exactly when the row is too short for one of the indices',
                           z3.And(z3.BoolVal(e.kind == 'IndexError'), z3.Or([i.t >= row.len for i in idx]) if idx else z3.BoolVal(False)))
                return
            rs = r if isinstance(r, Seq) else view_seq(r)
            ctx.oblige('rowgetter(*indices)(row) is the TUPLE (row[i0], row[i1], ...) -- also for zero and for one index',
                       z3.And(rs.len == n, z3.BoolVal(getattr(rs, 'kind', 'tuple') == 'tuple' or isinstance(r, tuple)), *[z3.Select(rs.arr, j) == z3.Select(row.arr, idx[j].t) for j in range(n)]))
        h.explore(body)


VIEWS = [('petl.transform.conversions.FieldConvertView', lambda T: ([T], {}), 'iterfieldconvert'),
         ('petl.transform.maps.FieldMapView', lambda T: ([T], {}), 'iterfieldmap'),
         ('petl.transform.maps.RowMapView', lambda T: ([T, UCall('rowmapper'), ('a', 'b')], {}), 'iterrowmap'),
         ('petl.transform.maps.RowMapManyView', lambda T: ([T, UCall('rowgenerator'), ('a', 'b')], {}), 'iterrowmapmany')]


@vc('C19.config-default', functions=[v[0] + '.__init__' for v in VIEWS] + [v[0] + '.__iter__' for v in VIEWS], props=['C19'],
    assumptions=['generator functions are lazy: calling one binds its arguments'])
def config_default(h):
    for qn, mk, gen in VIEWS:
        for given in (False, True):
            def body(ctx, qn=qn, mk=mk, gen=gen, given=given):
                it = h.interp(ctx)
                cfg = sym_cell('config_failonerror')
                m = it.load_module('petl.config')
                m.env.vars['failonerror'] = cfg
                arg = sym_cell('failonerror_arg')
                ctx.assume(smt.cls(arg.t) != smt.NONE)
                T = sym_table(ctx, 'T', nmin=0)
                a, k = mk(T)
                if given:
                    k = dict(k, failonerror=arg)
                cls = closure_of(it, qn)
                view = it.call(cls, a, k)
                want = arg if given else cfg
                ctx.oblige('%s: the policy stored at construction is %s' % (qn.split('.')[-1], 'the explicit argument (whatever its value)' if given else 'petl.config.failonerror as it is NOW'),
                           z3.BoolVal(view.attrs.get('failonerror') is want))
                m.env.vars['failonerror'] = sym_cell('config_changed_later')
                g = it.call(cls.find('__iter__')[0], [view], {})
                ok = isinstance(g, bi.GenObj) and g.fn.qualname.endswith(gen) and g.env.vars.get('failonerror') is want
                ctx.oblige('%s.__iter__: hands the stored policy to %s (a later change of the config does not reach an existing view); nothing read' % (qn.split('.')[-1], gen),
                           z3.BoolVal(bool(ok) and not getattr(T, 'iterators', [])))
            h.explore(body)


CONV = 'petl.transform.conversions.'
# (wrapper, positional arguments after the table, what the field selection handed on must be: 'field' | 'all')
WRAPPERS = [('replace', ['FIELD', 'A', 'B'], 'field'), ('update', ['FIELD', 'VAL'], 'field'), ('format', ['FIELD', 'FMT'], 'field'),
            ('interpolate', ['FIELD', 'FMT'], 'field'), ('replaceall', ['A', 'B'], 'all'), ('formatall', ['FMT'], 'all'),
            ('interpolateall', ['FMT'], 'all'), ('convertnumbers', [], 'all'), ('convertall', ['CONV'], 'all')]


@vc('C19.conversion-wrappers', functions=[CONV + w[0] for w in WRAPPERS], props=['C19', 'C12'],
    assumptions=['convert / convertall through recording summaries (their own contracts: C19.*, C12.*)'])
def conversion_wrappers(h):
    """the convenience forms of convert hand the caller's keyword arguments -- failonerror, errorvalue, where, pass_row -- through
    UNCHANGED and add none of their own (so the three-way failure policy and the config default apply to them exactly as to convert);
    the per-field forms convert exactly the field they are given, the *all forms go through convertall (every column by POSITION)."""
    for name, pos, scope in WRAPPERS:
        for strict, with_policy in [(st, wp) for st in ((False, True) if name == 'convertnumbers' else (None,)) for wp in (True, False)]:
            def body(ctx, name=name, pos=pos, scope=scope, strict=strict, with_policy=with_policy):
                it = h.interp(ctx)
                calls = []

                def rec(which):
                    def summary(interp, args, kw, node):
                        o = Opaque('view', which)
                        calls.append((which, list(args), dict(kw), o))
                        return o
                    return summary
                it.summaries[CONV + 'convert'] = rec('convert')
                if name != 'convertall':
                    it.summaries[CONV + 'convertall'] = rec('convertall')
                hdr = (sym_cell('h0'), sym_cell('h1'), sym_cell('h2'))
                it.summaries['petl.util.base.header'] = lambda interp, args, kw, node: hdr
                T = Opaque('table', 't')
                vals = {k: sym_cell(k.lower()) for k in ('FIELD', 'A', 'B', 'VAL', 'FMT')}
                vals['CONV'] = UCall('conv')
                fo, ev, wh = sym_cell('failonerror'), sym_cell('errorvalue'), UCall('where')
                user_kw = {'failonerror': fo, 'errorvalue': ev, 'where': wh} if with_policy else {'where': wh}       # (policy arguments omitted: the config default must apply)
                kw = dict(user_kw)
                if strict is not None:
                    kw['strict'] = strict
                r = it.call(closure_of(it, CONV + name), [T] + [vals[p] for p in pos], kw)
                ok = len(calls) == 1 and r is calls[0][3] and calls[0][1][0] is T
                c = calls[0] if calls else (None, [], {}, None)
                same_kw = set(c[2]) == set(user_kw) and all(c[2][k] is user_kw[k] for k in user_kw)
                ctx.oblige('%s: ONE call of convert%s on the caller\'s table, whose result is returned' % (name, 'all' if scope == 'all' and name != 'convertall' else ''), z3.BoolVal(bool(ok)))
                ctx.oblige('%s: failonerror / errorvalue / where go through unchanged and nothing is added (the policy and its config default are convert\'s)' % name,
                           z3.BoolVal(bool(same_kw)))
                if scope == 'field':
                    ctx.oblige('%s: exactly the given field is converted' % name, z3.BoolVal(bool(ok) and c[0] == 'convert' and c[1][1] is vals['FIELD']))
                elif name == 'convertall':
                    sel = c[1][1] if len(c[1]) > 1 else None
                    items = list(sel.items) if isinstance(sel, PyList) else list(sel) if isinstance(sel, (list, tuple)) else None
                    ctx.oblige('convertall: every column is selected by POSITION 0 .. len(header)-1 (duplicate field names are all converted)',
                               z3.BoolVal(bool(ok) and c[0] == 'convert' and items is not None and len(items) == 3 and all(isinstance(x, int) and not isinstance(x, bool) and x == j for j, x in enumerate(items)) and c[1][2] is vals['CONV']))
                else:
                    ctx.oblige('%s: goes through convertall' % name, z3.BoolVal(bool(ok) and c[0] == 'convertall'))
            h.explore(body)
