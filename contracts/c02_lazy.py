"""C02 -- laziness, constructor half: building a pipeline stage reads no data row (at most the header row for the
functions the property names).  Every public constructor of the catalogue is executed symbolically from the real AST
(function body + the view class __init__ it instantiates) on symbolic source tables with a ghost pull counter; the
obligation is stated on the counter when the constructor returns.  The per-row half ("no read-ahead") is the generic
`pull` obligation of every generator verified by the stateless-body rule (tasks of C12/C13/C19 tagged C02)."""
import z3
from pyvc.api import *
from pyvc import smt
from pyvc.interp import Instance

T = 'petl.transform.'
f1 = lambda: UCall('f', may_raise=True)
# (qualified name, argument builder(S1, S2) -> (args, kwargs), header_allowed)
CATALOGUE = [
    (T + 'basics.cut', lambda a, b: ([a, 'x', 'y'], {}), False),
    (T + 'basics.cutout', lambda a, b: ([a, 'x'], {}), False),
    (T + 'basics.cat', lambda a, b: ([a, b], {}), False),
    (T + 'basics.stack', lambda a, b: ([a, b], {}), False),
    (T + 'basics.addfield', lambda a, b: ([a, 'z', 1], {}), False),
    (T + 'basics.addfields', lambda a, b: ([a, [('z', 1)]], {}), False),
    (T + 'basics.addcolumn', lambda a, b: ([a, 'z', [1, 2]], {}), False),
    (T + 'basics.addrownumbers', lambda a, b: ([a], {}), False),
    (T + 'basics.addfieldusingcontext', lambda a, b: ([a, 'z', f1()], {}), False),
    (T + 'basics.annex', lambda a, b: ([a, b], {}), False),
    (T + 'basics.rowslice', lambda a, b: ([a, 2], {}), False),
    (T + 'basics.head', lambda a, b: ([a], {}), False),
    (T + 'basics.tail', lambda a, b: ([a], {}), False),
    (T + 'basics.skipcomments', lambda a, b: ([a, '#'], {}), False),
    (T + 'basics.movefield', lambda a, b: ([a, 'x', 1], {}), False),
    (T + 'headers.rename', lambda a, b: ([a, 'x', 'y'], {}), False),
    (T + 'headers.setheader', lambda a, b: ([a, ['p', 'q']], {}), False),
    (T + 'headers.extendheader', lambda a, b: ([a, ['p']], {}), False),
    (T + 'headers.pushheader', lambda a, b: ([a, ['p', 'q']], {}), False),
    (T + 'headers.skip', lambda a, b: ([a, 1], {}), False),
    (T + 'headers.prefixheader', lambda a, b: ([a, 'p_'], {}), False),
    (T + 'headers.suffixheader', lambda a, b: ([a, '_s'], {}), False),
    (T + 'headers.sortheader', lambda a, b: ([a], {}), False),
    (T + 'conversions.convert', lambda a, b: ([a, 'x', f1()], {}), False),
    (T + 'conversions.convertall', lambda a, b: ([a, f1()], {}), True),
    (T + 'conversions.replace', lambda a, b: ([a, 'x', 1, 2], {}), False),
    (T + 'conversions.update', lambda a, b: ([a, 'x', 1], {}), False),
    (T + 'selects.select', lambda a, b: ([a, 'x', f1()], {}), False),
    (T + 'selects.select', lambda a, b: ([a, f1()], {}), False),
    (T + 'selects.selecteq', lambda a, b: ([a, 'x', 1], {}), False),
    (T + 'selects.selectin', lambda a, b: ([a, 'x', (1, 2)], {}), False),
    (T + 'selects.selectnone', lambda a, b: ([a, 'x'], {}), False),
    (T + 'selects.rowlenselect', lambda a, b: ([a, 2], {}), False),
    (T + 'selects.selectusingcontext', lambda a, b: ([a, f1()], {}), False),
    (T + 'selects.biselect', lambda a, b: ([a, 'x', f1()], {}), False),
    (T + 'fills.filldown', lambda a, b: ([a], {}), False),
    (T + 'fills.fillright', lambda a, b: ([a], {}), False),
    (T + 'fills.fillleft', lambda a, b: ([a], {}), False),
    (T + 'maps.fieldmap', lambda a, b: ([a], {}), False),
    (T + 'maps.rowmap', lambda a, b: ([a, f1(), ['p']], {}), False),
    (T + 'maps.rowmapmany', lambda a, b: ([a, f1(), ['p']], {}), False),
    (T + 'maps.rowgroupmap', lambda a, b: ([a, 'x', f1()], {}), False),
    (T + 'regex.search', lambda a, b: ([a, 'x', '.g.'], {}), False),
    (T + 'regex.capture', lambda a, b: ([a, 'x', '(.)'], {}), False),
    (T + 'regex.split', lambda a, b: ([a, 'x', ','], {}), False),
    (T + 'unpacks.unpack', lambda a, b: ([a, 'x'], {}), False),
    (T + 'unpacks.unpackdict', lambda a, b: ([a, 'x'], {}), False),
    (T + 'reshape.melt', lambda a, b: ([a, 'x'], {}), False),
    (T + 'reshape.recast', lambda a, b: ([a], {}), False),
    (T + 'reshape.transpose', lambda a, b: ([a], {}), False),
    (T + 'reshape.pivot', lambda a, b: ([a, 'x', 'y', 'z', f1()], {}), False),
    (T + 'reshape.flatten', lambda a, b: ([a], {}), False),
    (T + 'reshape.unflatten', lambda a, b: ([a, 3], {}), False),
    (T + 'sorts.sort', lambda a, b: ([a, 'x'], {}), False),
    (T + 'sorts.sort', lambda a, b: ([a], {'buffersize': 2, 'cache': False}), False),
    (T + 'sorts.mergesort', lambda a, b: ([a, b], {'key': 'x'}), False),
    (T + 'joins.join', lambda a, b: ([a, b], {'key': 'x'}), False),
    (T + 'joins.leftjoin', lambda a, b: ([a, b], {'key': 'x'}), False),
    (T + 'joins.rightjoin', lambda a, b: ([a, b], {'lkey': 'x', 'rkey': 'y'}), False),
    (T + 'joins.outerjoin', lambda a, b: ([a, b], {'key': 'x'}), False),
    (T + 'joins.antijoin', lambda a, b: ([a, b], {'key': 'x'}), False),
    (T + 'joins.lookupjoin', lambda a, b: ([a, b], {'key': 'x'}), False),
    (T + 'joins.crossjoin', lambda a, b: ([a, b], {}), False),
    (T + 'joins.join', lambda a, b: ([a, b], {}), True),
    (T + 'joins.leftjoin', lambda a, b: ([a, b], {}), True),
    (T + 'joins.antijoin', lambda a, b: ([a, b], {}), True),
    (T + 'hashjoins.hashjoin', lambda a, b: ([a, b], {'key': 'x'}), False),
    (T + 'hashjoins.hashleftjoin', lambda a, b: ([a, b], {'key': 'x'}), False),
    (T + 'hashjoins.hashrightjoin', lambda a, b: ([a, b], {'key': 'x'}), False),
    (T + 'hashjoins.hashantijoin', lambda a, b: ([a, b], {'key': 'x'}), False),
    (T + 'hashjoins.hashlookupjoin', lambda a, b: ([a, b], {'key': 'x'}), False),
    (T + 'hashjoins.hashjoin', lambda a, b: ([a, b], {}), True),
    (T + 'setops.complement', lambda a, b: ([a, b], {}), False),
    (T + 'setops.intersection', lambda a, b: ([a, b], {}), False),
    (T + 'setops.hashcomplement', lambda a, b: ([a, b], {}), False),
    (T + 'setops.hashintersection', lambda a, b: ([a, b], {}), False),
    (T + 'setops.diff', lambda a, b: ([a, b], {}), False),
    (T + 'dedup.duplicates', lambda a, b: ([a, 'x'], {}), False),
    (T + 'dedup.unique', lambda a, b: ([a, 'x'], {}), False),
    (T + 'dedup.distinct', lambda a, b: ([a, 'x'], {}), False),
    (T + 'dedup.conflicts', lambda a, b: ([a, 'x'], {}), False),
    (T + 'reductions.aggregate', lambda a, b: ([a, 'x', f1()], {}), False),
    (T + 'reductions.rowreduce', lambda a, b: ([a, 'x', f1()], {}), False),
    (T + 'reductions.fold', lambda a, b: ([a, 'x', f1()], {}), False),
    (T + 'reductions.groupselectfirst', lambda a, b: ([a, 'x'], {}), False),
    (T + 'reductions.groupselectmin', lambda a, b: ([a, 'x', 'y'], {}), False),
    (T + 'reductions.mergeduplicates', lambda a, b: ([a, 'x'], {}), False),
    (T + 'reductions.merge', lambda a, b: ([a, b], {'key': 'x'}), False),
    ('petl.util.base.values', lambda a, b: ([a, 'x'], {}), False),
    ('petl.util.base.data', lambda a, b: ([a], {}), False),
    ('petl.util.base.dicts', lambda a, b: ([a], {}), False),
    ('petl.util.base.records', lambda a, b: ([a], {}), False),
    ('petl.util.base.namedtuples', lambda a, b: ([a], {}), False),
    ('petl.util.materialise.cache', lambda a, b: ([a], {}), False),
    ('petl.util.timing.progress', lambda a, b: ([a, 10], {}), False),
    ('petl.util.timing.clock', lambda a, b: ([a], {}), False),
]


def pulls(t):
    return [it.pos for it in getattr(t, 'iterators', [])]


def make(idx, qn, builder, header_ok):
    short = qn.split('.')[-1]

    @vc('C02.ctor.%02d.%s' % (idx, short), functions=[qn], props=['C02'],
        assumptions=['the pull counter is the ghost position of every iterator obtained from a source table (list-backed sources: T2)'])
    def task(h):
        def body(ctx):
            it = h.interp(ctx, loops={('petl.transform.conversions.convert', 0): LoopSpec(invariant=lambda st: z3.BoolVal(True), label='fields (havoc)')})
            it.overapprox_filters = True
            a, b = sym_table(ctx, 'S1', nmin=0), sym_table(ctx, 'S2', nmin=0)
            fn = closure_of(it, qn)
            args, kwargs = builder(a, b)
            try:
                it.call(fn, args, kwargs)
            except PyExc as e:
                # a constructor may reject its arguments (FieldSelectionError for a natural join without common fields ...);
                # the laziness obligation still applies to what it read before
                pass
            ps = pulls(a) + pulls(b)
            if header_ok:
                ctx.oblige('%s: construction reads at most the header row of each source' % short, z3.And([p <= 1 for p in ps]) if ps else z3.BoolVal(True))
            else:
                ctx.oblige('%s: construction obtains no iterator from a source and reads no row' % short, z3.BoolVal(len(ps) == 0))
        h.explore(body)
    return task


for _i, (_qn, _b, _h) in enumerate(CATALOGUE):
    make(_i, _qn, _b, _h)
