"""C15 / C16 -- the HTML glue: tohtml and TeeHTMLView.__iter__ issue the same sequence of events on every path: open('wb'),
wrap(encoding, errors, newline=''), _write_begin(header, ...), one _write_row per data row in table order with the caller's
formatting arguments, _write_end, flush, detach + close on every exit.  Both call the SAME helper functions with the same
arguments, so a consumed tee has written byte-for-byte what tohtml writes; the tee yields the header and every row once,
unchanged, each after its own write."""
import z3
from pyvc.api import *
from pyvc.values import _t
from pyvc import smt, builtins as bi
from pyvc.interp import Opaque, PyExc

HT = 'petl.io.html.'
FMT = ('lineterminator', 'caption', 'index_header', 'truncate', 'vrepr', 'tr_style', 'td_styles')


def same(xs, ys):
    xs, ys = list(xs), list(ys)
    return len(xs) == len(ys) and all(a is b for a, b in zip(xs, ys))


def install(it):
    ctx = it.ctx

    def ext_fail(what):
        if ctx.branch(smt.fresh_bool('io_fails'), 'the I/O call %s raises' % what):
            it.trace.append(('FAILED', what))
            raise PyExc('ExternalError', None, what)

    def hook(interp, fn, args, kwargs, node):
        name = fn.name
        selfobj = fn.attrs.get('self')
        meth = name.rsplit('.', 1)[-1]
        if name == 'source.open':
            it.trace.append(('open', args[0] if args else kwargs.get('mode')))
            ext_fail('open')
            return Opaque('buffer', 'buf')
        if name == 'io.TextIOWrapper':
            it.trace.append(('wrap', args[0], dict(kwargs)))
            ext_fail('TextIOWrapper')
            return Opaque('textfile', 'f', {'buffer': args[0]})
        if isinstance(selfobj, Opaque) and selfobj.kind == 'textfile':
            it.trace.append(('f.' + meth, selfobj) + tuple(args))
            if meth != 'detach':
                ext_fail(meth)
            return None
        raise Unsupported('external call %s' % name)
    it.opaque_hook = hook
    for helper in ('_write_begin', '_write_row', '_write_end'):
        def summary(interp, args, kw, node, helper=helper):
            it.trace.append((helper,) + tuple(args))
            ext_fail(helper)
            return None
        it.summaries[HT + helper] = summary
    src = Opaque('source', 'source')
    it.summaries['petl.io.sources.write_source_from_arg'] = lambda interp, args, kw, node: src
    return src


def common(h, is_tee):
    def body(ctx):
        who = 'TeeHTMLView' if is_tee else 'tohtml'
        marks = []

        def delta(ls, x, dout):
            new = it.trace[ls.trace_start:]
            f = [e[1] for e in it.trace if e[0] == '_write_begin']
            ok = len(new) == 1 and new[0][0] == '_write_row' and len(f) == 1 and new[0][1] is f[0] and new[0][3] is x and new[0][2] is ls['hdr'] \
                and same(new[0][4:], (A['lineterminator'], A['vrepr'], A['tr_style'], A['td_styles'], A['truncate']))
            goal = z3.BoolVal(bool(ok))
            if is_tee:
                goal = z3.And(goal, dout.len == 1, z3.Select(dout.arr, 0) == as_v(x), z3.BoolVal(bool(marks) and marks[-1] == len(it.trace)))
            ctx.oblige('%s: each data row: exactly one _write_row(f, header, row, the caller\'s formatting arguments)%s' %
                       (who, ', then the row is yielded once, unchanged' if is_tee else ''), goal)
        qn = HT + ('TeeHTMLView.__iter__' if is_tee else 'tohtml')
        it = h.interp(ctx, loops={(qn, 0): LoopSpec(delta=delta, label='data rows')})
        src = install(it)
        it.check_pulls = False
        it.on_yield = lambda v, node: marks.append(len(it.trace))
        S = sym_table(ctx, 'S', nmin=1)
        enc, err = sym_cell('encoding'), sym_cell('errors')
        A = dict(lineterminator=sym_cell('lineterminator'), caption=sym_cell('caption'), index_header=sym_bool('index_header'),
                 truncate=sym_cell('truncate'), vrepr=UCall('vrepr'), tr_style=None, td_styles=sym_cell('td_styles'))
        exc, out_after = None, None
        if is_tee:
            cls = closure_of(it, HT + 'TeeHTMLView')
            view = it.call(cls, [S], dict(A, source=src, encoding=enc, errors=err))
            ctx.oblige('TeeHTMLView: constructing the view opens nothing and reads nothing', z3.BoolVal(len(it.trace) == 0 and not getattr(S, 'iterators', [])))
            res = run_generator(it, cls.find('__iter__')[0], [view])
            exc, out_after = res.exc, res.out
        else:
            try:
                it.call(closure_of(it, qn), [S], dict(A, source=Opaque('arg', 'arg'), encoding=enc, errors=err))
            except PyExc as e:
                exc = e
        tr = it.trace
        names = [e[0] for e in tr]
        if 'wrap' in names:
            w = [e for e in tr if e[0] == 'wrap'][0]
            o = [e for e in tr if e[0] == 'open']
            ctx.oblige('%s: opened \'wb\' and wrapped with the caller\'s encoding and errors and newline=\'\'' % who,
                       z3.BoolVal(len(o) == 1 and o[0][1] == 'wb' and w[2].get('encoding') is enc and w[2].get('errors') is err and w[2].get('newline') == ''))
        wrapped = 'wrap' in names and ('FAILED', 'TextIOWrapper') not in tr
        if wrapped:
            ctx.oblige('%s: detach, then close, on every exit; nothing written after the detach' % who,
                       z3.BoolVal('f.detach' in names and 'with-exit' in names and names.index('f.detach') < names.index('with-exit')
                                  and not any(n.startswith('_write') or n in ('f.write', 'f.flush') for n in names[names.index('f.detach'):])))
        if exc is not None:
            ctx.oblige('%s: only I/O errors escape' % who, z3.BoolVal(exc.kind == 'ExternalError'))
            return
        if getattr(ctx, 'after_loop', None):
            beg = [e for e in tr if e[0] == '_write_begin']
            end = [e for e in tr if e[0] == '_write_end']
            rows = [i for i, e in enumerate(tr) if e[0] == '_write_row']
            ok = len(beg) == 1 and len(end) == 1 and same(beg[0][3:], (A['lineterminator'], A['caption'], A['index_header'], A['truncate'])) \
                and end[0][1] is beg[0][1] and end[0][2] is A['lineterminator'] \
                and names.index('_write_begin') < names.index('_write_end') < names.index('f.flush') < names.index('f.detach') \
                and all(names.index('_write_begin') < i < names.index('_write_end') for i in rows)
            ctx.oblige('%s: _write_begin(header, caller\'s arguments) once before the rows, _write_end once after them, then flush before detach' % who, z3.BoolVal(bool(ok)))
            if is_tee:
                pre = ctx.pre_loop_out
                ctx.oblige('TeeHTMLView: the header is yielded once, unchanged; nothing is yielded after the last row',
                           z3.And(pre.len == 1, z3.Select(pre.arr, 0) == z3.Select(S.rows, 0), out_after.len == 0))
    h.explore(body)


@vc('C15.tohtml', functions=[HT + 'tohtml'], props=['C15', 'C16'], assumptions=['T7; _write_begin/_write_row/_write_end as events (shared by tohtml and teehtml)'])
def tohtml(h):
    common(h, False)


@vc('C16.TeeHTMLView', functions=[HT + 'TeeHTMLView.__iter__', HT + 'TeeHTMLView.__init__'], props=['C16'], assumptions=['as C15.tohtml'])
def teehtml(h):
    common(h, True)
