"""C05 / C01 / C18 -- how a SortView serves a pass: the dispatch in SortView.__iter__ and the two cache-backed generators.

  dispatch:  cache on and a memory cache present -> _iterfrommemcache(self._hdrcache, self._memcache)      (the cached objects)
             cache on and a file cache present   -> _iterfromfilecache(self._hdrcache, self._filecache, self._getkey)
                                                    -- the delete-on-GC WRAPPERS themselves are handed over (C18: the generator
                                                    keeps the chunk files alive even if the view is released or its cache cleared)
             otherwise                           -> _iternocache(self.source, self.key, self.reverse)
             cache off never serves from a cache; nothing is read at dispatch time.
  _iterfrommemcache: header tuple, then tuple(row) for every cached row, in order (later passes == the first pass, C01).
  _iterfromfilecache: one chunk reader per cached file, in order, by the wrapper's file NAME; merged with the cached key
             function and the view's `reverse`; every merged row yielded once as a tuple; the wrappers stay referenced by the
             generator's frame for the whole pass (never rebound / deleted before the finally block)."""
import z3
from pyvc.api import *
from pyvc.values import _t
from pyvc import smt, builtins as bi
from pyvc.interp import Opaque, PyExc, SrcIter

S_ = 'petl.transform.sorts.'


def new_view(it, ctx, cache):
    T = sym_table(ctx, 'T', nmin=1)
    cls = closure_of(it, S_ + 'SortView')
    view = it.call(cls, [T], {'key': 'k', 'cache': cache})
    return T, cls, view


@vc('C05.SortView.dispatch', functions=[S_ + 'SortView.__iter__'], props=['C05', 'C01', 'C18', 'C11'],
    assumptions=['generator functions are lazy: calling one binds its arguments and runs nothing (Python semantics)'])
def dispatch(h):
    for mem in (False, True):
        for fil in (False, True):
            def body(ctx, mem=mem, fil=fil):
                it = h.interp(ctx)
                cache = sym_bool('cache')
                T, cls, view = new_view(it, ctx, cache)
                hdrc = Opaque('hdrcache', 'hdrcache')
                memc = Opaque('memcache', 'memcache')
                filc = PyList([Opaque('wrapper', 'w0'), Opaque('wrapper', 'w1')], 'list')
                getk = Opaque('getkey', 'getkey')
                view.attrs['_hdrcache'] = hdrc if (mem or fil) else None
                view.attrs['_memcache'] = memc if mem else None
                view.attrs['_filecache'] = filc if fil else None
                view.attrs['_getkey'] = getk if fil else None
                g = it.call(cls.find('__iter__')[0], [view], {})
                isgen = isinstance(g, bi.GenObj)
                name = g.fn.qualname.split('.')[-1] if isgen else '?'
                a = g.env.vars if isgen else {}
                c = ctx.branch(cache.t, 'cache on')
                if c and mem:
                    ok = name == '_iterfrommemcache' and a.get('hdrcache') is hdrc and a.get('memcache') is memc
                    what = 'cache on + memory cache: served by _iterfrommemcache from the cached header and rows themselves'
                elif c and fil:
                    ok = name == '_iterfromfilecache' and a.get('hdrcache') is hdrc and a.get('filecache') is filc and a.get('getkey') is getk
                    what = 'cache on + file cache: _iterfromfilecache receives the cached header, the delete-on-GC wrappers themselves and the cached key function'
                else:
                    ok = name == '_iternocache' and a.get('source') is T and a.get('key') == 'k' and a.get('reverse') is False
                    what = 'no usable cache (or cache off): a fresh sort of the source with the view\'s key and reverse'
                ctx.oblige('SortView.__iter__: ' + what, z3.BoolVal(bool(ok)))
                ctx.oblige('SortView.__iter__: nothing is read at dispatch time', z3.And([i.pos == 0 for i in getattr(T, 'iterators', [])] + [z3.BoolVal(True)]))
            h.explore(body)


@vc('C05.iterfrommemcache', functions=[S_ + 'SortView._iterfrommemcache'], props=['C05', 'C01', 'C03'],
    assumptions=['stateless-body rule (engine meta-theorem)'])
def frommem(h):
    def body(ctx):
        def delta(ls, x, dout):
            ctx.oblige('_iterfrommemcache: every cached row is yielded once, as a tuple of itself, in order',
                       z3.And(dout.len == 1, _t(row_eq(out_row(dout, 0), x))))
        it = h.interp(ctx, loops={(S_ + 'SortView._iterfrommemcache', 0): LoopSpec(delta=delta, label='cached rows')})
        it.check_pulls = False
        T, cls, view = new_view(it, ctx, True)
        hdr = sym_seq(ctx, 'hdr') if 'sym_seq' in globals() else None
        M = sym_table(ctx, 'M', nmin=0)
        memcache = Seq(M.rows, M.n, 'list', 'Shared')
        res = run_generator(it, cls.find('_iterfrommemcache')[0], [view, src_row(T, 0), memcache])
        if res.exc is not None:
            ctx.oblige('_iterfrommemcache: never raises', z3.BoolVal(False), res.exc.origin or '')
            return
        if getattr(ctx, 'after_loop', None):
            pre = ctx.pre_loop_out
            ctx.oblige('_iterfrommemcache: the cached header first, once; nothing after the last row',
                       z3.And(pre.len == 1, _t(row_eq(out_row(pre, 0), src_row(T, 0))), res.out.len == 0))
    h.explore(body)


@vc('C05.iterfromfilecache', functions=[S_ + 'SortView._iterfromfilecache'], props=['C05', 'C01', 'C18'],
    assumptions=['_mergesorted through its contract (C05.shortlist.* / T5); _iterchunk reads one file by name (T7)',
                 'two cached chunk files (the code is uniform in their number: map / comprehension / star-args)'])
def fromfile(h):
    for reverse in (False, True):
        def body(ctx, reverse=reverse):
            box = {}

            def delta(ls, x, dout):
                ctx.oblige('_iterfromfilecache: every merged row is yielded once, as a tuple of itself, in merge order',
                           z3.And(dout.len == 1, _t(row_eq(out_row(dout, 0), x))))
                ctx.oblige('_iterfromfilecache: the wrappers are still referenced by the generator while rows are being served',
                           z3.BoolVal(ls.env.has('filecache') and ls.env.lookup('filecache') is filc))
            it = h.interp(ctx, loops={(S_ + 'SortView._iterfromfilecache', 0): LoopSpec(delta=delta, label='merged rows')})
            it.check_pulls = False
            T, cls, view = new_view(it, ctx, True)
            view.attrs['reverse'] = reverse
            names = [sym_cell('name0'), sym_cell('name1')]
            filc = PyList([Opaque('wrapper', 'w0', {'name': names[0]}), Opaque('wrapper', 'w1', {'name': names[1]})], 'list')
            getk = Opaque('getkey', 'getkey')
            M = sym_table(ctx, 'M', nmin=0)

            def merged(interp, args, kw, node):
                box['merge_args'] = args
                return SrcIter(M.rows, M.n, 'merged')
            it.summaries[S_ + '_mergesorted'] = merged
            res = run_generator(it, cls.find('_iterfromfilecache')[0], [view, src_row(T, 0), filc, getk])
            if res.exc is not None:
                ctx.oblige('_iterfromfilecache: never raises', z3.BoolVal(False), res.exc.origin or '')
                return
            if getattr(ctx, 'after_loop', None):
                pre = ctx.pre_loop_out
                ctx.oblige('_iterfromfilecache: the cached header first, once; nothing after the last row',
                           z3.And(pre.len == 1, _t(row_eq(out_row(pre, 0), src_row(T, 0))), res.out.len == 0))
                a = box.get('merge_args') or []
                chunks = list(a[2:])
                ok = len(a) == 4 and a[0] is getk and a[1] is reverse and all(isinstance(c, bi.GenObj) and c.fn.qualname.endswith('_iterchunk') for c in chunks) \
                    and [c.env.vars.get('fn') for c in chunks] == names
                ctx.oblige('_iterfromfilecache: one chunk reader per cached file, in order, opened by the wrapper\'s file name; merged with the '
                           'cached key function and the view\'s reverse flag', z3.BoolVal(bool(ok)))
        h.explore(body)
