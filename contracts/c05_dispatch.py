"""C05 / C01 / C18 -- how a SortView serves a pass: the dispatch in SortView.__iter__ and the two cache-backed generators.

  dispatch:  cache on and a memory cache present -> _iterfrommemcache(self._hdrcache, self._memcache)      (the cached objects)
             cache on and a file cache present   -> _iterfromfilecache(self._hdrcache, self._filecache, self._getkey)
                                                    -- the delete-on-GC WRAPPERS themselves are handed over (C18: the generator
                                                    keeps the chunk files alive even if the view is released or its cache cleared)
             otherwise                           -> _iternocache(self.source, self.key, self.reverse)
             cache off never serves from a cache; nothing is read at dispatch time.
  _iterfrommemcache: header tuple, then tuple(row) for every cached row, in order (later passes == the first pass, C01).
  _iterfromfilecache: one chunk reader per cached file, in order, by the wrapper's file NAME; merged with the cached key
             function and the view's `reverse`; every merged row yielded once as a tuple; the wrappers stay referenced by the
             generator's frame for the whole pass (never rebound / deleted before the finally block)."""
import z3
from pyvc.api import *
from pyvc.values import _t
from pyvc import smt, builtins as bi
from pyvc.interp import Opaque, PyExc, SrcIter

S_ = 'petl.transform.sorts.'


def new_view(it, ctx, cache):
    T = sym_table(ctx, 'T', nmin=1)
    cls = closure_of(it, S_ + 'SortView')
    view = it.call(cls, [T], {'key': 'k', 'cache': cache})
    return T, cls, view


@vc('C05.SortView.dispatch', functions=[S_ + 'SortView.__iter__'], props=['C05', 'C01', 'C18', 'C11'],
    assumptions=['generator functions are lazy: calling one binds its arguments and runs nothing (Python semantics)'])
def dispatch(h):
    for mem in (False, True):
        for fil in (False, True):
            def body(ctx, mem=mem, fil=fil):
                it = h.interp(ctx)
                cache = sym_bool('cache')
                T, cls, view = new_view(it, ctx, cache)
                hdrc = Opaque('hdrcache', 'hdrcache')
                memc = Opaque('memcache', 'memcache')
                filc = PyList([Opaque('wrapper', 'w0'), Opaque('wrapper', 'w1')], 'list')
                getk = Opaque('getkey', 'getkey')
                view.attrs['_hdrcache'] = hdrc if (mem or fil) else None
                view.attrs['_memcache'] = memc if mem else None
                view.attrs['_filecache'] = filc if fil else None
                view.attrs['_getkey'] = getk if fil else None
                g = it.call(cls.find('__iter__')[0], [view], {})
                isgen = isinstance(g, bi.GenObj)
                name = g.fn.qualname.split('.')[-1] if isgen else '?'
                a = g.env.vars if isgen else {}
                c = ctx.branch(cache.t, 'cache on')
                if c and mem:
                    ok = name == '_iterfrommemcache' and a.get('hdrcache') is hdrc and a.get('memcache') is memc
                    what = 'cache on + memory cache: served by _iterfrommemcache from the cached header and rows themselves'
                elif c and fil:
                    ok = name == '_iterfromfilecache' and a.get('hdrcache') is hdrc and a.get('filecache') is filc and a.get('getkey') is getk
                    what = 'cache on + file cache: _iterfromfilecache receives the cached header, the delete-on-GC wrappers themselves and the cached key function'
                else:
                    ok = name == '_iternocache' and a.get('source') is T and a.get('key') == 'k' and a.get('reverse') is False
                    what = 'no usable cache (or cache off): a fresh sort of the source with the view\'s key and reverse'
                ctx.oblige('SortView.__iter__: ' + what, z3.BoolVal(bool(ok)))
                ctx.oblige('SortView.__iter__: nothing is read at dispatch time', z3.And([i.pos == 0 for i in getattr(T, 'iterators', [])] + [z3.BoolVal(True)]))
            h.explore(body)


@vc('C05.iterfrommemcache', functions=[S_ + 'SortView._iterfrommemcache'], props=['C05', 'C01', 'C03'],
    assumptions=['stateless-body rule (engine meta-theorem)'])
def frommem(h):
    def body(ctx):
        def delta(ls, x, dout):
            ctx.oblige('_iterfrommemcache: every cached row is yielded once, as a tuple of itself, in order',
                       z3.And(dout.len == 1, _t(row_eq(out_row(dout, 0), x))))
        it = h.interp(ctx, loops={(S_ + 'SortView._iterfrommemcache', 0): LoopSpec(delta=delta, label='cached rows')})
        it.check_pulls = False
        T, cls, view = new_view(it, ctx, True)
        hdr = sym_seq(ctx, 'hdr') if 'sym_seq' in globals() else None
        M = sym_table(ctx, 'M', nmin=0)
        memcache = Seq(M.rows, M.n, 'list', 'Shared')
        res = run_generator(it, cls.find('_iterfrommemcache')[0], [view, src_row(T, 0), memcache])
        if res.exc is not None:
            ctx.oblige('_iterfrommemcache: never raises', z3.BoolVal(False), res.exc.origin or '')
            return
        if getattr(ctx, 'after_loop', None):
            pre = ctx.pre_loop_out
            ctx.oblige('_iterfrommemcache: the cached header first, once; nothing after the last row',
                       z3.And(pre.len == 1, _t(row_eq(out_row(pre, 0), src_row(T, 0))), res.out.len == 0))
    h.explore(body)


@vc('C05.iterfromfilecache', functions=[S_ + 'SortView._iterfromfilecache'], props=['C05', 'C01', 'C18'],
    assumptions=['_mergesorted through its contract (C05.shortlist.* / T5); _iterchunk reads one file by name (T7)',
                 'two cached chunk files (the code is uniform in their number: map / comprehension / star-args)'])
def fromfile(h):
    for reverse in (False, True):
        def body(ctx, reverse=reverse):
            box = {}

            def delta(ls, x, dout):
                ctx.oblige('_iterfromfilecache: every merged row is yielded once, as a tuple of itself, in merge order',
                           z3.And(dout.len == 1, _t(row_eq(out_row(dout, 0), x))))
                ctx.oblige('_iterfromfilecache: the wrappers are still referenced by the generator while rows are being served',
                           z3.BoolVal(ls.env.has('filecache') and ls.env.lookup('filecache') is filc))
            it = h.interp(ctx, loops={(S_ + 'SortView._iterfromfilecache', 0): LoopSpec(delta=delta, label='merged rows')})
            it.check_pulls = False
            T, cls, view = new_view(it, ctx, True)
            view.attrs['reverse'] = reverse
            names = [sym_cell('name0'), sym_cell('name1')]
            filc = PyList([Opaque('wrapper', 'w0', {'name': names[0]}), Opaque('wrapper', 'w1', {'name': names[1]})], 'list')
            getk = Opaque('getkey', 'getkey')
            M = sym_table(ctx, 'M', nmin=0)

            def merged(interp, args, kw, node):
                box['merge_args'] = args
                return SrcIter(M.rows, M.n, 'merged')
            it.summaries[S_ + '_mergesorted'] = merged
            res = run_generator(it, cls.find('_iterfromfilecache')[0], [view, src_row(T, 0), filc, getk])
            if res.exc is not None:
                ctx.oblige('_iterfromfilecache: never raises', z3.BoolVal(False), res.exc.origin or '')
                return
            if getattr(ctx, 'after_loop', None):
                pre = ctx.pre_loop_out
                ctx.oblige('_iterfromfilecache: the cached header first, once; nothing after the last row',
                           z3.And(pre.len == 1, _t(row_eq(out_row(pre, 0), src_row(T, 0))), res.out.len == 0))
                a = box.get('merge_args') or []
                chunks = list(a[2:])
                ok = len(a) == 4 and a[0] is getk and a[1] is reverse and all(isinstance(c, bi.GenObj) and c.fn.qualname.endswith('_iterchunk') for c in chunks) \
                    and [c.env.vars.get('fn') for c in chunks] == names
                ctx.oblige('_iterfromfilecache: one chunk reader per cached file, in order, opened by the wrapper\'s file name; merged with the '
                           'cached key function and the view\'s reverse flag', z3.BoolVal(bool(ok)))
        h.explore(body)


# ------------------------------------------------------------------------------------------------ the forward merge and its dispatch
@vc('C05.mergesorted.dispatch', functions=[S_ + '_mergesorted'], props=['C05', 'C11'],
    assumptions=['generator functions are lazy'])
def mergesorted_dispatch(h):
    for reverse in (False, True):
        def body(ctx, reverse=reverse):
            it = h.interp(ctx)
            key = UCall('getkey')
            a, b = Opaque('run', 'run-0'), Opaque('run', 'run-1')
            g = it.call(closure_of(it, S_ + '_mergesorted'), [key, reverse, a, b], {})
            ok = isinstance(g, bi.GenObj)
            if ok:
                v = g.env.vars
                its = v.get('iterables')
                its = list(its.items) if isinstance(its, PyList) else list(its) if isinstance(its, (tuple, list)) else None
                if reverse:
                    ok = g.fn.qualname.endswith('_shortlistmergesorted') and v.get('key') is key and v.get('reverse') is True and its == [a, b]
                else:
                    ok = g.fn.qualname.endswith('_heapqmergesorted') and v.get('key') is key and its == [a, b]
            ctx.oblige('_mergesorted(key, reverse=%s, *runs): %s gets the key function and the runs, in their order' %
                       (reverse, 'the shortlist merge (reverse=True)' if reverse else 'the heapq merge'), z3.BoolVal(bool(ok)))
        h.explore(body)


@vc('C05.heapqmergesorted', functions=[S_ + '_heapqmergesorted'], props=['C05', 'C11'],
    assumptions=['T5: heapq.merge(*runs) yields the elements of sorted runs in sorted order, taking equal elements from the earlier run first, lazily',
                 'T6: the namedtuple constructor _Keyed(k, o) stores k and o (its comparisons: C05.Keyed)', 'two runs (the code is uniform in their number)',
                 'stateless-body rule over the merged stream'])
def heapqmerge(h):
    """the forward k-way merge: every run is handed to heapq.merge as a LAZY stream of _Keyed(key(row), row) wrappers, runs in their
    order (so ties between runs go to the earlier run: stability across chunks, with C05.Keyed), and every merged wrapper is unwrapped
    to exactly its row, once, in merge order."""
    from pyvc.interp import Instance, SrcIter, MapIter
    qn = S_ + '_heapqmergesorted'

    def body(ctx):
        box = {}
        KEY, OBJ = z3.Function('merged_key', smt.V, smt.V), z3.Function('merged_obj', smt.V, smt.V)

        def keyed_ctor(interp, args, kw, node):
            o = Instance(Kcls)
            o.attrs['key'], o.attrs['obj'] = args[0], args[1]
            return o

        def hook(interp, fn, args, kwargs, node):
            if fn.name.endswith('heapq.merge'):
                box['merge_args'] = list(args)
                M = sym_table(ctx, 'M', nmin=0)
                box['M'] = M
                base = SrcIter(M.rows, M.n, 'merged')

                def wrap(x):
                    o = Instance(Kcls)
                    o.attrs['key'], o.attrs['obj'] = SCell(KEY(x.t)), SCell(OBJ(x.t))
                    return True, o
                return MapIter(base, wrap)
            raise Unsupported('external call %s' % fn.name)

        def delta(ls, x, dout):
            e = z3.Select(box['M'].rows, ls.k.t)
            ctx.oblige('_heapqmergesorted: each merged wrapper is unwrapped to exactly its row, yielded once, in merge order',
                       z3.And(dout.len == 1, z3.Select(dout.arr, 0) == OBJ(e)))
        it = h.interp(ctx, loops={(qn, 1): LoopSpec(delta=delta, label='merged stream')})
        it.opaque_hook = hook
        it.check_pulls = False
        Kcls = closure_of(it, S_ + '_Keyed')
        it.summaries[S_ + '_Keyed'] = keyed_ctor
        key = UCall('getkey', may_raise=False)
        A, B = sym_table(ctx, 'A', nmin=0), sym_table(ctx, 'B', nmin=0)
        ra, rb = SrcIter(A.rows, A.n, 'run-0'), SrcIter(B.rows, B.n, 'run-1')
        res = run_generator(it, closure_of(it, qn), [key, ra, rb])
        if res.exc is not None:
            ctx.oblige('_heapqmergesorted: never raises', z3.BoolVal(False), res.exc.origin or '')
            return
        margs = box.get('merge_args', [])
        ok = len(margs) == 2 and all(isinstance(m, MapIter) for m in margs) and margs[0].inner is ra and margs[1].inner is rb \
            and ra.pos is not None
        ctx.oblige('_heapqmergesorted: heapq.merge gets one lazy stream per run, in run order', z3.BoolVal(bool(ok)))
        if ok:
            for j, (m, T) in enumerate(zip(margs, (A, B))):
                x = sym_cell('probe%d' % j)
                keep, w = m.fn(x)
                kv = w.attrs.get('key') if isinstance(w, Instance) else None
                good = keep is True and isinstance(w, Instance) and w.cls is Kcls and w.attrs.get('obj') is x and isinstance(kv, SCell) \
                    and getattr(key, 'last_args', [None])[0] is x
                ctx.oblige('_heapqmergesorted: run %d is wrapped element-wise as _Keyed(key(row), row) -- the key function applied to that row, the row itself kept' % j,
                           z3.And(z3.BoolVal(bool(good)), (kv.t == bi.ucall_terms('getkey', [x.t])[0]) if good else z3.BoolVal(False)))
            ctx.oblige('_heapqmergesorted: nothing is read from the runs before the merged stream is consumed (lazy), nothing is yielded besides the merged rows',
                       z3.And(ctx.pre_loop_out.len == 0 if getattr(ctx, 'after_loop', None) else z3.BoolVal(True), res.out.len == 0))
    h.explore(body)


# ------------------------------------------------------------------------------------------------ mergesort
@vc('C05.itermergesort', functions=[S_ + 'itermergesort'], props=['C05', 'C12'],
    assumptions=['explicit header=, key given by name, two presorted sources (the comprehensions are uniform in their number)',
                 '_shortlistmergesorted through its contract (C05.shortlist.*): recording summary', 'comparable_itemgetter: C04.comparable_itemgetter',
                 'stateless-body rule for the standardising generator and for the merged stream'])
def itermergesort(h):
    """mergesort(header=H): every source is standardised row by row to the output fields -- cell q of a standardised row is the row's
    cell under the FIRST source field named like output field q, `missing` if there is no such field or the row is too short --, the
    standardised streams are merged in source order with the key resolved against the OUTPUT header and the caller's reverse flag, and
    every merged row is yielded once, unchanged, after the header."""
    from pyvc.interp import SrcIter
    qn = S_ + 'itermergesort'
    STD = qn + '.<locals>._standardisedata'

    def body(ctx):
        box = {}

        def merged(interp, args, kw, node):
            box['merge_args'] = list(args)
            M = sym_table(ctx, 'M', nmin=0)
            box['M'] = M
            return SrcIter(M.rows, M.n, 'merged')

        def d_merge(ls, x, dout):
            ctx.oblige('itermergesort: every merged row is yielded once, as it is', z3.And(dout.len == 1, z3.Select(dout.arr, 0) == as_v(x)))
        it = h.interp(ctx, loops={(qn, 5): LoopSpec(delta=d_merge, label='merged rows')})
        it.summaries[S_ + '_shortlistmergesorted'] = merged
        getkey = UCall('getkey', may_raise=False)
        it.summaries['petl.comparison.comparable_itemgetter'] = lambda interp, args, kw, node: (box.__setitem__('key_indices', list(args)), getkey)[1]
        it.check_pulls = False
        A, B = sym_table(ctx, 'A', nmin=1), sym_table(ctx, 'B', nmin=1)
        rows_are_sequences(ctx, A); rows_are_sequences(ctx, B)
        H = sym_seq(ctx, 'H', 'tuple')
        missing, reverse = sym_cell('missing'), sym_bool('reverse')
        res = run_generator(it, closure_of(it, qn), [PyList([A, B], 'list'), 'k', H, missing, reverse])
        if res.exc is not None:
            ctx.oblige('itermergesort: only FieldSelectionError escapes (key not among the output fields)', z3.BoolVal(res.exc.kind == 'FieldSelectionError'), res.exc.origin or '')
            return
        if not getattr(ctx, 'after_loop', None):
            return
        pre = ctx.pre_loop_out
        ctx.oblige('itermergesort: the given header first, once; nothing after the merged rows', z3.And(pre.len == 1, _t(row_eq(out_row(pre, 0), H)), res.out.len == 0))
        a = box.get('merge_args', [])
        ok = len(a) == 4 and a[0] is getkey and a[1] is reverse and all(isinstance(g, bi.GenObj) and g.fn.qualname == STD for g in a[2:]) \
            and [g.env.vars.get('it') for g in a[2:]] == [t.iterators[0] for t in (A, B)] and all(g.env.vars.get('ofs') is H for g in a[2:])
        ctx.oblige('itermergesort: the merge gets the key function, the caller\'s reverse flag and one standardising stream per source, in source order, '
                   'each over that source\'s data rows and the OUTPUT fields', z3.BoolVal(bool(ok)))
        if not ok:
            return
        # ---- the standardising stream of the first source, run on its own (rectangular source: the short-row fallback is not entered)
        g = a[2]
        T = A
        rectangular(ctx, T)
        flds = g.env.lookup('hdr') if g.env.has('hdr') else None
        S = lambda v: bi._strf(v)
        hdrT = src_row(T, 0)

        def d_std(ls, x, dout):
            row = view_seq(x)
            o = out_row(dout, 0)
            q, p, p2 = smt.fresh_int('q'), smt.fresh_int('p'), smt.fresh_int('p2')
            fl = ls['flds']
            fl = fl if isinstance(fl, Seq) else view_seq(fl)
            ctx.oblige('_standardisedata: the source field names are the text of the source header, in order',
                       z3.And(fl.len == hdrT.len, z3.ForAll([p], z3.Implies(z3.And(0 <= p, p < fl.len), z3.Select(fl.arr, p) == S(z3.Select(hdrT.arr, p))))))
            named = lambda pp, qq: smt.py_eq(z3.Select(fl.arr, pp), z3.Select(H.arr, qq))
            ctx.oblige('_standardisedata: one output row per source row, as wide as the output header',
                       z3.And(dout.len == 1, o.len == H.len))
            ctx.oblige('_standardisedata: output cell q is the row\'s cell under the first source field named like output field q',
                       z3.ForAll([q, p], z3.Implies(z3.And(0 <= q, q < H.len, 0 <= p, p < hdrT.len, named(p, q),
                                                          z3.ForAll([p2], z3.Implies(z3.And(0 <= p2, p2 < p), z3.Not(named(p2, q))))),
                                                   z3.Select(o.arr, q) == z3.Select(row.arr, p))))
            ctx.oblige('_standardisedata: ... and `missing` when the source has no field of that name',
                       z3.ForAll([q], z3.Implies(z3.And(0 <= q, q < H.len, z3.ForAll([p], z3.Implies(z3.And(0 <= p, p < hdrT.len), z3.Not(named(p, q))))),
                                                z3.Select(o.arr, q) == missing.t)))
        it.loop_specs[(qn, 3)] = LoopSpec(delta=d_std, label='source rows (standardising)')
        res2 = run_generator(it, g.fn, [], out_name='std') if False else None
        from pyvc.interp import Env
        ctx.out = Seq(smt.fresh_arr('std'), z3.IntVal(0), 'list', 'Ghost')
        ctx.after_loop = None
        try:
            it.run_body(g.fn, g.env)
        except PyExc as e:
            ctx.oblige('_standardisedata: never raises on a rectangular source', z3.BoolVal(False), e.origin or '')
    h.explore(body)
