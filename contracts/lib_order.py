"""The contract of petl.comparison.Comparable as its callers see it (modular verification: a caller is checked against
this contract, never against the body).  LT / EQ are uninterpreted relations on V; ORDER_LAWS are the facts about them
that contracts may assume.  Each law is PROVED for the closed forms extracted from the real __lt__/__eq__ by task
C04.ladder (contracts/c04_comparison.py instantiates `laws` with those closed forms), and the method contracts
(`CmpObj.py_compare`) are proved there too ("__le__ = lt or eq", "raw right operand: ..." obligations)."""
import ast
import z3
from pyvc import smt
from pyvc.smt import V, B, cls, py_eq, nlt, NONE, NUM, BYTES, TEXT, TUPLE, LIST, OTHER
from pyvc.values import SBool, SCell, as_v

LT = z3.Function('ord_lt', V, V, B)
EQ = z3.Function('ord_eq', V, V, B)
DOMAIN = lambda v: cls(v) != OTHER
isseq = lambda v: z3.Or(cls(v) == TUPLE, cls(v) == LIST)


def laws(LT, EQ, p, q, r):
    """(name, formula over p, q, r) -- every formula is implicitly guarded by DOMAIN(p, q, r)"""
    return [
        ('irreflexive', z3.Not(LT(p, p))),
        ('asymmetric', z3.Implies(LT(p, q), z3.Not(LT(q, p)))),
        ('transitive', z3.Implies(z3.And(LT(p, q), LT(q, r)), LT(p, r))),
        ('total: lt or eq or gt', z3.Or(LT(p, q), EQ(p, q), LT(q, p))),
        ('lt excludes eq', z3.Implies(LT(p, q), z3.Not(EQ(p, q)))),
        ('eq reflexive', EQ(p, p)),
        ('eq symmetric', EQ(p, q) == EQ(q, p)),
        ('eq transitive', z3.Implies(z3.And(EQ(p, q), EQ(q, r)), EQ(p, r))),
        ('lt respects eq on the right', z3.Implies(z3.And(LT(p, q), EQ(q, r)), LT(p, r))),
        ('lt respects eq on the left', z3.Implies(z3.And(EQ(p, q), LT(q, r)), LT(p, r))),
        ('eq agrees with == on non-sequence values',
         z3.Implies(z3.And(z3.Not(isseq(p)), z3.Not(isseq(q))), EQ(p, q) == py_eq(p, q))),
        ('None sorts first', z3.Implies(z3.And(cls(p) == NONE, cls(q) != NONE), LT(p, q))),
        ('None equals None only', z3.Implies(cls(p) == NONE, EQ(p, q) == (cls(q) == NONE))),
        ('numbers before every non-number except None',
         z3.Implies(z3.And(cls(p) == NUM, cls(q) != NUM, cls(q) != NONE), LT(p, q))),
        ('numbers by numeric value', z3.Implies(z3.And(cls(p) == NUM, cls(q) == NUM), LT(p, q) == (smt.num(p) < smt.num(q)))),
        ('bytes before text', z3.Implies(z3.And(cls(p) == BYTES, cls(q) == TEXT), LT(p, q))),
        ('native order inside one class',
         z3.Implies(z3.And(cls(p) == cls(q), smt.ORDERED(p), z3.Not(isseq(p))), LT(p, q) == nlt(p, q))),
    ]


_p, _q, _r = z3.Consts('ol!p ol!q ol!r', V)
ORDER_LAWS = [z3.ForAll([_p, _q, _r], z3.Implies(z3.And(DOMAIN(_p), DOMAIN(_q), DOMAIN(_r)), f))
              for _, f in laws(LT, EQ, _p, _q, _r)]


CORE = {'irreflexive', 'asymmetric', 'transitive', 'total: lt or eq or gt', 'lt excludes eq', 'eq reflexive', 'eq symmetric',
        'eq transitive', 'lt respects eq on the right', 'lt respects eq on the left', 'None sorts first', 'None equals None only'}
# the order-theoretic core (no class-specific facts): enough for merge-loop reasoning, much lighter for the solver
ORDER_LAWS_CORE = [z3.ForAll([_p, _q, _r], z3.Implies(z3.And(DOMAIN(_p), DOMAIN(_q), DOMAIN(_r)), f))
                   for n, f in laws(LT, EQ, _p, _q, _r) if n in CORE]


class CmpObj(object):
    """a Comparable instance, seen through its contract"""

    def __init__(self, v):
        self.v = v
        self.origin = 'Fresh'

    def py_compare(self, interp, op, other, reflected):
        o = other.v if isinstance(other, CmpObj) else as_v(other)
        a, b = (o, self.v) if reflected else (self.v, o)
        lt, gt, eq = LT(a, b), LT(b, a), EQ(a, b)
        return SBool({ast.Lt: lt, ast.LtE: z3.Or(lt, eq), ast.Gt: gt, ast.GtE: z3.Not(lt), ast.Eq: eq, ast.NotEq: z3.Not(eq)}[op])

    def __repr__(self): return 'CmpObj(%s)' % self.v


def cmp_contract(interp, args, kwargs, node):
    """Comparable(obj) -> contract object; installs the order laws once per path"""
    if not getattr(interp.ctx, '_order_laws', False):
        interp.ctx.facts.extend(ORDER_LAWS)
        interp.ctx._order_laws = True
    a = args[0]
    if isinstance(a, CmpObj):
        raise NotImplementedError
    return CmpObj(as_v(a))


CQN = 'petl.comparison.Comparable'
SUMMARIES = {CQN: cmp_contract}
