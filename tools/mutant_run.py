#!/usr/bin/env python3
"""Run the checks against seeded changes: for each /verif/seeded/<ID>-m<k> make a scratch worktree of /repo HEAD outside
/repo and /verif, apply the patch, run ./check <ID> (or the properties given with --props) with VERIF_REPO pointing at it,
remove the worktree.  Prints one line per (mutant, property): exit code and the first VIOLATION line."""
import glob, json, os, subprocess, sys, tempfile, shutil, threading
WT_LOCK = threading.Lock()
from concurrent.futures import ThreadPoolExecutor
V = os.path.dirname(os.path.dirname(os.path.abspath(__file__)))
args = [a for a in sys.argv[1:] if not a.startswith('--')]
props_opt = [a.split('=', 1)[1].split(',') for a in sys.argv[1:] if a.startswith('--props=')]
extra = [a for a in sys.argv[1:] if a in ('--no-bounded', '--no-deductive')]
names = args or sorted(os.path.basename(d) for d in glob.glob(V + '/seeded/C*-*'))


def sh(cmd, **kw):
    return subprocess.run(cmd, shell=True, capture_output=True, text=True, **kw)


def one(name):
    wt = tempfile.mkdtemp(prefix='petl_mw_', dir='/tmp')
    os.rmdir(wt)
    out = []
    try:
        with WT_LOCK:
            r = sh('git -C /repo worktree add --detach %s HEAD -q && cp /repo/petl/version.py %s/petl/' % (wt, wt))
        patch = '%s/seeded/%s/patch.diff' % (V, name)
        r = sh('git apply %s || git apply -C1 --recount %s || patch -p1 -F3 < %s' % (patch, patch, patch), cwd=wt)
        if r.returncode != 0:
            return [(name, '-', 'patch does not apply', '')]
        props = props_opt[0] if props_opt else [name.split('-')[0]]
        for p in props:
            env = dict(os.environ, VERIF_REPO=wt)
            r = subprocess.run([V + '/check', p] + extra, cwd=V, env=env, capture_output=True, text=True)
            viol = [l for l in r.stdout.split('\n') if l.startswith('VIOLATION') or l.startswith('UNDECIDED') or l.startswith('CHECKER')]
            out.append((name, p, 'exit=%d' % r.returncode, (viol[0][:230] if viol else r.stdout.strip().split('\n')[-1][:200])))
    finally:
        with WT_LOCK:
            sh('git -C /repo worktree remove --force %s' % wt)
        shutil.rmtree(wt, ignore_errors=True)
    return out


with ThreadPoolExecutor(int(os.environ.get('JOBS', '4'))) as ex:
    for res in ex.map(one, names):
        for r in res:
            print('%-8s %-4s %-8s %s' % r, flush=True)
