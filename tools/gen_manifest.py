#!/usr/bin/env python3
"""Regenerates /verif/MANIFEST.json from the table below (kept in one place so that the manifest stays valid)."""
import json, os

V = os.path.dirname(os.path.dirname(os.path.abspath(__file__)))
TB = ('Trusted: the pyvc verifier itself (AST->VC generator written for this task, validated by seeded source mutants and '
      'canaries), z3/cvc5, the Python model T1-T9 of DESIGN 2.5 (value axioms, builtin contracts), user callbacks '
      'deterministic and non-mutating; loops: for-loop termination not proved (finite sources).')

# id -> (claimed, category, text, note, technique)
TECH_D = 'contract-based deductive verification (pyvc: symbolic execution of the real AST -> VCs, z3/cvc5) + bounded contract evaluation (bcheck)'
TECH_B = 'bounded stand-in only so far: reference contract evaluated on the real functions over an exhaustively enumerated small scope (deductive contracts pending)'
BNOTE = ('Bounded: holds for the enumerated scope only (stated in evidence coverage.bounded.bound); reference specifications '
         'written from the property statement and petl documentation; NOT a proof.')


def B(text):
    return (True, 'exploration', text, BNOTE, TECH_B)


P = {
 'C04': (True, 'proof',
         'Closed forms of Comparable.__lt__/__eq__/__le__/__gt__/__ge__ are extracted from the real AST by path enumeration '
         'and the order laws (irreflexive, asymmetric, transitive, total, respects ==, None first, numbers next, bytes before '
         'text, native order inside a class, raw right operands) are discharged by z3 for ALL values of the value domain; '
         'the lexicographic lifting lemma covers sequences of all lengths; comparable_itemgetter (the key function of every sort / merge / group operator) is proved to return THE Comparable of the key cell(s), a missing cell read as None. The use sites (sort, issorted, selectors, merge '
         'join) and T3/T4 are carried by the bounded stand-in over a 36-value alphabet (all pairs, triples).',
         TB + ' Nested values: wrap model + lemma Lex + structural induction on depth (schema stated, not machine-checked).',
         TECH_D),
 'C13': (True, 'proof',
         'Each comparison selector (selecteq..selectge, the four ranges, none/notnone, true/false, is/isnot) is executed from the '
         'real AST (selector -> selectop -> select -> FieldSelectView.__init__) and its where-closure is proved equal to the '
         'documented predicate under the Comparable contract (C04) for ALL cell and reference values; wiring of field/complement/'
         'missing proved. The filter loops iterfieldselect / iterrowselect (a row is emitted iff the predicate holds, unchanged, in order; short rows per `missing`/complement) and iterrowslice (symbolic islice window: exactly rows start, start+step, ... < stop) are proved for all tables; itertail (deque window: exactly the last n rows) and iterselectusingcontext (row i kept iff query(row i-1, row i, row i+1); exactly one row of look-ahead) by inductive invariants; itersearch (single field: kept iff the pattern matches the text of the cell, regex engine uninterpreted) and facet (one selecteq over the original table per distinct value) as well; whole-row search and short rows in search (KF2) are carried by the bounded stand-in.',
         TB + ' Comparable is used through its contract (contracts/lib_order.py), itself discharged by C04.ladder.', TECH_D),
 'C01': (True, 'proof',
         'Write-set obligations of the non-interference lemma: for every Table/IterContainer subclass of 28 modules (97 view classes) the set of view attributes and process-wide state written by __iter__ and the self-methods it reaches is computed from the real AST and must be empty or within the declared, justified set of the stateful views (sort caches, hash-join lookups, cache(), fromdicts(generator), clock); sort-cache generators proved not to read shared cache attributes. The stateful views are proved non-interfering by RELY/GUARANTEE for any number of live iterators and any schedule: CacheView.__iter__ (invariant: the shared cache is a prefix of the inner table; every reader yields exactly the inner rows, in order, whatever the others do) and DictsGeneratorView.__iter__ (shared generator + spill file with shared position: append only, position re-established before every write, every reader yields row(dict j) at step j); SortView.__iter__ / the three hash-join views are proved to hand each generator its own references (the cached objects themselves, one lookup per pass when cache is off); RandomTable.__iter__ draws only from its own generator seeded with the view\'s seed.'
         ' Bounded stand-in for the rest: ' 'All interleavings of next() on 2 (thorough: 3) live iterators with abandonment and a fresh pass, over the view constructors incl. the caching ones, vs the solo pass of an identical fresh view.',
         TB + ' The non-interference lemma for stateless views (induction over schedules) and the rely/guarantee soundness argument (guarantee == rely) are stated, not machine-checked; interference is modelled at yield points (generators are not preempted); dummytable (KF1) is decided by the bounded check and the write-set obligation that reports it.', TECH_D),
 'C02': (True, 'proof',
         'Constructor half: 96 public constructors (transform, util) are executed symbolically from the real AST (function body + view __init__) on symbolic sources with a ghost pull counter: no iterator is obtained / no row read at construction (header row at most for natural joins and *all functions). Per-row half: every generator verified by the stateless-body rule (cut, stack, addfield, addrownumbers, header functions, convert, select, rowmap) carries the generic obligations "at most the header pulled before the first data row", "an iteration pulls no row besides its own", "no other source iterator drained" (no read-ahead, no materialisation, independent of the source length by construction).'
         ' Bounded stand-in for the rest: ' 'Instrumented sources count pulled rows: 0 at construction (<= header for the named exceptions), pulls for k output rows identical for 100- and 10000-row sources, for the streaming operator catalogue and compositions.',
         TB + ' Pull counter = ghost position of list-backed source iterators (T2).', TECH_D),
 'C03': (True, 'proof',
         'Frame obligations at every in-place mutation site of the 15 transform modules (129 sites): a flow-sensitive origin analysis over the real AST proves the receiver is a container created in the same activation and not yet yielded (fresh / source / argument / yielded lattice, branches merged conservatively, loops to fixpoint); the stateless-body proofs of C12/C13 add symbolic frame obligations on Source/Yielded objects.'
         ' Bounded stand-in for the rest: ' 'Deep snapshots of sources (lists of mutable lists, ragged) before/after full and partial iteration of the operator catalogue; every yielded row compared with its copy at the end.',
         TB + ' Origin analysis is intra-procedural and syntactic about what creates a fresh container; callbacks assumed non-mutating.', TECH_D),
 'C05': (True, 'proof',
         "SortView._iternocache (real AST) for ALL table and buffer sizes: the in-memory path is taken only when the whole source was read and yields each sorted row once; by an inductive invariant on `while rows` the chunking conserves rows (dumped + buffered = read; every chunk non-empty and <= buffersize; at the end every data row dumped exactly once, incl. buffersize == nrows and nrows+-1); every chunk is sorted with the one key function and the caller's reverse flag; buffersize=None means config.sort_buffersize; the cache is never published while chunks are being written. K-way merge: the wrapper _Keyed is proved to order by key only (reverse flips it, ties are neither-less) and one step of the shortlist merge is proved for 2 and 3 live runs, both directions: the emitted row is a minimum (maximum) of the run heads, the earlier run wins ties (stability across chunks), the run is advanced and re-inserted in order. SortView.__iter__ dispatch and the two cache-backed generators (_iterfrommemcache, _iterfromfilecache) are proved: later passes replay the cached rows in order / re-merge the cached chunk files by name with the cached key and the view's reverse flag, holding the delete-on-GC wrappers for the whole pass."
         ' Bounded stand-in for the rest: ' 'sort/mergesort vs sorted(enumerate(rows)) under the C04 reference ordering for all small tables x key forms x reverse x buffersize 1..n+1,None x cache x passes; mergesort == sort(cat).',
         TB + ' T1 (list.sort stable permutation), T7 (pickle) trusted; the merge step is proved for k = 2, 3 live runs (k > 3 and the composition of steps into a sorted permutation: engine meta-argument + bounded check); heapq.merge (T5) trusted.', TECH_D),
 'C06': (True, 'proof',
         'Merge half at GROUP level for all pairs of tables (unbounded numbers of groups): the `while True` loops of iterjoin (inner / left / right / outer), iterlookupjoin and iterantijoin are proved with an inductive invariant (all earlier left groups < current right key and vice versa; loop variables denote the current groups), per-iteration settle obligations (key(L) < key(R): L has NO partner anywhere and is emitted alone iff its side is outer; symmetric; otherwise the keys are EQ and exactly that pair is emitted / dropped for antijoin; the smaller side advances) and an exit judge for each of the six StopIteration exits (a fetched unsettled group is flushed exactly when its side is outer, a settled one never again, remaining groups of an outer side are emitted once, alone, and have no partner). Row-assembly half for all groups: joinrows (padding with `missing`, key copy to the LEFT key positions, cross product left-major) and the header; squaring up (iterstack, C12); zero-row instances (C20). Composition: every group is settled exactly once, in ascending key order.'
         ' Bounded stand-in for the rest (crossjoin, compound keys, prefixes, end-to-end vs a nested-loop reference): All pairs of small tables (None/mixed/compound keys, ragged, header-only, prefixes, missing) for the seven join operators vs a nested-loop relational reference: header, multiset, key order.',
         TB + ' T2 itertools.groupby at group level + the sort precondition (group keys strictly ascending); Comparable through its contract (C04); joinrows replaced by the event it stands for in the merge proofs (its own contract is C06.joinrows.*); single key field in the proved part.', TECH_D),
 'C07': (True, 'proof',
         "The probe loops of iterhashjoin, iterhashleftjoin and iterhashlookupjoin (real AST) are proved for ALL streamed tables and ALL lookup dictionaries (symbolic map through the contract of lookup/lookupone) by the nested stateless-body rule: a streamed row with key k yields one row per partner in lookup[k], each = the row followed by the partner's non-key cells (hashlookupjoin: the first partner only); a key that is absent yields nothing / the row padded with `missing`; hence output in the streamed side's order with the relational multiset. iterhashrightjoin (left rows as partners, key copied into the left key position for an unmatched right row) and iterhashantijoin (set of right keys by an inductive invariant with a counting function; a left row is emitted iff NO right row has its key) likewise; the three view classes are proved to build ONE lookup per pass (cache off) or reuse the cached one, and to build nothing at construction."
         ' lookup() and lookupone() themselves (real AST) are proved against that contract over a symbolic dictionary with a ghost counting function: after the pass, for every key the entry holds exactly the values of the rows with that key in table order (lookupone: the first; strict: DuplicateKeyError exactly at the first repeated key), absent keys absent.'
         ' Bounded stand-in for the rest (compound keys, agreement with the merge joins, dictlookup/recordlookup): ' 'Hash joins vs the relational reference and vs their sort-merge twins, cache on/off, two passes, streamed-side order; lookup family vs a reference dict incl. strict.',
         TB + ' dict through its contract (T6: keys modulo ==/hash, insertion order irrelevant to the claims); counting lemmas proved by induction (C07.cnt.lemmas); single key field in the proved part.', TECH_D),
 'C08': (True, 'proof',
         'iterhashcomplement (strict and non-strict) and iterhashintersection (real AST) are proved for ALL pairs of tables with the hybrid rule over a symbolic Counter and ghost counting functions occA / cntB: the carried invariant is bcnt[v] = max(0, cntB(v) - occA(v, i)) (strict: = cntB(v)) for every value v, and row i of a is emitted, once and unchanged, iff occA(i) >= cntB(a[i]) (complement), cntB(a[i]) == 0 (strict), occA(i) < cntB(a[i]) (intersection): a\'s order, multiset a - b / a & b, and complement + intersection partition a because the keep-predicates are complementary; b is never written (C03), header of a first. The SORT-based itercomplement (strict and non-strict) and iterintersection merge loops are proved with the same keep-predicates for all pairs of sorted tables: inductive invariant (every consumed b-row <= the current a-row; #consumed b-rows equal to it = min(occA, cntB)), per-step judgements incl. the step that leaves the loop and the rows left over when b runs out; the sorts that establish the precondition are wired on the whole row with the caller\'s strategy arguments (C11.wiring.complement / intersection / diff); diff = the two complements over one sort of each input, recordcomplement = complement(a, cut(b, *header(a))) -- b\'s fields selected BY NAME in a\'s order -- and recorddiff = the two recordcomplements, with strict and the strategy handed through.'
         ' Bounded stand-in for the rest (agreement of the hash and sort variants and of the record forms end to end): ' 'complement/intersection/diff/record*/hash* vs collections.Counter arithmetic for all pairs of small rectangular tables; partition law.',
         TB + ' collections.Counter through its contract (T6); row equality = Python tuple equality, read as Comparable equality in the merge proofs (rows without nested sequences); sortedness of the inputs is the contract of the sort (C05).', TECH_D),
 'C09': (True, 'proof',
         "Group-level proof for all tables: the keyed drivers itersimpleaggregate, itermultiaggregate (rows-aggregate and field-aggregate forms), iterfold and iterrowreduce emit exactly one row per group delivered by rowgroupby, carrying the unwrapped key and the aggregation / reduce applied to exactly the values of that group's rows, in order, output fields in the order given; header once; key-less aggregation of an empty table is the documented single row (C20 instances). The groups themselves: itertools.groupby through its contract T2 (consecutive maximal runs of == keys, whose concatenation is the input: every row in exactly one group) over the key-sorted input (sort kernel C05, key function C04.comparable_itemgetter, wiring C11.wiring.aggregate/rowreduce/fold/groupselect*/mergeduplicates: every operator sorts on its own key with the caller's strategy)."
         ' Bounded stand-in for the rest (mergeduplicates / merge conflict sets, counting functions, compound keys, end-to-end conservation of counts and sums): ' 'Grouping/aggregation operators vs a dictionary-based reference grouping (ascending key order, input order inside groups, conservation of counts and sums) x spec forms x buffersize/presorted.',
         TB + ' T2 (itertools.groupby) is a trusted standard-library contract; that sorted input + T2 give one group per distinct key in ascending order is a meta-level composition, exercised by the bounded check; single key field in the proved part.', TECH_D),
 'C10': (True, 'proof',
         'iterduplicates and iterunique (carried-state loops) are proved with the hybrid rule: an inductive invariant pins previous / previous_yielded / prev_comp_ne as functions of the position and the rows emitted per iteration are proved to be exactly: duplicates emits row k (and once its predecessor) iff their keys are ==, unique emits a row iff its key differs from both neighbours; with keys contiguous (sorted) this is the partition by key multiplicity, in order.'
         ' Bounded stand-in for the rest: ' 'duplicates/unique/distinct/conflicts/isunique vs key-multiplicity reference for all small rectangular tables x key forms incl. header-only, zero-field.',
         TB + ' DistinctView.__iter__ (keyed, keyless, count=) and iterconflicts are proved by the same rules (distinct: first row of every run of == keys, count = run length; conflicts: a row is emitted iff it conflicts with a neighbour of the same key, each once); single key field, rectangular table; compound keys bounded only.', TECH_D),
 'C11': (True, 'proof',
         'Wiring half, proved for 25 sort-backed constructors executed from the real AST with symbolic buffersize / tempdir / cache: every SortView reachable from the result carries exactly the caller\'s strategy arguments (no inner sort falls back to defaults), each sort is on the operator\'s own key and - for the joins - applied to the squared-up input; presorted=True inserts no sort (except where the operator must sort anyway); nothing is read at construction. Sort half (C05.iternocache): for every buffersize the same rows reach the merge (chunking conserves rows), buffersize=None = config default, the cache is published only after a complete pass, cache=False caches nothing, cache-backed generators own what they were handed.'
         ' Bounded stand-in for the result-equality clause (same header, rows and order as the default call) and the cache histories: Every sort-backed operator x buffersize x cache x tempdir x config.sort_buffersize x presorted vs the default call; cache clause over (edit, iterate) histories with pull counting.',
         TB + ' The k-way merge of the chunks (T5) is trusted / bounded, so equality of the ORDER of equal-key rows across strategies is decided by the bounded check only.', TECH_D),
 'C12': (True, 'proof',
         'asindices is proved with an inductive loop invariant for any number of selectors (indices in range) and exactly for 1-2 selectors; itercut, iterstack, iteraddfield, iteraddrownumbers, setheader/extendheader/pushheader are proved cell-exact per data row by the stateless-body rule for all tables, row lengths, indices and flags (one output row per input row, only the requested cells change, padding/trimming as documented, no IndexError); iterfieldconvert.transform_row proved per cell; itercutout (ordered-complement model of the kept indices), itervalues, iteraddfields and iteraddcolumn (zip_longest rule: both run-out cases, default position = the new field), iterannex (two tables side by side, each squared up to its own header), iterfilldown (ghost function: nearest non-missing value above) and iterfillright / iterfillleft (nested rule with an inductive invariant over the cells of a row) likewise; the converter forms methodcaller / dictconverter are proved against their definitions.'
         ' Bounded stand-in for the rest: ' 'Every field/row transform of the statement vs a cell-by-cell reference over positional tables with ragged rows, duplicate names, all selections and insertion indices.',
         TB + ' asindices contract used modularly; stateless-body composition is the engine meta-theorem.', TECH_D),
 'C14': (True, 'exploration',
         'Reshape round trips (melt/recast, transpose, flatten/unflatten, dicts/columns) and cell-exact expansion operators over all small rectangular tables, key/variable splits, periods.'
         ' Proved sub-claim (does not decide the round-trip clauses): ' 'Streaming half proved for all tables: itermelt (nested stateless rule) emits for every (row, variable) pair exactly one row = key cells + variable name + that cell, or nothing when the row is too short, under the header key fields + variable + value; FlattenView emits every data cell once, row-major; UnflattenView cuts the values into consecutive windows of `period` (tiling proved, last window padded, a full last window not lost); itersplit / itercapture / itersplitdown (regex engine as an uninterpreted function), iterunpack (first n values, padded) and iterunpackdict (one cell per key, `missing` when the lookup fails) expand exactly the addressed cell and carry every other cell over in place; pivot is wired to sort on (f1, f2). The round trips (melt/recast, transpose, dicts/columns) and the recast / pivot loops are NOT proved.',
         BNOTE + ' recast/pivot are two-pass algorithms with sampling and nested groupby; regular expressions are opaque.', TECH_D),
 'C15': (True, 'proof',
         "csv and pickle glue as typestate proofs over the effect trace on every path (every I/O call may raise): _writecsv and CSVView open in the right mode, wrap with the SAME encoding/errors and newline='', hand the caller's csv arguments over unchanged, write/yield each row exactly once in order, write the header iff asked, flush before detach, detach and close on every exit; _writepickle dumps each row independently with the caller's protocol; the eight public csv/tsv front ends are proved to hand reader and writer the SAME format arguments (the caller's plus one family default dialect), so that what one side writes the other reads; _writetext and tohtml (open/wrap/prologue or _write_begin/one write per row/epilogue or _write_end/flush/detach on every path), the readers TextView (one row per line, the file only iterated: never read()/readlines()) and PickleView (one load per row, until EOFError), and MemorySource.open ('w' always starts from a NEW EMPTY buffer, 'a' keeps it) are proved the same way."
         ' Bounded stand-in for the rest: ' 'to*/append*/from* round trips over a hostile cell alphabet x encodings x csv dialect arguments x source kinds x header flags; bytes of to+append == to(cat).',
         TB + ' T7: the standard library (csv, codecs, TextIOWrapper, pickle, gzip, bz2) is lossless for matching arguments; json, xml/xlsx-style sources and the byte-level round trips are bounded only.', TECH_D),
 'C16': (True, 'proof',
         'TeeCSVView, TeePickleView, teetext and TeeHTMLView are proved transparent (each row yielded once, unchanged, in order) and to issue exactly the event trace of _writecsv / _writepickle (same prologue, one write per row, header iff write_header, flush, detach/close on every exit).'
         ' Bounded stand-in for the rest: ' 'Pass-through views yield exactly the wrapped rows; tee targets byte-identical to to*; cache() under all pass schedules and interleavings.',
         TB + ' T7; ProgressViewBase / ClockView / TableWrapper proved pass-through by a shape analysis of their __iter__ (every source row yielded exactly once, unchanged, nothing else yielded); cache(): CacheView.__iter__ proved transparent for every n and every pass by rely/guarantee (C16.CacheView.rg.*); _iterteetext and TeeHTMLView.__iter__ are proved to issue exactly the writes of totext / tohtml (same helpers, same arguments, same order) and to yield each row after its own write.', TECH_D),
 'C17': (True, 'proof',
         'Typestate proof over the effect trace: todb/appenddb/_todb/_todb_dbapi_{connection,cursor,mkcurs} are executed from the real AST on EVERY path with every external call (connect, cursor, execute, executemany, close, commit) and every source next() allowed to raise; on each path: no commit when an exception escapes, at most one commit and only after executemany completed, commit=False never commits, DELETE+INSERT+commit on one connection, petl-opened connections opened transactional and closed last, caller handles never closed, header consumed before any statement.'
         ' Bounded stand-in for the rest: ' 'sqlite3: prior contents x source failure at every row index x handle kind x commit flag for todb/appenddb, observed through a fresh connection; fromdb(todb(t)) == t.',
         TB + ' T8 (DB-API transaction visibility) assumed; _quote/_placeholders assumed (bounded-checked); create=False.', TECH_D),
 'C18': (True, 'exploration',
         'Private tempdir: every abandonment point / release order / source failure / pass count for buffered sorts and the fromdicts spill file; directory empty afterwards, surviving iterators complete.'
         ' Proved sub-claim (not what decides the property): ' 'ownership obligation (C05.iternocache): every chunk file is created with delete=False in the requested tempdir and wrapped by the delete-on-GC wrapper before any row is dumped; the cache is not published while chunks are being written; sort-cache generators own what they were handed (C01.frame, C05.SortView.dispatch: the wrappers themselves, held for the whole pass); DictsGeneratorView: the spill file is private (delete=False, wb+), append-only, and a later or slower iterator served from it yields the complete correct sequence under any interleaving (rely/guarantee).',
         BNOTE + ' The deciding fact - when CPython finalises an unreachable wrapper - is T9, not a function contract.', TECH_D),
 'C19': (True, 'proof',
         'transform_value and transform_row of the real iterfieldconvert and the row loop of iterrowmap plus iterfieldmap and iterrowmapmany are proved against the three-way policy for ALL values, converters (uninterpreted callbacks that may raise an exception of any class) and positions: errorvalue / exception object / re-raise at the failing cell or row, non-failing cells identical, lazily failing mapper results included; methodcaller(name, *args) is proved to raise for EVERY value without the method (None included), never to pass a value through silently.'
         ' Bounded stand-in for the rest: ' 'Every subset of failing positions x three policies x argument vs config default x errorvalue for convert/fieldmap/rowmap/rowmapmany vs the policy reference, stepped with next().',
         TB + ' Callbacks deterministic; callback exception classes unconstrained (any Exception subclass).', TECH_D),
 'C20': (True, 'proof',
         'The zero-data-row instance of 43 generator functions (cut, cutout, stack, annex, addfield(s), addcolumn, addrownumbers, addfieldusingcontext, header functions, convert, select family, fills, maps, dedup, sort-merge joins incl. outer/anti/lookup, hash joins, complement/intersection, melt, values, rowslice, key-less / keyed aggregate, fold, rowreduce) is executed from the real AST on header-only tables of symbolic width and field names: data loops run zero times, so without any loop contract it is proved that no exception escapes (FieldSelectionError for a non-existent field excepted) and exactly the header row is emitted.'
         ' Bounded stand-in for every other public operator: ' 'Every public transform/util operator x every position of the header-only table x header shapes 0/1/3 fields: never raises, returns its zero-row definition.',
         TB + ' asindices / Comparable through their contracts; header computations that filter a symbolic field list are over-approximated.', TECH_D),
}
REASON_NOT_YET = 'check not built yet in this round (work in progress; see DESIGN.md section 8)'


PENDING = set()   # bounded modules still being triaged: not claimed until they are clean


def main():
    props = [json.loads(l) for l in open(os.path.join(V, 'properties.jsonl'))]
    checks, na = [], []
    for p in props:
        pid = p['id']
        e = P.get(pid)
        if pid in PENDING:
            na.append({'property_id': pid, 'reason': 'check exists but its failures on the unchanged tree are still being triaged (genuine defect vs reference error); not claimed until settled'})
            continue
        if not e or not e[0]:
            na.append({'property_id': pid, 'reason': (e[2] if e else REASON_NOT_YET)})
            continue
        _, cat, text, note, tech = e
        checks.append({
            'property_id': pid,
            'quick_cmd': './check %s --tier quick' % pid,
            'thorough_cmd': './check %s --tier thorough' % pid,
            'evidence_file': '/verif/evidence/%s.json' % pid,
            'replay_cmd_template': './check %s --replay {path}' % pid,
            'engine': 'pyvc+bcheck',
            'level_claimed': {'category': cat, 'text': text, 'design_ref': 'DESIGN.md section 5 / %s' % pid},
            'level_note': note,
            'technique': tech,
        })
    m = {
        'version': 1,
        'setup_cmd': 'python3-vt -c "import z3" && /venv/bin/python -c "import petl" && mkdir -p /verif/evidence /verif/out',
        'hooks': {'guard': 'PETL_VERIF',
                  'enable': 'no hooks: contracts are sidecar files under /verif/contracts, nothing in /repo is instrumented',
                  'baseline_off_cmd': 'cd /repo && /venv/bin/python -m pytest -ra -q -p no:cacheprovider --timeout=900 --continue-on-collection-errors',
                  'source_commits': [], 'add_only': True},
        'engines': [
            {'name': 'pyvc', 'path': '/verif/pyvc', 'serves_properties': [c['property_id'] for c in checks],
             'kind_free_text': 'verification-condition generator: symbolic execution of the real petl AST (re-read from /repo every run) against sidecar contracts in /verif/contracts; obligations discharged by z3 5.1 (python3-vt) and cvc5 1.0.3'},
            {'name': 'bcheck', 'path': '/verif/bcheck', 'serves_properties': [c['property_id'] for c in checks],
             'kind_free_text': 'bounded stand-in: the same contracts / reference specs evaluated on the real functions under /venv/bin/python over an enumerated finite scope; never counted as proved'}],
        'checks': checks,
        'notes': 'exit codes of ./check: 0 held, 1 VIOLATION (a refuted obligation, a bounded counterexample, or an obligation discharged on the pinned tree -- contracts/expected/<id>.json -- that the verifier no longer accepts: reported with no-failing-input-found unless the bounded layer supplies an input), 3 checker fault. When the deductive part is UNDECIDED for the tree under test (the changed code left the supported subset, a contract lost its binding, an obligation that was never discharged stays open) nothing is refuted: UNDECIDED lines are printed, the evidence of that run is downgraded to level exploration, and the exit code is that of the bounded layer (0 if the property held on everything it explored; 2 only when the bounded layer was switched off). A check also runs the tasks that discharge the contracts its own tasks assume (lib/driver.py DEPENDS). VERIF_REPO=<dir> points the checks at another tree (used for seeded mutants).',
        'not_applicable': na,
    }
    json.dump(m, open(os.path.join(V, 'MANIFEST.json'), 'w'), indent=1)
    print('claimed', len(checks), 'not claimed', len(na))


main()
