#!/usr/bin/env python3
"""Regenerates /verif/MANIFEST.json from the table below (kept in one place so that the manifest stays valid)."""
import json, os

V = os.path.dirname(os.path.dirname(os.path.abspath(__file__)))
TB = ('Trusted: the pyvc verifier itself (AST->VC generator written for this task, validated by seeded source mutants and '
      'canaries), z3/cvc5, the Python model T1-T9 of DESIGN 2.5 (value axioms, builtin contracts), user callbacks '
      'deterministic and non-mutating; loops: for-loop termination not proved (finite sources).')

# id -> (claimed, category, text, note, technique)
P = {
 'C04': (True, 'proof',
         'Closed forms of Comparable.__lt__/__eq__/__le__/__gt__/__ge__ are extracted from the real AST by path enumeration '
         'and the order laws (irreflexive, asymmetric, transitive, total, respects ==, None first, numbers next, bytes before '
         'text, native order inside a class, raw right operands) are discharged by z3 for ALL values of the value domain; '
         'the lexicographic lifting lemma covers sequences of all lengths. The use sites (sort, issorted, selectors, merge '
         'join) and T3/T4 are carried by the bounded stand-in over a 36-value alphabet (all pairs, triples).',
         TB + ' Nested values: wrap model + lemma Lex + structural induction on depth (schema stated, not machine-checked).',
         'contract-based deductive verification (pyvc: AST->VC, z3/cvc5) + bounded contract evaluation'),
}
REASON_NOT_YET = 'check not built yet in this round (work in progress; see DESIGN.md section 8)'


def main():
    props = [json.loads(l) for l in open(os.path.join(V, 'properties.jsonl'))]
    checks, na = [], []
    for p in props:
        pid = p['id']
        e = P.get(pid)
        if not e or not e[0]:
            na.append({'property_id': pid, 'reason': (e[2] if e else REASON_NOT_YET)})
            continue
        _, cat, text, note, tech = e
        checks.append({
            'property_id': pid,
            'quick_cmd': './check %s --tier quick' % pid,
            'thorough_cmd': './check %s --tier thorough' % pid,
            'evidence_file': '/verif/evidence/%s.json' % pid,
            'replay_cmd_template': './check %s --replay {path}' % pid,
            'engine': 'pyvc+bcheck',
            'level_claimed': {'category': cat, 'text': text, 'design_ref': 'DESIGN.md section 5 / %s' % pid},
            'level_note': note,
            'technique': tech,
        })
    m = {
        'version': 1,
        'setup_cmd': 'python3-vt -c "import z3" && /venv/bin/python -c "import petl" && mkdir -p /verif/evidence /verif/out',
        'hooks': {'guard': 'PETL_VERIF',
                  'enable': 'no hooks: contracts are sidecar files under /verif/contracts, nothing in /repo is instrumented',
                  'baseline_off_cmd': 'cd /repo && /venv/bin/python -m pytest -ra -q -p no:cacheprovider --timeout=900 --continue-on-collection-errors',
                  'source_commits': [], 'add_only': True},
        'engines': [
            {'name': 'pyvc', 'path': '/verif/pyvc', 'serves_properties': [c['property_id'] for c in checks],
             'kind_free_text': 'verification-condition generator: symbolic execution of the real petl AST (re-read from /repo every run) against sidecar contracts in /verif/contracts; obligations discharged by z3 5.1 (python3-vt) and cvc5 1.0.3'},
            {'name': 'bcheck', 'path': '/verif/bcheck', 'serves_properties': [c['property_id'] for c in checks],
             'kind_free_text': 'bounded stand-in: the same contracts / reference specs evaluated on the real functions under /venv/bin/python over an enumerated finite scope; never counted as proved'}],
        'checks': checks,
        'notes': 'exit codes of ./check: 0 held, 1 VIOLATION, 2 undecided (lost proof, no counterexample), 3 checker fault. VERIF_REPO=<dir> points the checks at another tree (used for seeded mutants).',
        'not_applicable': na,
    }
    json.dump(m, open(os.path.join(V, 'MANIFEST.json'), 'w'), indent=1)
    print('claimed', len(checks), 'not claimed', len(na))


main()
