#!/usr/bin/env python3-vt
"""Differential self-test of the verifier's Python model: the pyvc interpreter (the same code that generates the verification
conditions) is run on CONCRETE inputs and its observable behaviour -- rows yielded, exception class -- is compared with CPython
running the real petl function from the same tree.  A disagreement means the engine mis-models Python (T1-T6) for a construct
the functions under contract use: a checker fault, never a property verdict.

usage: tools/engine_diff.py [--root /repo] [--seed N] [--cases N] [--json FILE]
exit 0: all comparable cases agree; 3: a disagreement (printed)."""
import argparse, importlib, itertools, json, os, random, sys

V = os.path.dirname(os.path.dirname(os.path.abspath(__file__)))
sys.path.insert(0, V)


def small_tables(rnd, nmax=4):
    names = ['a', 'b', 'c']
    vals = [None, 0, 1, 2, 'x', 'y', '', 1.5, True]
    w = rnd.choice([1, 2, 3])
    hdr = tuple(names[:w])
    rows = []
    for _ in range(rnd.randint(0, nmax)):
        ln = rnd.choice([w, w, w, max(0, w - 1), w + 1])
        rows.append(tuple(rnd.choice(vals) for _ in range(ln)))
    return [hdr] + rows


def rect_tables(rnd, nmax=4, w=None, vals=(None, 0, 1, 2, 'x', 'y')):
    names = ['a', 'b', 'c']
    w = w or rnd.choice([1, 2, 3])
    hdr = tuple(names[:w])
    return [hdr] + [tuple(rnd.choice(vals) for _ in range(w)) for _ in range(rnd.randint(0, nmax))]


def sorted_rect(rnd, w=2):
    t = rect_tables(rnd, 5, w, vals=(0, 1, 2, 3))
    return [t[0]] + sorted(t[1:])


# (qualified name, argument generator(rnd) -> list of python args)   -- tables are lists of tuples
CASES = [
    ('petl.transform.basics.itercut', lambda r: [small_tables(r), r.choice([('a',), ('b', 'a'), (0,), (1, 0), ('c',)]), r.choice([None, 'M'])]),
    ('petl.transform.basics.itercutout', lambda r: [small_tables(r), r.choice([('a',), ('b',), (0,), ('c',)]), r.choice([None, 'M'])]),
    ('petl.transform.basics.iteraddfield', lambda r: [small_tables(r), 'new', r.choice([7, 'v', None]), r.choice([None, 0, 1, -1, 5])]),
    ('petl.transform.basics.iteraddrownumbers', lambda r: [small_tables(r), r.choice([0, 1, 5]), r.choice([1, 2]), 'row']),
    ('petl.transform.basics.iteraddcolumn', lambda r: [small_tables(r), 'new', [10, 20, 30][:r.randint(0, 3)], r.choice([None, 0, 1, 5]), r.choice([None, 'M'])]),
    ('petl.transform.basics.iterannex', lambda r: [[small_tables(r), small_tables(r)], r.choice([None, 'M'])]),
    ('petl.transform.basics.itertail', lambda r: [small_tables(r), r.choice([0, 1, 2, 3, 10])]),
    ('petl.transform.basics.iterrowslice', lambda r: [small_tables(r), r.choice([(2,), (1, 3), (0, 4, 2)])]),
    ('petl.transform.basics.iterstack', lambda r: [[small_tables(r), small_tables(r)], r.choice([None, 'M']), True, True]),
    ('petl.transform.headers.itersetheader', lambda r: [small_tables(r), ('x', 'y')]),
    ('petl.transform.headers.iterextendheader', lambda r: [small_tables(r), ('x', 'y')]),
    ('petl.transform.headers.iterpushheader', lambda r: [small_tables(r), ('x', 'y')]),
    ('petl.transform.fills.iterfilldown', lambda r: [rect_tables(r), r.choice([('a',), ()]), None]),
    ('petl.transform.fills.iterfillright', lambda r: [small_tables(r), None]),
    ('petl.transform.fills.iterfillleft', lambda r: [small_tables(r), None]),
    ('petl.transform.setops.iterhashcomplement', lambda r: [rect_tables(r, w=2), rect_tables(r, w=2), r.choice([True, False])]),
    ('petl.transform.setops.iterhashintersection', lambda r: [rect_tables(r, w=2), rect_tables(r, w=2)]),
    ('petl.transform.setops.itercomplement', lambda r: [sorted_rect(r), sorted_rect(r), r.choice([True, False])]),
    ('petl.transform.setops.iterintersection', lambda r: [sorted_rect(r), sorted_rect(r)]),
    ('petl.transform.hashjoins.iterhashantijoin', lambda r: [rect_tables(r, w=2), rect_tables(r, w=2), 'a', 'a']),
    ('petl.transform.dedup.iterduplicates', lambda r: [sorted_rect(r), 'a']),
    ('petl.transform.dedup.iterunique', lambda r: [sorted_rect(r), 'a']),
    ('petl.transform.dedup.iterconflicts', lambda r: [sorted_rect(r), 'a', None, None, None]),
    ('petl.transform.reshape.itermelt', lambda r: [rect_tables(r, w=3), ('a',), None, 'variable', 'value']),
    ('petl.transform.unpacks.iterunpack', lambda r: [[('a', 'b')] + [(i, r.choice([(1, 2), (3,), (4, 5, 6), ()])) for i in range(r.randint(0, 3))], 'b', r.choice([2, ('x', 'y')]), r.choice([True, False]), 'M']),
    ('petl.util.base.itervalues', lambda r: [small_tables(r), r.choice(['a', ('a', 'b'), 0]), r.choice([None, 'M'])]),
    ('petl.transform.joins.itercrossjoin', lambda r: [[rect_tables(r, 3), rect_tables(r, 3)], r.choice([False, True])]),
    ('petl.transform.joins.iterjoin', lambda r: [sorted_rect(r), sorted_rect(r), 'a', 'a', None, r.choice([True, False]), r.choice([True, False])]),
    ('petl.transform.joins.iterantijoin', lambda r: [sorted_rect(r), sorted_rect(r), 'a', 'a']),
    ('petl.transform.joins.iterlookupjoin', lambda r: [sorted_rect(r), sorted_rect(r), 'a', 'a', None]),
    ('petl.transform.dedup.iterduplicates', lambda r: [sorted_rect(r, 3), ('a', 'b')]),
    ('petl.transform.basics.itercat', lambda r: [[small_tables(r), small_tables(r)], r.choice([None, 'M']), None]),
    ('petl.transform.basics.iterskipcomments', lambda r: [[('#c',), ('a', 'b')] + rect_tables(r, w=2)[1:], '#']),
    ('petl.comparison.comparable_itemgetter', None),          # handled specially below
]


def to_engine(x):
    from pyvc.values import PyList
    if isinstance(x, list):
        return PyList([to_engine(i) for i in x], 'list')
    if isinstance(x, tuple):
        return tuple(to_engine(i) for i in x)
    return x


def from_engine(x):
    from pyvc.values import PyList, SInt, SBool, SCell, Seq
    import z3
    if isinstance(x, PyList):
        return [from_engine(i) for i in x.items] if x.kind == 'list' else tuple(from_engine(i) for i in x.items)
    if isinstance(x, tuple):
        return tuple(from_engine(i) for i in x)
    if isinstance(x, (SInt, SBool)):
        t = z3.simplify(x.t)
        if z3.is_int_value(t):
            return t.as_long()
        if z3.is_true(t) or z3.is_false(t):
            return z3.is_true(t)
        raise ValueError('symbolic result')
    if isinstance(x, (SCell, Seq)):
        raise ValueError('symbolic result')
    return x


def run_engine(root, qn, args):
    from pyvc.api import closure_of
    from pyvc.interp import Program, Ctx, Env, PyExc
    from pyvc.machine import Interp
    from pyvc.values import Unsupported
    from pyvc.interp import PathEnd
    prog = run_engine.progs.setdefault(root, Program(root))
    ctx = Ctx()
    it = Interp(prog, ctx)
    outs = []
    it.yield_hook = lambda v, node: outs.append(v)
    fn = closure_of(it, qn)
    try:
        local = it.bind_args(fn, [to_engine(a) for a in args], {})
        ret = it.run_body(fn, Env(local, fn.env))
        if ret is not None and not outs:
            # not a generator function: it returned an iterator (e.g. a generator expression): drain that
            from pyvc import builtins as bi
            outs = list(bi.iter_concrete(it, ret))
        if ctx.alternatives:
            return ('skip', 'the engine forked on a concrete input')
        return ('ok', [from_engine(o) for o in outs])
    except PyExc as e:
        return ('exc', e.kind, [from_engine(o) for o in outs])
    except (Unsupported, ValueError, PathEnd) as e:
        return ('skip', str(e)[:80])


run_engine.progs = {}


def run_cpython(qn, args):
    mod, name = qn.rsplit('.', 1)
    f = getattr(importlib.import_module(mod), name)
    outs = []
    try:
        for row in f(*args):
            outs.append(row)
        return ('ok', outs)
    except Exception as e:
        return ('exc', type(e).__name__, outs)


def norm(x):
    if isinstance(x, (list, tuple)):
        return tuple(norm(i) for i in x)
    return repr(x)


def main():
    ap = argparse.ArgumentParser()
    ap.add_argument('--root', default=os.environ.get('VERIF_REPO', '/repo'))
    ap.add_argument('--seed', type=int, default=0)
    ap.add_argument('--cases', type=int, default=40)
    ap.add_argument('--json')
    a = ap.parse_args()
    sys.path.insert(0, a.root)
    rnd = random.Random(a.seed)
    agree = skipped = 0
    bad = []
    per_fn = {}
    for qn, gen in CASES:
        if gen is None:
            continue
        for _ in range(a.cases):
            args = gen(rnd)
            import copy
            e = run_engine(a.root, qn, copy.deepcopy(args))
            if e[0] == 'skip':
                skipped += 1
                per_fn.setdefault(qn, [0, 0, 0])[1] += 1
                continue
            c = run_cpython(qn, copy.deepcopy(args))
            same = (e[0] == c[0] == 'ok' and norm(e[1]) == norm(c[1])) or \
                   (e[0] == c[0] == 'exc' and norm(e[2]) == norm(c[2]) and (e[1] == c[1] or {e[1], c[1]} <= {'UserError', 'TypeError', 'ValueError', 'AttributeError'}))
            if same:
                agree += 1
                per_fn.setdefault(qn, [0, 0, 0])[0] += 1
            else:
                per_fn.setdefault(qn, [0, 0, 0])[2] += 1
                bad.append({'function': qn, 'args': repr(args), 'engine': repr(e)[:600], 'cpython': repr(c)[:600]})
    print('engine-vs-CPython differential: %d cases agree, %d skipped (engine left its concrete subset), %d DISAGREE' % (agree, skipped, len(bad)))
    for b in bad[:10]:
        print('  DISAGREE %s %s\n     engine : %s\n     cpython: %s' % (b['function'], b['args'], b['engine'], b['cpython']))
    if a.json:
        json.dump({'agree': agree, 'skipped': skipped, 'disagree': bad, 'per_function': per_fn}, open(a.json, 'w'), indent=1)
    return 3 if bad else 0


if __name__ == '__main__':
    sys.exit(main())
