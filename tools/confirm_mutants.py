#!/usr/bin/env python3
"""Confirm candidate seeded changes (written by independent sub-agents under /tmp/mut/<ID>/out/m<k>/) against the
CURRENT /repo HEAD in a scratch worktree, and keep the confirmed ones under /verif/seeded/<ID>-m<k>/.
Confirmed = patch applies, full suite passes with it, demo exits 1 with it and 0 without it."""
import json, os, shutil, subprocess, sys, glob, tempfile

WT = tempfile.mkdtemp(prefix='petl_wt_', dir='/tmp')
PY = '/venv/bin/python'


def sh(cmd, cwd=None, env=None):
    p = subprocess.run(cmd, shell=True, cwd=cwd, capture_output=True, text=True, env=env)
    return p.returncode, (p.stdout + p.stderr)


def main():
    os.rmdir(WT)
    rc, out = sh('git -C /repo worktree add --detach %s HEAD -q && cp /repo/petl/version.py %s/petl/' % (WT, WT))
    assert rc == 0, out
    env = dict(os.environ, PYTHONPATH=WT, PYTHONDONTWRITEBYTECODE='1')
    results = {}
    try:
        for d in sorted(glob.glob(os.environ.get('MUT_GLOB', '/tmp/mut/C*/out/m*'))):
            pid = d.split('/')[3]
            name = '%s-%s%s' % (pid, os.environ.get('MUT_TAG', ''), os.path.basename(d))
            if sys.argv[1:] and name not in sys.argv[1:] and pid not in sys.argv[1:]:
                continue
            dest = '/verif/seeded/' + name
            patch, demo = d + '/patch.diff', d + '/demo.py'
            if not (os.path.exists(patch) and os.path.exists(demo)):
                results[name] = 'incomplete'
                continue
            sh('git checkout -q -- . && git clean -fdq -e petl/version.py', cwd=WT)
            shutil.copy(demo, WT + '/_demo.py')
            r0, o0 = sh('%s _demo.py' % PY, cwd=WT, env=env)
            ra, oa = sh('git apply %s || git apply -C1 --recount %s || patch -p1 -F3 < %s' % (patch, patch, patch), cwd=WT)
            if ra != 0:
                results[name] = 'patch does not apply to current HEAD: ' + oa[-200:]
                continue
            rt, ot = sh('%s -m pytest -q -p no:cacheprovider -x 2>&1 | tail -3' % PY, cwd=WT, env=env)
            passed = '481 passed' in ot
            r1, o1 = sh('%s _demo.py' % PY, cwd=WT, env=env)
            ok = (r0 == 0 and passed and r1 == 1)
            results[name] = 'confirmed' if ok else 'rejected: pristine demo exit %d, suite %s, patched demo exit %d' % (r0, ot.strip()[-60:], r1)
            if ok:
                os.makedirs(dest, exist_ok=True)
                sh('git diff > %s/patch.diff' % dest, cwd=WT) if os.makedirs(dest, exist_ok=True) is None else None
                shutil.copy(demo, dest + '/demo.py')
                meta = {}
                try:
                    meta = json.load(open(d + '/meta.json'))
                except Exception:
                    pass
                meta['property'] = pid
                meta['confirmed_by'] = ('scratch worktree of /repo HEAD %s: demo exit 0 pristine; git apply; pytest -> 481 passed; demo exit 1'
                                        % sh('git -C /repo rev-parse --short HEAD')[1].strip())
                meta['patched_demo_output_tail'] = o1[-600:]
                json.dump(meta, open(dest + '/meta.json', 'w'), indent=1)
            print(name, results[name], flush=True)
    finally:
        sh('git -C /repo worktree remove --force %s' % WT)
    json.dump(results, open('/verif/seeded/confirm_log%s.json' % os.environ.get('MUT_TAG', ''), 'w'), indent=1)


main()
