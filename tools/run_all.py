#!/usr/bin/env python3
"""run ./check for every claimed property (in parallel) and print exit code + summary line"""
import json, subprocess, sys, os, time
from concurrent.futures import ThreadPoolExecutor
V = os.path.dirname(os.path.dirname(os.path.abspath(__file__)))
tier = sys.argv[1] if len(sys.argv) > 1 else 'quick'
props = sys.argv[2:] or [c['property_id'] for c in json.load(open(V + '/MANIFEST.json'))['checks']]
def run(p):
    t0 = time.time()
    r = subprocess.run([V + '/check', p, '--tier', tier], cwd=V, capture_output=True, text=True, timeout=3600)
    lines = [l for l in r.stdout.split('\n') if l.strip()]
    return p, r.returncode, time.time() - t0, lines
with ThreadPoolExecutor(int(os.environ.get('JOBS', '5'))) as ex:
    for p, rc, dt, lines in ex.map(run, props):
        print('%s exit=%d %.0fs  %s' % (p, rc, dt, lines[-1] if lines else ''))
        for l in lines[:-1][:12]:
            print('      ' + l[:300])
