#!/usr/bin/env python3
"""False-alarm test: apply each behaviour-preserving refactoring under /verif/benign/<name>/patch.diff to a scratch worktree of
/repo and run the checks of every property that has a function of a touched module under contract (from evidence/*.json).
Expected: exit 0 (held); exit 2 (undecided: the proof could not be re-established, e.g. a renamed local) is tolerated and
reported; exit 1 (VIOLATION) or 3 on behaviour-preserving code is a false alarm to be fixed.
usage: tools/benign_run.py [names...] [--no-bounded]"""
import glob, json, os, re, shutil, subprocess, sys, tempfile, threading
from concurrent.futures import ThreadPoolExecutor
V = os.path.dirname(os.path.dirname(os.path.abspath(__file__)))
WT_LOCK = threading.Lock()
args = [a for a in sys.argv[1:] if not a.startswith('--')]
extra = [a for a in sys.argv[1:] if a in ('--no-bounded', '--no-deductive')]
names = args or sorted(os.path.basename(d) for d in glob.glob(V + '/benign/*') if os.path.isdir(d))


def props_for(files):
    mods = [f[:-3].replace('/', '.') for f in files if f.endswith('.py')]
    out = []
    for ev in sorted(glob.glob(V + '/evidence/*.json')):
        d = json.load(open(ev))
        fns = d['coverage'].get('functions_under_contract', {})
        if any(any(fn.startswith(m + '.') for m in mods) for fn in fns):
            out.append(d['property_id'])
    return out


def sh(cmd, **kw):
    return subprocess.run(cmd, shell=True, capture_output=True, text=True, **kw)


def one(name):
    patch = '%s/benign/%s/patch.diff' % (V, name)
    files = re.findall(r'^\+\+\+ b/(\S+)', open(patch).read(), re.M)
    props = props_for(files)
    wt = tempfile.mkdtemp(prefix='petl_bw_', dir='/tmp')
    os.rmdir(wt)
    out = []
    try:
        with WT_LOCK:
            sh('git -C /repo worktree add --detach %s HEAD -q && cp /repo/petl/version.py %s/petl/' % (wt, wt))
        r = sh('git apply %s' % patch, cwd=wt)
        if r.returncode != 0:
            return [(name, '-', 'patch does not apply', r.stderr[:100])]
        for p in props:
            r = subprocess.run([V + '/check', p] + extra, cwd=V, env=dict(os.environ, VERIF_REPO=wt), capture_output=True, text=True)
            lines = [l for l in r.stdout.split('\n') if l.startswith(('VIOLATION', 'UNDECIDED', 'CHECKER'))]
            out.append((name, p, 'exit=%d' % r.returncode, lines[0][:200] if lines else ''))
    finally:
        with WT_LOCK:
            sh('git -C /repo worktree remove --force %s' % wt)
        shutil.rmtree(wt, ignore_errors=True)
    return out


with ThreadPoolExecutor(int(os.environ.get('JOBS', '3'))) as ex:
    for res in ex.map(one, names):
        for r in res:
            print('%-10s %-4s %-8s %s' % r, flush=True)
