#!/bin/bash
# usage: handmut.sh <file-relative-to-repo> <python-expr-old> <new> -- <pyvc.run args>; applies a textual edit on a scratch copy and runs the deductive layer only
set -e
F="$1"; OLD="$2"; NEW="$3"; shift 3
D=$(mktemp -d /tmp/hm.XXXX)
rsync -a --exclude .git /repo/ $D/repo/
OLD="$OLD" NEW="$NEW" python3 - "$D/repo/$F" <<'PY'
import sys,os
p=sys.argv[1]; s=open(p).read(); o=os.environ['OLD']; n=os.environ['NEW']
assert s.count(o)>=1, 'pattern not found'
open(p,'w').write(s.replace(o,n,1))
PY
cd /verif && VERIF_REPO=$D/repo timeout 900 python3-vt -m pyvc.run --root $D/repo "$@" 2>&1 | grep -v conda | cut -c1-300 | tail -8 || true
rm -rf $D
