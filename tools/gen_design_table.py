#!/usr/bin/env python3
"""Rewrites the table of DESIGN.md section I.3 (between the BEGIN/END markers) from evidence/*.json and MANIFEST.json, so that
the document cannot drift from what the checks actually discharge."""
import json, os, re
V = os.path.dirname(os.path.dirname(os.path.abspath(__file__)))
man = {c['property_id']: c for c in json.load(open(V + '/MANIFEST.json'))['checks']}
rows = ['| id | MANIFEST level | petl functions under contract (real AST) | deductive tasks | obligations discharged / generated | by back end | bounded evaluations |',
        '|----|------|------|------|------|------|------|']
for pid in sorted(man):
    p = V + '/evidence/%s.json' % pid
    if not os.path.exists(p):
        continue
    ev = json.load(open(p))
    cov = ev['coverage']
    fns = sorted(cov.get('functions_under_contract', {}))
    short = [f.replace('petl.transform.', 't.').replace('petl.util.', 'u.').replace('petl.io.', 'io.') for f in fns]
    shown = ', '.join('`%s`' % f for f in short[:14]) + (' … (+%d more, see evidence)' % (len(short) - 14) if len(short) > 14 else '')
    tasks = cov.get('deductive_tasks', [])
    rows.append('| %s | %s | %d: %s | %d | %d / %d | %s | %s |' % (
        pid, man[pid]['level_claimed']['category'], len(fns), shown or '(analysis over all view classes / mutation sites)', len(tasks),
        cov.get('discharged', 0), cov.get('obligations', 0),
        ', '.join('%s %d' % kv for kv in sorted(cov.get('discharged_by_backend', {}).items())), cov.get('evaluations', 0)))
text = '\n'.join(rows)
d = open(V + '/DESIGN.md').read()
b, e = '<!-- BEGIN GENERATED I.3 -->', '<!-- END GENERATED I.3 -->'
assert b in d and e in d
d = d[:d.index(b) + len(b)] + '\n' + text + '\n' + d[d.index(e):]
open(V + '/DESIGN.md', 'w').write(d)
print('table rows', len(rows) - 2)
