"""bcheck.common -- the bounded stand-in (DESIGN 3): contracts / reference specifications evaluated on the REAL
functions (petl imported from the tree under check) for an enumerated finite scope.  Bounded, never 'proved'."""
import datetime, decimal, hashlib, itertools, random, traceback
from decimal import Decimal
from datetime import date, time, datetime as dt

GROUPS = {}


class Group(object):
    def __init__(self, name, fn, inputs, rule=''):
        self.name, self.fn, self.inputs, self.rule = name, fn, inputs, rule


def group(name, inputs, rule=''):
    """register check fn(inp) -> None | (ok, subkey, expected, observed) ; inputs(tier, seed) -> iterable"""
    def deco(fn):
        GROUPS[name] = Group(name, fn, inputs, rule)
        return fn
    return deco


class Fail(Exception):
    def __init__(self, subkey, expected=None, observed=None, msg=''):
        Exception.__init__(self, msg or subkey)
        self.subkey, self.expected, self.observed, self.msg = subkey, expected, observed, msg


def expect(cond, subkey, expected=None, observed=None, msg=''):
    if not cond:
        raise Fail(subkey, expected, observed, msg)


class Recorder(object):
    def __init__(self, tier, seed, max_fail_per_key=3):
        self.tier, self.seed = tier, seed
        self.evaluations = 0
        self.distinct = set()
        self.failures = []
        self.failcount = {}
        self.samples = []
        self.groups = {}
        self.exhaustive = True
        self.max_fail_per_key = max_fail_per_key

    def run_group(self, g, only_input=None):
        n = 0
        inputs = [only_input] if only_input is not None else g.inputs(self.tier, self.seed)
        for inp in inputs:
            n += 1
            self.evaluations += 1
            r = repr(inp)
            self.distinct.add(hashlib.md5((g.name + r).encode()).digest()[:8])
            if n <= 2 and len(self.samples) < 10:
                self.samples.append({'group': g.name, 'input': r[:400]})
            try:
                g.fn(inp)
            except Fail as f:
                self.fail(g, r, f.subkey, f.expected, f.observed, f.msg)
            except Exception as e:
                self.fail(g, r, 'exception/' + type(e).__name__, None, None, traceback.format_exc()[-900:])
        self.groups[g.name] = n

    def fail(self, g, inp_repr, subkey, expected, observed, msg):
        key = '%s/%s' % (g.name, subkey)
        c = self.failcount.get(key, 0)
        self.failcount[key] = c + 1
        if c < self.max_fail_per_key:
            self.failures.append({'group': g.name, 'key': key, 'input': inp_repr, 'expected': repr(expected)[:1500],
                                  'observed': repr(observed)[:1500], 'message': msg[:1500]})

    def report(self, rule):
        return {'evaluations': self.evaluations, 'distinct_nontrivial': len(self.distinct), 'rule': rule,
                'samples': self.samples, 'exhaustive': self.exhaustive, 'groups': self.groups,
                'failures': self.failures, 'failure_counts': self.failcount}


EVAL_ENV = {'Decimal': Decimal, 'datetime': datetime, 'date': date, 'time': time, 'dt': dt, 'decimal': decimal}


def parse_input(s):
    return eval(s, dict(EVAL_ENV))


def sample(items, k, seed):
    """deterministic sample of at most k items (marks non-exhaustive through the caller)"""
    items = list(items)
    if len(items) <= k:
        return items, True
    rnd = random.Random(seed)
    return rnd.sample(items, k), False


# ---------------------------------------------------------------------------------- table enumeration helpers

def tables(cells, widths=(1, 2), maxrows=2, ragged=False, headers=None):
    """all tables (header + <= maxrows rows) over the cell alphabet; ragged: row lengths in {w-1, w, w+1}"""
    for w in widths:
        hdr = tuple((headers or ['f%d' % i for i in range(w)])[:w])
        lens = sorted(set(l for l in ((w - 1, w, w + 1) if ragged else (w,)) if l >= 0))
        rows = [r for l in lens for r in itertools.product(cells, repeat=l)]
        for n in range(maxrows + 1):
            for body in itertools.product(rows, repeat=n):
                yield [hdr] + [tuple(r) for r in body]
