"""C04 bounded stand-in: the order laws and the use sites, on the real petl.comparison.Comparable, over an alphabet that
realises every class / equality / order pattern the ladder can distinguish (also validates T3/T4 against CPython)."""
import itertools, random
from decimal import Decimal
from datetime import date, time, datetime as dt
import petl as etl
from petl.comparison import Comparable, comparable_itemgetter
from .common import group, expect, Fail, sample

RULE = ('all pairs (and all / a seeded sample of triples) over a 36-value alphabet (None, bool, int, float, Decimal, bytes, '
        'str, date, datetime, time, nested tuples/lists to depth 2); a case is one (law, operands) evaluation on the '
        'real class; distinct = distinct operand tuples per group')
BOUND = {'quick': 'pairs exhaustive; 6000 sampled triples; tables of <= 3 cells', 'thorough': 'pairs and triples exhaustive'}

ATOMS = [None, False, True, 0, 1, 2, -1, 1.5, Decimal('1'), Decimal('2.5'), b'', b'a', b'b', '', 'a', 'b',
         date(2020, 1, 1), date(2021, 1, 1), dt(2020, 1, 1, 0, 0), dt(2021, 1, 1, 0, 0), time(1, 0), time(2, 0)]
NESTED = [(), (0,), (1,), (0, 'a'), (None,), (0, None), [0], [1], [0, 'a'], ((0,),), ([0],), (1, (2,)), [], ('a', 0)]
ALPHA = ATOMS + NESTED


def is_num(x):
    return isinstance(x, (bool, int, float, Decimal))


def is_seq(x):
    return isinstance(x, (list, tuple))


def tname(x):
    if isinstance(x, bytes):
        return 'str'
    if isinstance(x, str):
        return 'unicode'
    if is_seq(x):
        return 'tuple'
    return type(x).__name__


def ref_eq(a, b):
    if is_seq(a) and is_seq(b):
        return len(a) == len(b) and all(ref_eq(x, y) for x, y in zip(a, b))
    if is_seq(a) or is_seq(b):
        return False
    return a == b


def ref_lt(a, b):
    """the ordering as the property states it: None < numbers < rest; native inside a type; type name across;
    list/tuple element-wise"""
    if b is None:
        return False
    if a is None:
        return True
    if is_num(a) and is_num(b):
        return a < b
    if is_num(a):
        return True
    if is_num(b):
        return False
    if is_seq(a) and is_seq(b):
        for x, y in zip(a, b):
            if not ref_eq(x, y):
                return ref_lt(x, y)
        return len(a) < len(b)
    if type(a) is type(b):
        return a < b
    return tname(a) < tname(b)


def _pairs(tier, seed):
    return itertools.product(ALPHA, repeat=2)


@group('laws.pairs', _pairs)
def laws_pairs(inp):
    a, b = inp
    ca, cb = Comparable(a), Comparable(b)
    lt, eq = ref_lt(a, b), ref_eq(a, b)
    expect((ca < cb) == lt, 'lt-vs-spec', lt, ca < cb)
    expect((ca == cb) == eq, 'eq-vs-spec', eq, ca == cb)
    expect((ca <= cb) == (lt or eq), 'le', lt or eq, ca <= cb)
    expect((ca > cb) == (not lt and not eq), 'gt', not lt and not eq, ca > cb)
    expect((ca >= cb) == (not lt), 'ge', not lt, ca >= cb)
    expect(not (lt and ref_lt(b, a)), 'spec-asymmetric')
    expect(lt or eq or ref_lt(b, a), 'spec-total')
    # raw operand on the right (selectors) and on the left (reflection, T3)
    sub = 'list-operand' if isinstance(b, list) else 'operand'
    expect((ca < b) == lt, 'raw-right-lt/' + sub, lt, ca < b)
    expect((ca == b) == eq, 'raw-right-eq/' + sub, eq, ca == b)
    expect((ca > b) == ref_lt(b, a), 'raw-right-gt/' + sub, ref_lt(b, a), ca > b)
    expect((ca <= b) == (lt or eq), 'raw-right-le/' + sub, lt or eq, ca <= b)
    expect((ca >= b) == (not lt), 'raw-right-ge/' + sub, not lt, ca >= b)
    subl = 'list-operand' if isinstance(a, list) else 'operand'
    if not isinstance(a, (list, tuple)):
        expect((a < cb) == lt, 'raw-left-lt/' + subl, lt, a < cb)
        expect((a > cb) == ref_lt(b, a), 'raw-left-gt/' + subl, ref_lt(b, a), a > cb)


def _triples(tier, seed):
    allt = itertools.product(ALPHA, repeat=3)
    if tier == 'thorough':
        return allt
    rnd = random.Random(seed)
    return [tuple(rnd.choice(ALPHA) for _ in range(3)) for _ in range(6000)]


@group('laws.triples', _triples)
def laws_triples(inp):
    a, b, c = (Comparable(x) for x in inp)
    if a < b and b < c:
        expect(a < c, 'transitive', True, False)
    if a == b and b == c:
        expect(a == c, 'eq-transitive')
    if a < b and b == c:
        expect(a < c, 'lt-respects-eq-right')
    if a == b and b < c:
        expect(a < c, 'lt-respects-eq-left')


def _columns(tier, seed):
    k = 3
    rnd = random.Random(seed)
    n = 20000 if tier == 'thorough' else 1500
    out = [tuple(rnd.choice(ALPHA) for _ in range(rnd.choice((2, 3, 4)))) for _ in range(n)]
    out += [(None, None), (None, 1, None), ((0,), [0]), ('a', b'a', 1, None)]
    return out


def _ref_sorted(vals):
    import functools
    def cmp(x, y):
        return -1 if ref_lt(x[1], y[1]) else (1 if ref_lt(y[1], x[1]) else x[0] - y[0])
    return [v for _, v in sorted(enumerate(vals), key=functools.cmp_to_key(cmp))]


@group('use.sort', _columns)
def use_sort(inp):
    vals = list(inp)
    t = [('k', 'i')] + [(v, i) for i, v in enumerate(vals)]
    got = [r for r in etl.data(etl.sort(t, 'k'))]
    exp = _ref_sorted([(v, i) for i, v in enumerate(vals)])
    exp = [r for r in sorted(((v, i) for i, v in enumerate(vals)), key=lambda r: 0)]  # placeholder replaced below
    import functools
    exp = sorted(((v, i) for i, v in enumerate(vals)),
                 key=functools.cmp_to_key(lambda x, y: -1 if ref_lt(x[0], y[0]) else (1 if ref_lt(y[0], x[0]) else x[1] - y[1])))
    expect([tuple(r) for r in got] == exp, 'sort-order', exp, got)
    expect(etl.issorted(etl.sort(t, 'k'), 'k') is True, 'issorted-after-sort', True, False)
    is_sorted_ref = all(not ref_lt(vals[i + 1], vals[i]) for i in range(len(vals) - 1))
    expect(etl.issorted(t, 'k') == is_sorted_ref, 'issorted-vs-spec', is_sorted_ref, etl.issorted(t, 'k'))
    # whole-row ordering (key=None): rows are compared as tuples under the same ordering
    t1 = [('k',)] + [(v,) for v in vals]
    try:
        got1 = etl.issorted(t1)
    except Exception as e:
        raise Fail('issorted-keyless/' + type(e).__name__, is_sorted_ref, repr(e))
    expect(got1 == is_sorted_ref, 'issorted-keyless-vs-spec', is_sorted_ref, got1)


def _sel(tier, seed):
    vals = ALPHA
    return itertools.product(vals, vals)


@group('use.selectors', _sel)
def use_selectors(inp):
    cell, ref = inp
    t = [('f',), (cell,)]
    lt, eq = ref_lt(cell, ref), ref_eq(cell, ref)
    sub = '/list-operand' if isinstance(ref, list) or isinstance(cell, list) else ''
    for name, fn, want in [('selectlt', etl.selectlt, lt), ('selectle', etl.selectle, lt or eq),
                           ('selectgt', etl.selectgt, ref_lt(ref, cell)), ('selectge', etl.selectge, not lt)]:
        got = etl.nrows(fn(t, 'f', ref)) == 1
        expect(got == want, name + sub, want, got)
    if not is_seq(cell) and not is_seq(ref):
        expect((etl.nrows(etl.selecteq(t, 'f', ref)) == 1) == eq, 'selecteq', eq, not eq)
        expect((etl.nrows(etl.selectne(t, 'f', ref)) == 1) == (not eq), 'selectne', not eq, eq)


def _keys(tier, seed):
    vals = [None, 0, 1, 'a', b'a', (0,), date(2020, 1, 1)]
    return itertools.product(vals, vals)


@group('use.mergejoin', _keys)
def use_mergejoin(inp):
    a, b = inp
    l = [('k', 'x'), (a, 'L')]
    r = [('k', 'y'), (b, 'R')]
    got = etl.nrows(etl.join(l, r, key='k'))
    expect((got == 1) == ref_eq(a, b), 'join-matches-iff-eq', ref_eq(a, b), got)
    # key extraction: a missing key cell reads as None
    g = comparable_itemgetter(1)
    expect(g((a,)) == Comparable(None), 'missing-key-is-None')
