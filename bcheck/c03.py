"""C03 bounded stand-in: transformations never modify their inputs or rows already delivered.

Specification (property statement): evaluating a pipeline -- fully, partially (stopping after any k items, with the
iterator left suspended or dropped) or twice -- leaves every source container, header, row and cell, and every mutable
argument (field lists, header lists, mapping dicts), equal to what it was before, the very same row objects in the same
places; and a row object that has been yielded still has, at the end, the value it had when it was yielded.
Sources are lists of mutable lists (header included), ragged rows included, with list / dict cells where an operator
unpacks them.  Snapshots are structural and type-exact.
"""
import itertools
from .common import group, expect, Fail, sample
from .specutil import Resolver, S, T, F, V, freeze

RULE = ('one case = (operator call description with its literal source tables, regular?, mode); tables are enumerated '
        'by row-length pattern (each row of length 0, w-1, w or w+1) with cells fixed by column type and row number; '
        'mode "steps" checks the snapshots after every single item of two complete passes, mode ("abandon", k) after k '
        'items and dropping the iterator; distinct = distinct (call, tables, mode)')
BOUND = {
    'quick': 'every function of the anchored modules (basics, fills, joins, hashjoins, conversions, reshape, unpacks, '
             'regex, sorts) in the argument forms of the catalogue (130 calls); one-table calls: all row-length patterns '
             'of <= 3 data rows; two-table calls: all patterns of <= 2 rows on one side x 7 shapes (0, 1 regular / short / '
             'long / empty row, 2 regular, short+long) on the other, both ways; modes: steps (two complete passes, '
             'snapshots compared after every item) + abandon after 1, 2, 3 items',
    'thorough': 'as quick; two-table calls: all patterns of <= 2 rows on both sides, and all 3-row patterns on one side '
                'x the 7 shapes on the other; modes steps + abandon after 0..4 items',
}

# ------------------------------------------------------------------------------------------------ tables

CELLS = {
    'k': [1, 0, 1],                         # key, unsorted, with a duplicate
    'j': [0, 0, 1],                         # key with adjacent duplicates
    's': ['a-b', 'c-d', 'e-f'],             # text for the regex functions
    'v': [10, 20, 30],
    'n': [None, 5, None],                   # gaps for the fill functions
    'l': None,                              # a list cell (unpack)
    'd': None,                              # a dict cell (unpackdict)
    'x': ['x', 'y', 'x'],                   # variable names (recast, pivot)
    't': ['#c', 'r', '#d'],                 # comment markers
    'w': ['x', 'y', 'z'],
    'm': ['1', '2.5', 'z'],                 # strings that parse as numbers (convertnumbers)
}


def cell(tp, r):
    if tp == 'l':
        return [r, r + 1]
    if tp == 'd':
        return {'p': r, 'q': -r}
    return CELLS[tp][r % 3]


def table(schema, lens):
    """list of lists: header f0..f<w-1>, row r has lens[r] cells (cells beyond the width are 'E')"""
    w = len(schema)
    rows = [['f%d' % i for i in range(w)]]
    for r, ln in enumerate(lens):
        rows.append([cell(schema[c], r) if c < w else 'E' for c in range(ln)])
    return rows


def row_lengths(w):
    return sorted(set(l for l in (0, w - 1, w, w + 1) if l >= 0))


def patterns(w, maxrows):
    ls = row_lengths(w)
    for n in range(maxrows + 1):
        for p in itertools.product(ls, repeat=n):
            yield p


def side_shapes(w):
    """the 7 shapes used for the 'other' table of a two-table call"""
    return [(), (w,), (w - 1,), (w + 1,), (0,), (w, w), (w - 1, w + 1)]


def is_regular(schema, lens):
    """full-width rows and at least one of them: the call must then work (what an operator does with a header-only or
    a ragged table is the business of other properties; here such a call may fail, the snapshots are checked anyway)"""
    return len(lens) > 0 and all(l == len(schema) for l in lens)


# ------------------------------------------------------------------------------------------------ the calls

def catalogue():
    """(label, schemas of the table arguments, function (table markers...) -> spec)"""
    c = []

    def add(label, schemas, make):
        c.append((label, tuple(schemas), make))

    one = lambda label, schema, make: add(label, [schema], make)
    two = lambda label, s1, s2, make: add(label, [s1, s2], make)

    # ---- petl/transform/basics.py
    one('cut', 'ksv', lambda t: S('cut', t, 'f2', 'f0'))
    one('cut-index-missing', 'ksv', lambda t: S('cut', t, 2, 0, missing='-'))
    one('cutout', 'ksv', lambda t: S('cutout', t, 'f1'))
    two('cat', 'ksv', 'kw', lambda t, u: S('cat', t, u))
    two('cat-header', 'ksv', 'kw', lambda t, u: S('cat', t, u, header=['f1', 'f0', 'zz'], missing='-'))
    one('cat-single', 'ksv', lambda t: S('cat', t))
    two('stack', 'ksv', 'kw', lambda t, u: S('stack', t, u))
    two('stack-notrim-pad', 'ksv', 'kw', lambda t, u: S('stack', t, u, missing='NA', trim=False, pad=True))
    two('stack-trim-nopad', 'ksv', 'kw', lambda t, u: S('stack', t, u, trim=True, pad=False))
    two('stack-notrim-nopad', 'ksv', 'kw', lambda t, u: S('stack', t, u, trim=False, pad=False))
    one('addfield', 'ksv', lambda t: S('addfield', t, 'z', 9))
    one('addfield-fn', 'ksv', lambda t: S('addfield', t, 'z', F('rec_len')))
    one('addfield-index', 'ksv', lambda t: S('addfield', t, 'z', 9, index=1))
    one('addfield-missing', 'ksv', lambda t: S('addfield', t, 'z', 9, index=0, missing='-'))
    one('addfields', 'ksv', lambda t: S('addfields', t, [('z', 1), ('y', F('rec_len')), ('x', 2, 0)]))
    one('rowslice', 'ksv', lambda t: S('rowslice', t, 1, 3))
    one('rowslice-step', 'ksv', lambda t: S('rowslice', t, 0, None, 2))
    one('head', 'ksv', lambda t: S('head', t, 1))
    one('tail', 'ksv', lambda t: S('tail', t, 1))
    one('skipcomments', 'tv', lambda t: S('skipcomments', t, '#'))
    one('movefield', 'ksv', lambda t: S('movefield', t, 'f2', 0))
    two('annex', 'ksv', 'kw', lambda t, u: S('annex', t, u))
    two('annex-missing', 'ksv', 'kw', lambda t, u: S('annex', t, u, missing='NA'))
    one('addrownumbers', 'ksv', lambda t: S('addrownumbers', t))
    one('addrownumbers-args', 'ksv', lambda t: S('addrownumbers', t, 5, 2, field='r'))
    one('addcolumn', 'ksv', lambda t: S('addcolumn', t, 'z', [7, 8]))
    one('addcolumn-index', 'ksv', lambda t: S('addcolumn', t, 'z', [7], index=0, missing='-'))
    one('addfieldusingcontext', 'ksv', lambda t: S('addfieldusingcontext', t, 'z', F('ctx_len')))
    # ---- petl/transform/fills.py
    one('filldown', 'nnn', lambda t: S('filldown', t))
    one('filldown-fields', 'nnn', lambda t: S('filldown', t, 'f0', 'f2'))
    one('filldown-missing', 'nvn', lambda t: S('filldown', t, missing=5))
    one('fillright', 'nnn', lambda t: S('fillright', t))
    one('fillright-missing', 'vnn', lambda t: S('fillright', t, missing=None))
    one('fillleft', 'nnn', lambda t: S('fillleft', t))
    one('fillleft-missing', 'nnv', lambda t: S('fillleft', t, missing=None))
    # ---- petl/transform/joins.py
    for nm in ('join', 'leftjoin', 'rightjoin', 'outerjoin', 'antijoin', 'lookupjoin'):
        two(nm, 'ksv', 'kw', (lambda nm: lambda t, u: S(nm, t, u, key='f0'))(nm))
    for nm in ('join', 'leftjoin', 'outerjoin'):
        two(nm + '-natural', 'ksv', 'kw', (lambda nm: lambda t, u: S(nm, t, u))(nm))
        two(nm + '-lkey-rkey-buffered', 'ksv', 'wk', (lambda nm: lambda t, u: S(nm, t, u, lkey='f0', rkey='f1',
                                                                                buffersize=1))(nm))
    two('join-prefixes', 'ksv', 'kw', lambda t, u: S('join', t, u, key='f0', lprefix='l_', rprefix='r_'))
    two('leftjoin-missing', 'ksv', 'kw', lambda t, u: S('leftjoin', t, u, key='f0', missing='-'))
    two('lookupjoin-missing', 'jsv', 'jw', lambda t, u: S('lookupjoin', t, u, key='f0', missing='-'))
    two('crossjoin', 'kv', 'w', lambda t, u: S('crossjoin', t, u))
    two('crossjoin-prefix', 'kv', 'w', lambda t, u: S('crossjoin', t, u, prefix=True))
    one('unjoin-0', 'ksv', lambda t: S('unjoin#0', t, 'f1', key='f0'))
    one('unjoin-1', 'ksv', lambda t: S('unjoin#1', t, 'f1', key='f0'))
    one('unjoin-auto-0', 'ksv', lambda t: S('unjoin#0', t, 'f1'))
    one('unjoin-auto-1', 'ksv', lambda t: S('unjoin#1', t, 'f1'))
    # ---- petl/transform/hashjoins.py
    for nm in ('hashjoin', 'hashleftjoin', 'hashrightjoin'):
        two(nm, 'ksv', 'kw', (lambda nm: lambda t, u: S(nm, t, u, key='f0'))(nm))
        two(nm + '-nocache-natural', 'jsv', 'jw', (lambda nm: lambda t, u: S(nm, t, u, cache=False))(nm))
        two(nm + '-lkey-rkey', 'ksv', 'wk', (lambda nm: lambda t, u: S(nm, t, u, lkey='f0', rkey='f1'))(nm))
    two('hashleftjoin-missing', 'ksv', 'kw', lambda t, u: S('hashleftjoin', t, u, key='f0', missing='-'))
    two('hashantijoin', 'ksv', 'kw', lambda t, u: S('hashantijoin', t, u, key='f0'))
    two('hashlookupjoin', 'jsv', 'jw', lambda t, u: S('hashlookupjoin', t, u, key='f0'))
    two('hashlookupjoin-missing', 'ksv', 'kw', lambda t, u: S('hashlookupjoin', t, u, key='f0', missing='-'))
    # ---- petl/transform/conversions.py
    one('convert', 'ksv', lambda t: S('convert', t, 'f1', 'upper'))
    one('convert-fn', 'ksv', lambda t: S('convert', t, 'f2', F('inc')))
    one('convert-dict', 'ksv', lambda t: S('convert', t, 'f0', {0: 'zero'}))
    one('convert-multi-dict', 'ksv', lambda t: S('convert', t, {'f1': 'upper', 'f2': F('inc')}))
    one('convert-multi-list', 'ksv', lambda t: S('convert', t, ['f1', 'f0'], F('str')))
    one('convert-method-args', 'ksv', lambda t: S('convert', t, 'f1', 'replace', 'a', 'A'))
    one('convert-where', 'ksv', lambda t: S('convert', t, 'f2', F('inc'), where=F('row_first_truthy')))
    one('convert-where-expr', 'ksv', lambda t: S('convert', t, 'f2', F('inc'), where='{f0} == 1'))
    one('convert-passrow', 'ksv', lambda t: S('convert', t, 'f2', F('val_row'), pass_row=True))
    one('convert-failonerror', 'ksv', lambda t: S('convert', t, 'f1', F('int'), failonerror=False, errorvalue=-1))
    one('convertall', 'ksv', lambda t: S('convertall', t, F('str')))
    one('convertnumbers', 'kmv', lambda t: S('convertnumbers', t))
    one('replace', 'ksv', lambda t: S('replace', t, 'f0', 0, 'zero'))
    one('replaceall', 'ksv', lambda t: S('replaceall', t, 0, 'zero'))
    one('update', 'ksv', lambda t: S('update', t, 'f1', 'q'))
    one('update-where', 'ksv', lambda t: S('update', t, 'f1', 'q', where=F('row_first_truthy')))
    one('format', 'ksv', lambda t: S('format', t, 'f2', '{:03d}'))
    one('formatall', 'ksv', lambda t: S('formatall', t, '<{}>'))
    one('interpolate', 'ksv', lambda t: S('interpolate', t, 'f2', '%05d'))
    one('interpolateall', 'ksv', lambda t: S('interpolateall', t, '[%s]'))
    # ---- petl/transform/reshape.py
    one('melt', 'ksv', lambda t: S('melt', t, 'f0'))
    one('melt-variables', 'ksv', lambda t: S('melt', t, key=['f0'], variables=['f2', 'f1'], variablefield='var',
                                             valuefield='val'))
    one('melt-nokey', 'ksv', lambda t: S('melt', t, variables=['f1']))
    one('recast', 'jxv', lambda t: S('recast', t, variablefield='f1', valuefield='f2'))
    one('recast-key-reducers', 'jxv', lambda t: S('recast', t, key=['f0'], variablefield='f1', valuefield='f2',
                                                  reducers={'x': F('sum')}, missing='-'))
    one('recast-variables', 'jxv', lambda t: S('recast', t, variablefield={'f1': ['y', 'x']}, valuefield='f2'))
    one('transpose', 'ksv', lambda t: S('transpose', t))
    one('pivot', 'jxv', lambda t: S('pivot', t, 'f0', 'f1', 'f2', F('sum')))
    one('pivot-missing', 'jxv', lambda t: S('pivot', t, 'f0', 'f1', 'f2', F('list'), missing='-'))
    one('flatten', 'ksv', lambda t: S('flatten', t))
    one('unflatten-table', 'ksv', lambda t: S('unflatten', t, 'f1', 2))
    add('unflatten-list', [], lambda: S('unflatten', [1, 2, 3, 4, 5], 2, missing='-'))
    # ---- petl/transform/unpacks.py
    one('unpack', 'kl', lambda t: S('unpack', t, 'f1', ['p', 'q']))
    one('unpack-original', 'kl', lambda t: S('unpack', t, 'f1', ['p', 'q', 'r'], include_original=True, missing='-'))
    one('unpack-count', 'kl', lambda t: S('unpack', t, 'f1', 3))
    one('unpackdict', 'kd', lambda t: S('unpackdict', t, 'f1'))
    one('unpackdict-keys', 'kd', lambda t: S('unpackdict', t, 'f1', keys=['q', 'zz'], includeoriginal=True,
                                             missing='-'))
    one('unpackdict-sample', 'kd', lambda t: S('unpackdict', t, 'f1', samplesize=1))
    # ---- petl/transform/regex.py
    one('capture', 'ks', lambda t: S('capture', t, 'f1', '(\\w)-(\\w)', ['p', 'q']))
    one('capture-original-fill', 'ks', lambda t: S('capture', t, 'f1', '(a)-(\\w)', ['p', 'q'], include_original=True,
                                                   fill=['', '']))
    one('split', 'ks', lambda t: S('split', t, 'f1', '-', ['p', 'q']))
    one('split-original', 'ks', lambda t: S('split', t, 'f1', '-', ['p', 'q'], include_original=True, maxsplit=1))
    one('splitdown', 'ks', lambda t: S('splitdown', t, 'f1', '-'))
    one('sub', 'ks', lambda t: S('sub', t, 'f1', '-', '+'))
    one('search-field', 'ks', lambda t: S('search', t, 'f1', 'a|e'))
    one('search-any', 'ks', lambda t: S('search', t, '-'))
    one('searchcomplement', 'ks', lambda t: S('searchcomplement', t, 'f1', 'a'))
    one('searchcomplement-any', 'ks', lambda t: S('searchcomplement', t, 'c'))
    # ---- petl/transform/sorts.py
    one('sort', 'ksv', lambda t: S('sort', t, 'f0'))
    one('sort-nokey', 'ksv', lambda t: S('sort', t))
    one('sort-compound-reverse', 'ksv', lambda t: S('sort', t, ['f0', 'f2'], reverse=True))
    one('sort-buffered', 'ksv', lambda t: S('sort', t, 'f0', buffersize=1))
    one('sort-nocache', 'ksv', lambda t: S('sort', t, 'f0', cache=False))
    two('mergesort', 'ksv', 'kw', lambda t, u: S('mergesort', t, u, key='f0'))
    two('mergesort-presorted-header', 'jsv', 'jw', lambda t, u: S('mergesort', t, u, key='f0', presorted=True,
                                                                  header=['f0', 'f1', 'zz'], missing='-'))
    two('mergesort-buffered-reverse', 'ksv', 'kw', lambda t, u: S('mergesort', t, u, key='f0', buffersize=1,
                                                                  reverse=True))
    one('issorted', 'ksv', lambda t: S('issorted', t, 'f0'))
    one('issorted-strict-reverse', 'ksv', lambda t: S('issorted', t, 'f0', reverse=True, strict=True))
    # ---- compositions (a row travels through several stages)
    one('pipeline-addfield-convert-sort', 'ksv',
        lambda t: S('sort', V(S('convert', V(S('addfield', t, 'z', F('rec_len'))), 'f1', 'upper')), 'f0'))
    two('pipeline-annex-of-stack', 'ksv', 'kw',
        lambda t, u: S('annex', V(S('stack', t, u, trim=False, pad=True)), u))
    two('pipeline-filldown-of-leftjoin', 'ksv', 'kw', lambda t, u: S('filldown', V(S('leftjoin', t, u, key='f0'))))
    return c


# ------------------------------------------------------------------------------------------------ evaluation

class Tracked(Resolver):
    """materialises '@T' tables as lists of mutable lists and records every mutable input with its snapshot"""

    def __init__(self):
        Resolver.__init__(self, table=self._table)
        self.inputs = []            # (what, object, list of its row objects or None, frozen snapshot)

    def _table(self, rows):
        tab = [self._cells(r) for r in rows]
        self.inputs.append(('source table %d' % len([1 for i in self.inputs if i[2] is not None]), tab, list(tab),
                            freeze(tab)))
        return tab

    def _cells(self, row):
        return [self._copy(v) for v in row]

    def _copy(self, v):
        if isinstance(v, list):
            return [self._copy(x) for x in v]
        if isinstance(v, dict):
            return dict((k, self._copy(x)) for k, x in v.items())
        return v

    def value(self, x):
        r = Resolver.value(self, x)
        if isinstance(x, (list, dict)) and isinstance(r, (list, dict)):
            self.inputs.append(('argument %r' % (x,), r, None, freeze(r)))
        return r

    def verify(self, label, when):
        for what, obj, rowrefs, frozen in self.inputs:
            now = freeze(obj)
            key = label + ('/source-modified' if rowrefs is not None else '/argument-modified')
            if now != frozen:
                raise Fail(key, frozen, now, '%s changed %s' % (what, when))
            if rowrefs is not None:
                same = len(obj) == len(rowrefs) and all(a is b for a, b in zip(obj, rowrefs))
                if not same:
                    raise Fail(key, None, None, '%s: row objects replaced %s' % (what, when))


def verify_yielded(label, yielded, when):
    for i, (row, frozen) in enumerate(yielded):
        now = freeze(row)
        if now != frozen:
            raise Fail(label + '/yielded-row-modified', frozen, now, 'item %d, yielded earlier, changed %s' % (i, when))


def iterables(res):
    """what can be iterated in the result of a call"""
    if res is None or isinstance(res, (bool, int, float, str)):
        return []
    if isinstance(res, tuple) and res and all(hasattr(x, '__iter__') and not isinstance(x, (str, list, tuple)) for x in res):
        return list(res)
    return [res]


def check(inp):
    label, spec, regular, mode = inp
    R = Tracked()
    try:
        res = R.build(spec)
    except Exception:
        if regular:
            raise
        R.verify(label, 'by a failing constructor')
        return
    R.verify(label, 'by the constructor')
    yielded = []
    for view in iterables(res):
        if mode == 'steps':
            for p in (1, 2):
                try:
                    it = iter(view)
                    while True:
                        try:
                            row = next(it)
                        except StopIteration:
                            break
                        yielded.append((row, freeze(row)))
                        when = 'after item %d of pass %d' % (len(yielded), p)
                        R.verify(label, when)
                        verify_yielded(label, yielded, when)
                except Fail:
                    raise
                except Exception:
                    if regular:
                        raise
                when = 'after pass %d' % p
                R.verify(label, when)
                verify_yielded(label, yielded, when)
        else:
            k = mode[1]
            try:
                it = iter(view)
                for _ in range(k):
                    try:
                        row = next(it)
                    except StopIteration:
                        break
                    yielded.append((row, freeze(row)))
            except Exception:
                if regular:
                    raise
            it = None                   # drop the suspended iterator: generators are closed, finally blocks run
            when = 'after %d items and dropping the iterator' % k
            R.verify(label, when)
            verify_yielded(label, yielded, when)
    res = view = None
    R.verify(label, 'after the views were released')
    verify_yielded(label, yielded, 'after the views were released')


def _modes(tier):
    ks = (0, 1, 2, 3, 4) if tier == 'thorough' else (1, 2, 3)
    return ['steps'] + [('abandon', k) for k in ks]


def _tables_for(schemas, tier):
    thorough = tier == 'thorough'
    if not schemas:
        yield (), True
        return
    if len(schemas) == 1:
        sc = schemas[0]
        w = len(sc)
        pats = list(patterns(w, 3))
        seen = set()
        for p in pats:
            if p in seen:
                continue
            seen.add(p)
            yield (table(sc, p),), is_regular(sc, p)
        return
    s1, s2 = schemas
    w1, w2 = len(s1), len(s2)
    full1, full2 = list(patterns(w1, 2)), list(patterns(w2, 2))
    if thorough:
        combos = [(p, q) for p in full1 for q in full2]
        combos += [(p, q) for p in patterns(w1, 3) if len(p) == 3 for q in side_shapes(w2)]
        combos += [(p, q) for p in side_shapes(w1) for q in patterns(w2, 3) if len(q) == 3]
    else:
        combos = [(p, q) for p in full1 for q in side_shapes(w2)] + [(p, q) for p in side_shapes(w1) for q in full2]
    seen = set()
    for p, q in combos:
        if (p, q) in seen:
            continue
        seen.add((p, q))
        yield (table(s1, p), table(s2, q)), is_regular(s1, p) and is_regular(s2, q)


def _inputs(tier, seed):
    modes = _modes(tier)
    for label, schemas, make in catalogue():
        for tabs, regular in _tables_for(schemas, tier):
            spec = make(*[T(t) for t in tabs])
            for m in modes:
                yield (label, spec, regular, m)


@group('frame', _inputs)
def frame(inp):
    check(inp)
