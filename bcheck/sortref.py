"""bcheck.sortref -- the sort specification shared by C05 / C11 / C18: THE stable permutation under the C04 ordering.
No groups are registered here (importing bcheck.c04 registers C04's groups as a side effect; they are removed again, they
belong to the C04 module only)."""
import functools
from collections import Counter
from . import common
_before = set(common.GROUPS)
from .c04 import ref_lt, ref_eq          # the C04 ordering (spec side)
for _k in set(common.GROUPS) - _before:
    del common.GROUPS[_k]


def key_indices(hdr, key):
    if key is None:
        return list(range(len(hdr)))
    specs = key if isinstance(key, (tuple, list)) else (key,)
    return [s if isinstance(s, int) else list(hdr).index(s) for s in specs]


def key_of(row, idx):
    """a missing key cell reads as None (C04 use-site contract)"""
    return tuple(row[i] if i < len(row) else None for i in idx)


def ref_sort(rows, idx, reverse):
    """THE permutation ordered by (key asc | desc, original index asc)"""
    def cmp(x, y):
        kx, ky = key_of(x[1], idx), key_of(y[1], idx)
        if ref_lt(kx, ky):
            return 1 if reverse else -1
        if ref_lt(ky, kx):
            return -1 if reverse else 1
        return x[0] - y[0]
    return [tuple(r) for _, r in sorted(enumerate(rows), key=functools.cmp_to_key(cmp))]


def monotone(rows, idx, reverse):
    ks = [key_of(r, idx) for r in rows]
    if reverse:
        return all(not ref_lt(ks[i], ks[i + 1]) for i in range(len(ks) - 1))
    return all(not ref_lt(ks[i + 1], ks[i]) for i in range(len(ks) - 1))


def strict(rows):
    """type-aware identity of a row sequence (1, True and 1.0 are different cells)"""
    return repr([tuple(r) for r in rows])


def classify(got, exp, idx, reverse):
    if Counter(repr(tuple(r)) for r in got) != Counter(repr(tuple(r)) for r in exp):
        return 'multiset'
    if not monotone(got, idx, reverse):
        return 'unsorted'
    return 'unstable'
