"""bcheck.specutil -- helpers shared by c01/c02/c03 (registers no group): a petl pipeline is described by a plain
Python literal ("spec") so that a failing input can be stored as repr() and replayed.

    spec  := (fname, args, kwargs)          fname: attribute of petl, or a dotted path below petl ('util.materialise.cache')
    args  := tuple of values; kwargs := tuple of (name, value) pairs
    value := a literal, or one of the markers
        ('@T', rows)      a source table given by its rows (how it is materialised is up to the caller's hook)
        ('@S', i)         the i-th instrumented source of the caller (C02)
        ('@V', spec)      a nested view
        ('@F', name)      a callable from FUNCS (user callbacks: pure, deterministic, never mutate their arguments)
        ('@G', dicts)     a fresh one-shot generator of dicts
        ('@M', bytes)     a petl MemorySource
        ('@O',)           a fresh io.StringIO (sink for progress/clock messages)
        ('@X', i)         the i-th extra object of the caller
   lists / tuples / dicts are resolved element-wise.
"""
import importlib, io, operator, random
import petl


def _f_swap(row):
    return [row[1], row[0]] if len(row) > 1 else list(row)


def _f_two(row):
    yield tuple(row)
    yield tuple(row)


def _f_first(key, rows):
    return next(iter(rows))


def _f_grp(key, rows):
    rows = list(rows)
    return [(key, len(rows))]


def _f_ctx(prv, cur, nxt):
    return (None if prv is None else prv[0], None if nxt is None else nxt[0])


FUNCS = {
    'upper': lambda v: v.upper() if isinstance(v, str) else v,
    'str': lambda v: str(v),
    'inc': lambda v: v + 1 if isinstance(v, int) else v,
    'isint': lambda v: isinstance(v, int),
    'truthy': lambda v: bool(v),
    'falsy': lambda v: not v,
    'eq': operator.eq,
    'val_row0': lambda v, row: v,
    'row_same': lambda row: tuple(row),
    'row_true': lambda row: True,
    'row_first_truthy': lambda row: bool(row[0]) if len(row) else False,
    'row_mod3': lambda row: row[0] % 3 == 0,
    'row_even': lambda row: row[0] % 2 == 0,
    'row_len': lambda row: len(row),
    'row_rev': lambda row: tuple(reversed(tuple(row))),
    'row_swap': _f_swap,
    'row_two': _f_two,
    'rec_id': lambda rec: rec[0],
    'rec_len': lambda rec: len(rec),
    'ctx_len': lambda prv, cur, nxt: (prv is None, nxt is None),
    'val_row': lambda v, row: (v, len(row)),
    'ctx': _f_ctx,
    'ctx_sel': lambda prv, cur, nxt: prv is None or nxt is None or True,
    'ctx_first': lambda prv, cur, nxt: prv is None,
    'grp': _f_grp,
    'grp_first': _f_first,
    'red_len': lambda key, rows: [key, len(list(rows))],
    'fold_add': lambda acc, row: acc + 1,
    'int': int,
    'rnd': random.random,       # a dummytable field function drawing from the module-level RNG, as in the documentation
    'len': len,
    'sum': sum,
    'list': list,
    'min': min,
    'max': max,
    'add': operator.add,
    'key_first': lambda row: row[0],
}


def lookup_fn(fname):
    if '.' in fname:
        modname, attr = fname.rsplit('.', 1)
        return getattr(importlib.import_module('petl.' + modname), attr)
    return getattr(petl, fname)


def _gen(dicts):
    for d in dicts:
        yield dict(d)


class Resolver(object):
    """turns a spec into the real petl object; `table(rows)`, `source(i)`, `extra(i)` are the caller's hooks"""

    def __init__(self, table=None, source=None, extra=None):
        self.table = table or (lambda rows: [tuple(r) for r in rows])
        self.source = source
        self.extra = extra

    def value(self, x):
        if isinstance(x, tuple) and x and isinstance(x[0], str) and x[0][:1] == '@':
            tag = x[0]
            if tag == '@T':
                return self.table(x[1])
            if tag == '@S':
                return self.source(x[1])
            if tag == '@X':
                return self.extra(x[1])
            if tag == '@V':
                return self.build(x[1])
            if tag == '@F':
                return FUNCS[x[1]]
            if tag == '@G':
                return _gen(x[1])
            if tag == '@M':
                from petl.io.sources import MemorySource
                return MemorySource(x[1])
            if tag == '@O':
                return io.StringIO()
            raise ValueError('unknown marker %r' % (tag,))
        if isinstance(x, tuple):
            return tuple(self.value(e) for e in x)
        if isinstance(x, list):
            return [self.value(e) for e in x]
        if isinstance(x, dict):
            return dict((k, self.value(v)) for k, v in x.items())
        return x

    def build(self, spec):
        fname, args, kwargs = spec
        pick = None
        if '#' in fname:        # 'unjoin#1': the function returns several tables, take that one
            fname, pick = fname.split('#')
        fn = lookup_fn(fname)
        res = fn(*[self.value(a) for a in args], **dict((k, self.value(v)) for k, v in kwargs))
        if pick is not None:
            res = res[pick] if isinstance(res, dict) else res[int(pick)]
        return res


def S(fname, *args, **kwargs):
    """shorthand to write a spec"""
    return (fname, tuple(args), tuple(sorted(kwargs.items())))


def T(rows):
    return ('@T', rows)


def F(name):
    assert name in FUNCS, name
    return ('@F', name)


def V(spec):
    return ('@V', spec)


def freeze(x):
    """structural, type-exact snapshot of a value (1 / True / 1.0 and list / tuple are told apart)"""
    if isinstance(x, (list, tuple)):
        return (type(x).__name__, tuple(freeze(e) for e in x))
    if isinstance(x, dict):
        return ('dict', tuple((freeze(k), freeze(v)) for k, v in x.items()))
    return (type(x).__name__, repr(x))
