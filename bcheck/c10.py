"""C10 bounded stand-in: duplicates / unique / distinct / conflicts / isunique on the real petl functions against key
multiplicities computed with plain loops (C04 equality and ordering), for every small rectangular table."""
import functools, itertools, random
import petl as etl
from . import common
from .common import group, expect, Fail, tables

_g = dict(common.GROUPS)                 # importing c04 registers C04's groups; keep only our own
from .c04 import ref_lt, ref_eq          # noqa: E402
common.GROUPS.clear()
common.GROUPS.update(_g)

RULE = ('every rectangular table with 1-2 fields (3 for conflicts) and <= N data rows over the cell alphabet '
        '{None, 0, 1, "a"} (duplicates, None keys, mixed types; header-only and single-row tables included; plus the '
        'zero-field header and an alphabet of equal-but-distinguishable cells 0/False/0.0) x every key form (None = '
        'whole row, field name, field index, 1-tuple, compound in both orders) [x buffersize 1..n+1 / presorted for '
        'the strategy group] [x missing forms None / 0.0 / run-time built "NA" / 1 / absent x include / exclude forms '
        'for conflicts]; one case = one (table, key, ...) tuple on which all of duplicates, unique, distinct, '
        'distinct(count=), isunique (or conflicts) are run and compared with the reference; distinct = distinct tuples')
BOUND = {'quick': 'partition: all tables <= 3 rows x 1-2 fields x all key forms, plus all 4-row tables over {None,0,"a"} '
                  '(1 field) / {None,0} (2 fields); strategy: 1-field tables <= 3 rows exhaustive + 400 sampled '
                  '2-field cases; conflicts: 2-field tables <= 3 rows x 5 missing forms, all 4-row 2-field tables over '
                  'k in {None,0}, a in {None,0,"NA"} x 3 missing forms, 3-field tables <= 3 rows over a 3-value '
                  'alphabet: 6000 sampled cases',
         'thorough': 'partition: all tables <= 4 rows; strategy: 1-field <= 4 rows exhaustive + 20000 sampled 2-field '
                     'cases <= 4 rows; conflicts: 2-field <= 4 rows (3 missing forms), 3-field <= 3 rows exhaustive'}

CELLS = (None, 0, 1, 'a')


# ------------------------------------------------------------------------------------------------ reference side

def _kidx(hdr, key):
    """field selection -> tuple of indices (None = all fields), by the documented rules: name, index, or tuple"""
    if key is None:
        return tuple(range(len(hdr)))
    if isinstance(key, (list, tuple)):
        return tuple(k if isinstance(k, int) else list(hdr).index(k) for k in key)
    return (key if isinstance(key, int) else list(hdr).index(key),)


def _keyof(idx):
    return lambda row: tuple(row[i] for i in idx)


def _ref_sort(rows, kf):
    """stable sort by key under the C04 ordering"""
    def cmp(x, y):
        kx, ky = kf(x[1]), kf(y[1])
        return -1 if ref_lt(kx, ky) else (1 if ref_lt(ky, kx) else x[0] - y[0])
    return [r for _, r in sorted(enumerate(rows), key=functools.cmp_to_key(cmp))]


def _mult(rows, kf, row):
    k = kf(row)
    return sum(1 for r in rows if ref_eq(kf(r), k))


def _first_per_key(srows, kf):
    out = []
    for r in srows:
        if not any(ref_eq(kf(o), kf(r)) for o in out):
            out.append(r)
    return out


def _rep(rows):
    return [repr(tuple(r)) for r in rows]          # type-exact row identity ((0,) is not (0.0,) is not (False,))


def _same_multiset(a, b):
    return sorted(_rep(a)) == sorted(_rep(b))


def _run(what, fn, nrows, ho=True):
    """evaluate a petl pipeline to (header, rows); an exception is a failure of that operator, with the
    header-only case as its own class"""
    try:
        out = [tuple(r) for r in fn()]
    except Exception as e:
        sub = '/header-only' if (nrows == 0 and ho) else ''
        raise Fail('%s%s/%s' % (what, sub, type(e).__name__), 'a table', repr(e))
    expect(len(out) >= 1, what + '/no-header', 'header row', out)
    return out[0], out[1:]


OPS = ('duplicates', 'unique', 'distinct', 'isunique', 'distinct-count')


def _check_partition(tbl, key, kw, presorted_src=None, ops=OPS, ho=True):
    hdr, rows = tuple(tbl[0]), [tuple(r) for r in tbl[1:]]
    n = len(rows)
    kf = _keyof(_kidx(hdr, key))
    srows = _ref_sort(rows, kf)
    src = [hdr] + (srows if presorted_src else rows)
    exp_dup = [r for r in srows if _mult(rows, kf, r) > 1]
    exp_unq = [r for r in srows if _mult(rows, kf, r) == 1]
    exp_dis = _first_per_key(srows, kf)
    exp_cnt = [r + (_mult(rows, kf, r),) for r in exp_dis]

    dup = None
    if 'duplicates' in ops:
        h, dup = _run('duplicates', lambda: etl.duplicates(src, key, **kw), n, ho)
        expect(h == hdr, 'duplicates/header', hdr, h)
        expect(_same_multiset(dup, exp_dup), 'duplicates/rows', exp_dup, dup)
    if 'unique' in ops:
        h, unq = _run('unique', lambda: etl.unique(src, key, **kw), n, ho)
        expect(h == hdr, 'unique/header', hdr, h)
        expect(_same_multiset(unq, exp_unq), 'unique/rows', exp_unq, unq)
        if dup is not None:
            expect(_same_multiset(dup + unq, rows), 'partition', rows, dup + unq)
        expect(_rep(unq) == _rep(exp_unq), 'unique/order', exp_unq, unq)
    if dup is not None:
        expect(_rep(dup) == _rep(exp_dup), 'duplicates/order', exp_dup, dup)

    if 'distinct' in ops:
        h, dis = _run('distinct', lambda: etl.distinct(src, key, **kw), n, ho)
        expect(h == hdr, 'distinct/header', hdr, h)
        expect(len(dis) == len(exp_dis), 'distinct/one-row-per-key', exp_dis, dis)
        expect(_same_multiset(dis, exp_dis), 'distinct/first-of-key', exp_dis, dis)
        expect(_rep(dis) == _rep(exp_dis), 'distinct/order', exp_dis, dis)

    if 'isunique' in ops and len(hdr) > 0:
        fld = key if key is not None else hdr
        try:
            iu = etl.isunique(src, fld)
        except Exception as e:
            raise Fail('isunique/' + type(e).__name__, not exp_dup, repr(e))
        if dup is not None:
            expect(iu == (len(dup) == 0), 'isunique-vs-duplicates', len(dup) == 0, iu)
        expect(iu == (len(exp_dup) == 0), 'isunique-vs-spec', len(exp_dup) == 0, iu)

    if 'distinct-count' in ops:
        h, cnt = _run('distinct-count', lambda: etl.distinct(src, key, count='n', **kw), n, ho)
        expect(h == hdr + ('n',), 'distinct-count/header', hdr + ('n',), h)
        expect(all(len(r) == len(hdr) + 1 for r in cnt), 'distinct-count/row-shape', exp_cnt, cnt)
        expect(sum(r[-1] for r in cnt) == n, 'distinct-count/sum', n, cnt)
        expect(_rep(cnt) == _rep(exp_cnt), 'distinct-count/rows', exp_cnt, cnt)


def _keys(w):
    if w == 0:
        return [None]
    if w == 1:
        return [None, 'f0', 0, ('f0',)]
    return [None, 'f0', 'f1', 1, ('f0', 'f1'), ('f1', 'f0'), ['f0', 1]]


# ------------------------------------------------------------------------------------------------ partition

def _partition_inputs(tier, seed):
    maxrows = 4 if tier == 'thorough' else 3
    for t in tables(CELLS, widths=(1, 2), maxrows=maxrows):
        for key in _keys(len(t[0])):
            yield (t, key)
    if tier != 'thorough':
        # two runs of two need four rows: all 4-row tables over reduced alphabets
        for cells, w in (((None, 0, 'a'), 1), ((None, 0), 2)):
            for body in itertools.product(list(itertools.product(cells, repeat=w)), repeat=4):
                for key in _keys(w):
                    yield ([tuple('f%d' % i for i in range(w))] + list(body), key)


@group('partition', _partition_inputs)
def partition(inp):
    tbl, key = inp
    _check_partition(tbl, key, {})


def _eqcells_inputs(tier, seed):
    # equal-but-distinguishable cells: the key classes are {0, False, 0.0} and {1}; which row survives is observable
    maxrows = 4 if tier == 'thorough' else 3
    for t in tables((0, False, 0.0, 1), widths=(1,), maxrows=maxrows):
        for key in (None, 'f0'):
            yield (t, key)
    for t in tables((0, False, 1), widths=(2,), maxrows=2):
        for key in (None, 'f0', ('f1', 'f0')):
            yield (t, key)


def _hashcoll_inputs(tier, seed):
    # distinct values with EQUAL hashes (-1 / -2; 0 / '' ; tuples of them): equality, not the hash, decides what a duplicate is
    for t in tables((-1, -2, 0, ''), widths=(1,), maxrows=3):
        for key in (None, 'f0'):
            yield (t, key)
    for t in tables((-1, -2), widths=(2,), maxrows=2):
        for key in (None, 'f0', ('f0', 'f1')):
            yield (t, key)


@group('partition.hashcollisions', _hashcoll_inputs)
def partition_hashcoll(inp):
    tbl, key = inp
    _check_partition(tbl, key, {})


@group('partition.eqcells', _eqcells_inputs)
def partition_eqcells(inp):
    tbl, key = inp
    _check_partition(tbl, key, {})


def _zero_inputs(tier, seed):
    return [([()] + [()] * n, op) for n in range(4) for op in ('duplicates', 'unique', 'distinct', 'distinct-count')]


@group('zerofield', _zero_inputs)
def zerofield(inp):
    # a table with a zero-field header: every row is the empty row, so all rows share the one (whole-row) key
    tbl, op = inp
    _check_partition(tbl, None, {}, ops=(op,), ho=False)


# ------------------------------------------------------------------------------------------------ strategy arguments

def _strategy_inputs(tier, seed):
    maxrows = 4 if tier == 'thorough' else 3
    for t in tables(CELLS, widths=(1,), maxrows=maxrows):
        n = len(t) - 1
        for key in _keys(1):
            for bs in list(range(1, n + 2)) + ['presorted']:
                yield (t, key, bs)
    rnd = random.Random(seed)
    rowvals = list(itertools.product(CELLS, repeat=2))
    for _ in range(20000 if tier == 'thorough' else 400):
        n = rnd.randint(2, maxrows)
        t = [('f0', 'f1')] + [rnd.choice(rowvals) for _ in range(n)]
        yield (t, rnd.choice(_keys(2)), rnd.choice(list(range(1, n + 2)) + ['presorted']))


@group('strategy', _strategy_inputs)
def strategy(inp):
    tbl, key, bs = inp
    if bs == 'presorted':
        _check_partition(tbl, key, {'presorted': True}, presorted_src=True)
    else:
        _check_partition(tbl, key, {'buffersize': bs})


# ------------------------------------------------------------------------------------------------ conflicts

def _fresh(x):
    """a new, non-interned str object for every 'NA' cell / argument (equal to, never identical with, the others)"""
    return ''.join(('N', 'A')) if isinstance(x, str) and x == 'NA' else x


MISSING = {'none': lambda: None, 'float-zero': lambda: 0.0, 'NA-str': lambda: _fresh('NA'), 'int-one': lambda: 1,
           'absent': lambda: 'zz'}

CCELLS = (None, 0, 1, 'NA')


def _two_field(forms):
    for t in tables(CCELLS, widths=(2,), maxrows=3, headers=['k', 'a']):
        for key in ('k', 0, ('k',)):
            for m in forms:
                yield (t, key, m, None, None)


def _conflict_inputs(tier, seed):
    forms2 = ('none', 'float-zero', 'NA-str', 'int-one', 'absent')
    for c in _two_field(forms2):
        yield c
    if tier != 'thorough':
        # two conflicting groups of two need four rows: all 4-row tables over a reduced alphabet
        rowvals = [(k, a) for k in (None, 0) for a in (None, 0, 'NA')]
        for body in itertools.product(rowvals, repeat=4):
            for m in ('none', 'float-zero', 'NA-str'):
                yield ([('k', 'a')] + list(body), 'k', m, None, None)
    if tier == 'thorough':
        rowvals = list(itertools.product(CCELLS, repeat=2))
        for body in itertools.product(rowvals, repeat=4):
            for m in ('none', 'float-zero', 'NA-str'):
                yield ([('k', 'a')] + list(body), 'k', m, None, None)
    # three fields: key cells {None, 0}, value cells {None, 0, 'NA'}; key forms x include / exclude forms
    rowvals = [(k, a, b) for k in (None, 0) for a in (None, 0, 'NA') for b in (None, 0, 'NA')]
    sel = [(None, None), ('a', None), (('a', 'b'), None), (None, 'b'), (None, ['a']), (['b'], None), (None, ('k', 'a'))]
    keys = ('k', ('k', 'a'), ['b', 'k'])
    forms3 = ('none', 'float-zero', 'NA-str')

    def cases():
        for n in range(0, 4):
            for body in itertools.product(rowvals, repeat=n):
                for key in keys:
                    for m in forms3:
                        for inc, exc in sel:
                            yield ([('k', 'a', 'b')] + list(body), key, m, inc, exc)
    if tier == 'thorough':
        for c in cases():
            yield c
    else:
        rnd = random.Random(seed)
        for _ in range(6000):
            n = rnd.choice((2, 2, 3, 3, 3, 1, 0))
            yield ([('k', 'a', 'b')] + [rnd.choice(rowvals) for _ in range(n)], rnd.choice(keys), rnd.choice(forms3)) \
                + rnd.choice(sel)


@group('conflicts', _conflict_inputs)
def conflicts(inp):
    tbl, key, mform, include, exclude = inp
    hdr = tuple(tbl[0])
    rows = [tuple(_fresh(c) for c in r) for r in tbl[1:]]
    missing = MISSING[mform]()
    n = len(rows)
    kf = _keyof(_kidx(hdr, key))
    kw = {}
    if include is not None:
        kw['include'] = include
    if exclude is not None:
        kw['exclude'] = exclude
    h, got = _run('run', lambda: etl.conflicts([hdr] + rows, key, missing=missing, **kw), n)
    expect(h == hdr, 'header', hdr, h)

    # reference: which fields count, what is missing, which groups disagree
    def aslist(x):
        return list(x) if isinstance(x, (list, tuple)) else [x]
    if exclude is not None:
        fidx = [i for i, f in enumerate(hdr) if f not in aslist(exclude)]
    elif include is not None:
        fidx = [i for i, f in enumerate(hdr) if f in aslist(include)]
    else:
        fidx = list(range(len(hdr)))

    def miss(x):
        return x == missing

    def members(row):
        return [r for r in rows if ref_eq(kf(r), kf(row))]

    def disagree(grp):
        return any(not miss(r[i]) and not miss(s[i]) and r[i] != s[i] for i in fidx for r in grp for s in grp)

    def nomissing(grp):
        return not any(miss(r[i]) for i in fidx for r in grp)

    # only rows of the table, each at most as often as it occurs
    pool = _rep(rows)
    for r in _rep(got):
        expect(r in pool, 'row-not-in-table', rows, got)
        pool.remove(r)
    for r in got:
        grp = members(r)
        expect(len(grp) > 1, 'unique-key-row-returned', 'key occurs once: not a conflict', (r, got))
        expect(disagree(grp), 'agreeing-group-returned',
               'group %r agrees on every non-missing value (missing=%r)' % (grp, missing), (r, got))
    # the rows come out in key order
    srep = _rep(_ref_sort(rows, kf))
    pos = 0
    for r in _rep(got):
        expect(r in srep[pos:], 'order', srep, got)
        pos = srep.index(r, pos) + 1
    # what the documentation promises to report (kept to what does not depend on how groups are scanned)
    seen = []
    for r in rows:
        if any(ref_eq(kf(r), k) for k in seen):
            continue
        seen.append(kf(r))
        grp = members(r)
        ret = [g for g in got if ref_eq(kf(g), kf(r))]
        if len(grp) == 2 and disagree(grp):
            expect(_same_multiset(ret, grp), 'pair-missed', grp, got)
        if len(grp) > 2 and disagree(grp) and nomissing(grp):
            expect(len(ret) >= 2, 'group-missed', 'at least two rows of %r' % (grp,), got)
        # petl scans a group in (stable) sorted order and reports every ADJACENT pair that disagrees on a non-missing
        # value (docstring example; the code compares each row with its predecessor): both rows of such a pair must be
        # returned.  Reporting more rows of a disagreeing group stays allowed.
        sgrp = [x for x in _ref_sort(rows, kf) if ref_eq(kf(x), kf(r))]
        for a_, b_ in zip(sgrp, sgrp[1:]):
            if any(not miss(a_[i]) and not miss(b_[i]) and a_[i] != b_[i] for i in fidx):
                expect(any(_rep([g])[0] == _rep([a_])[0] for g in ret) and any(_rep([g])[0] == _rep([b_])[0] for g in ret),
                       'adjacent-pair-missed', (a_, b_), got)
