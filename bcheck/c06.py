"""C06 bounded stand-in: the seven sort-merge join operators on the real petl, against a nested-loop relational join
written from the property statement (rows squared up first; None equals None; header = (prefixed) left fields + (prefixed)
right non-key fields; outer rows padded with `missing`; output grouped in ascending key order under the C04 ordering)."""
import itertools, random
from collections import Counter
import petl as etl
from . import common
from .common import group, expect, Fail

_saved = dict(common.GROUPS)            # importing bcheck.c04 registers C04's groups: keep only our own
from .c04 import ref_lt, ref_eq
common.GROUPS.clear()
common.GROUPS.update(_saved)

RULE = ('one case = (operator, left table, right table, key/prefix/missing arguments); key cells from {None, 0, 1, "a", (0,)}; '
        'every sequence of <= N key values per side (duplicates, header-only sides) in the layouts: key first on both sides; '
        'natural key (one and two common fields); key-only tables; lkey != rkey at different column positions with lprefix/rprefix and missing="NA"; '
        'compound key in different column order; compound lkey/rkey; ragged rows (too short to hold the key, short in a '
        'value field, over-long) with missing None / "NA" and the key at position 1 left / 0 right and vice versa; '
        'presorted=True on reference-sorted input; crossjoin of 2-3 ragged tables with widths 0-2; every data row carries a '
        'distinct tag so wrong pairings change the multiset; distinct = distinct (operator, tables, arguments)')
BOUND = {'quick': 'N = 2 data rows per side, exhaustive within each layout (compound keys over {None,0}^2, ragged over {None,0,"a"}) '
                  '+ 1500 seeded pairs with 3 rows per side in two layouts',
         'thorough': 'N = 3 rows per side exhaustive for the rectangular layouts; ragged layouts: N = 2 exhaustive + 60000 '
                     'seeded 3-row pairs per layout; compound keys over {None,0,"a"}^2 with N = 2 and {None,0}^2 with N = 3'}

K5 = (None, 0, 1, 'a', (0,))
K3 = (None, 0, 'a')
JOIN_OPS = ('join', 'leftjoin', 'rightjoin', 'outerjoin', 'lookupjoin', 'antijoin')


# ------------------------------------------------------------------------------------------- reference (spec) side

def square(rows, n, missing):
    return [tuple(r[:n]) + (missing,) * (n - len(r)) for r in rows]


def _fields(key):
    return list(key) if isinstance(key, (list, tuple)) else [key]


def resolve_keys(lhdr, rhdr, kw):
    key, lkey, rkey = kw.get('key'), kw.get('lkey'), kw.get('rkey')
    if key is None and lkey is None and rkey is None:
        lkey = rkey = [f for f in lhdr if f in rhdr]          # natural join: the fields in common
    elif key is not None:
        lkey = rkey = key
    lkind = [list(lhdr).index(f) for f in _fields(lkey)]
    rkind = [list(rhdr).index(f) for f in _fields(rkey)]
    return lkind, rkind


def keq(a, b):
    return len(a) == len(b) and all(ref_eq(x, y) for x, y in zip(a, b))


def ref_join(op, left, right, kw):
    """-> header, rows (left-major nested-loop order), lkind, lkeys, rkeys"""
    missing = kw.get('missing')
    lhdr, rhdr = tuple(left[0]), tuple(right[0])
    lkind, rkind = resolve_keys(lhdr, rhdr, kw)
    rvind = [i for i in range(len(rhdr)) if i not in rkind]
    L = square(left[1:], len(lhdr), missing)
    R = square(right[1:], len(rhdr), missing)
    lk = [tuple(r[i] for i in lkind) for r in L]
    rk = [tuple(r[i] for i in rkind) for r in R]
    rv = [tuple(r[i] for i in rvind) for r in R]
    lp, rp = kw.get('lprefix'), kw.get('rprefix')
    hdr = tuple(f if lp is None else str(lp) + str(f) for f in lhdr) + \
        tuple(f if rp is None else str(rp) + str(f) for f in (rhdr[i] for i in rvind))
    pad = (missing,) * len(rvind)
    rows = []
    if op == 'antijoin':
        hdr = lhdr
        for a, l in enumerate(left[1:]):
            if not any(keq(lk[a], k) for k in rk):
                rows.append(tuple(l))
        return hdr, rows, lkind, lk, rk
    leftouter = op in ('leftjoin', 'outerjoin', 'lookupjoin')
    rightouter = op in ('rightjoin', 'outerjoin')
    for a, l in enumerate(L):
        partners = [b for b in range(len(R)) if keq(lk[a], rk[b])]
        if op == 'lookupjoin':
            partners = partners[:1]
        for b in partners:
            rows.append(l + rv[b])
        if not partners and leftouter:
            rows.append(l + pad)
    if rightouter:
        for b, r in enumerate(R):
            if not any(keq(k, rk[b]) for k in lk):
                out = [missing] * len(lhdr)
                for li, ri in zip(lkind, rkind):
                    out[li] = r[ri]
                rows.append(tuple(out) + rv[b])
    return hdr, rows, lkind, lk, rk


def ascending(keys):
    return all(not ref_lt(keys[i + 1], keys[i]) for i in range(len(keys) - 1))


def _tclass(x):
    return 'num' if isinstance(x, (bool, int, float)) else type(x).__name__


def shape_tag(left, right, lk, rk):
    """names the input class of a failing case (known defects are matched by failure key)"""
    cells = [c for k in lk + rk for c in k]
    if len(right) == 1 and any(None in k for k in lk):
        return '/header-only-right+none-left-key'
    if len(right) == 1 or len(left) == 1:
        return '/header-only-side'
    if any(c is None for c in cells):
        return '/none-key'
    if len(set(_tclass(c) for c in cells)) > 1:
        return '/mixed-type-keys'
    return ''


def check_join(inp):
    op, left, right, kw = inp
    left, right = [tuple(r) for r in left], [tuple(r) for r in right]
    hdr, exp, lkind, lk, rk = ref_join(op, left, right, kw)
    tag = shape_tag(left, right, lk, rk)
    try:
        out = [tuple(r) for r in getattr(etl, op)(list(left), list(right), **kw)]
    except Exception as e:
        raise Fail('raised-%s%s' % (type(e).__name__, tag), [hdr] + exp, repr(e))
    expect(len(out) >= 1 and out[0] == hdr, 'header' + tag, hdr, out[:1])
    got = out[1:]
    if op == 'antijoin':        # antijoin hands back left rows; compare modulo squaring up
        n = len(hdr)
        expect(Counter(square(got, n, None)) == Counter(square(exp, n, None)), 'rows' + tag, exp, got)
        keys = [tuple(r[i] for i in lkind) for r in square(got, n, None)]
    else:
        expect(all(len(r) == len(hdr) for r in got), 'row-length' + tag, len(hdr), got)
        expect(Counter(got) == Counter(exp), 'rows' + tag, exp, got)
        keys = [tuple(r[i] for i in lkind) for r in got]
    expect(ascending(keys), 'key-order' + tag, 'ascending keys', got)


# ------------------------------------------------------------------------------------------- enumeration

def seqs(alpha, n):
    for m in range(n + 1):
        for s in itertools.product(alpha, repeat=m):
            yield s


def _kw_for(op, kw):
    kw = dict(kw)
    if op in ('join', 'antijoin'):
        kw.pop('missing', None)
    if op == 'antijoin':
        kw.pop('lprefix', None)
        kw.pop('rprefix', None)
    return kw


def lay_A(ls, rs):
    return ([('k', 'x')] + [(k, 'L%d' % i) for i, k in enumerate(ls)],
            [('k', 'y')] + [(k, 'R%d' % i) for i, k in enumerate(rs)])


def lay_B(ls, rs):
    return ([('x', 'lk')] + [('L%d' % i, k) for i, k in enumerate(ls)],
            [('rk', 'y', 'z')] + [(k, 'R%d' % i, i) for i, k in enumerate(rs)])


def lay_E(ls, rs):
    return [('k',)] + [(k,) for k in ls], [('k',)] + [(k,) for k in rs]


def lay_C(ls, rs):
    return ([('a', 'b', 'x')] + [(k[0], k[1], 'L%d' % i) for i, k in enumerate(ls)],
            [('y', 'b', 'a')] + [('R%d' % i, k[1], k[0]) for i, k in enumerate(rs)])


def lay_C2(ls, rs):
    return ([('a', 'b', 'x')] + [(k[0], k[1], 'L%d' % i) for i, k in enumerate(ls)],
            [('d', 'y', 'c')] + [(k[1], 'R%d' % i, k[0]) for i, k in enumerate(rs)])


KW_B = {'lkey': 'lk', 'rkey': 'rk', 'lprefix': 'l_', 'rprefix': 'r_', 'missing': 'NA'}


def rect_cases(tier, seed=0):
    n = 3 if tier == 'thorough' else 2
    s5 = list(seqs(K5, n))
    s3 = list(seqs(K3, n))
    for ls, rs in itertools.product(s5, s5):
        for lay, kw in ((lay_A, {'key': 'k'}), (lay_B, KW_B), (lay_E, {'key': 'k'})):
            l, r = lay(ls, rs)
            yield l, r, kw
    for ls, rs in itertools.product(s3, s3):
        l, r = lay_A(ls, rs)
        yield l, r, {}                                       # natural key
        yield l, r, {'key': 'k', 'missing': 'NA', 'rprefix': 'r_'}
        # non-string field names with a prefix on ONE side only: the other side's names must stay the objects they are
        li = [tuple(f if f == 'k' else 100 + j for j, f in enumerate(l[0]))] + list(l[1:])
        ri = [tuple(f if f == 'k' else 200 + j for j, f in enumerate(r[0]))] + list(r[1:])
        yield li, ri, {'key': 'k', 'rprefix': 'r_'}
        yield li, ri, {'key': 'k', 'lprefix': 'l_'}
    if tier == 'thorough':
        cks = [list(seqs(list(itertools.product(K3, repeat=2)), 2)), list(seqs(list(itertools.product((None, 0), repeat=2)), 3))]
    else:
        cks = [list(seqs(list(itertools.product((None, 0), repeat=2)), 2))]
    for ck in cks:
        for ls, rs in itertools.product(ck, ck):
            l, r = lay_C(ls, rs)
            yield l, r, {'key': ('a', 'b')}
            yield l, r, {'missing': 'NA'}                    # natural key = both common fields, in left order
            l, r = lay_C2(ls, rs)
            yield l, r, {'lkey': ('a', 'b'), 'rkey': ('c', 'd'), 'missing': 'NA'}
    if tier != 'thorough':                                   # a seeded sample of the 3-row pairs
        rnd = random.Random(seed + 17)
        for _ in range(1500):
            ls = tuple(rnd.choice(K5) for _ in range(rnd.choice((2, 3, 3))))
            rs = tuple(rnd.choice(K5) for _ in range(rnd.choice((2, 3, 3))))
            for lay, kw in ((lay_A, {'key': 'k'}), (lay_B, KW_B)):
                l, r = lay(ls, rs)
                yield l, r, kw


def _ragged_forms(keypos, tagch):
    """row forms for a 2-field header with the key at keypos: too short for the key / short in the value / full / over-long"""
    forms = [('empty',)]
    if keypos == 1:
        forms.append(('tagonly',))
    else:
        forms += [('keyonly', k) for k in K3]
    forms += [('full', k) for k in K3]
    forms.append(('long', 0))
    return forms


def _ragged_row(form, keypos, tag):
    if form[0] == 'empty':
        return ()
    if form[0] == 'tagonly':
        return (tag,)
    if form[0] == 'keyonly':
        return (form[1],)
    row = (form[1], tag) if keypos == 0 else (tag, form[1])
    return row + ('E',) if form[0] == 'long' else row


def ragged_tables(lpos, rpos, lf, rf):
    lhdr = ('k', 'x') if lpos == 0 else ('x', 'k')
    rhdr = ('k', 'y') if rpos == 0 else ('y', 'k')
    return ([lhdr] + [_ragged_row(f, lpos, 'L%d' % i) for i, f in enumerate(lf)],
            [rhdr] + [_ragged_row(f, rpos, 'R%d' % i) for i, f in enumerate(rf)])


def ragged_cases(tier, seed):
    for lpos, rpos in ((1, 0), (0, 1)):
        lforms, rforms = _ragged_forms(lpos, 'L'), _ragged_forms(rpos, 'R')
        for lf, rf in itertools.product(list(seqs(lforms, 2)), list(seqs(rforms, 2))):
            yield ragged_tables(lpos, rpos, lf, rf)
        if tier == 'thorough':
            rnd = random.Random(seed * 7919 + lpos)
            for _ in range(60000):
                lf = tuple(rnd.choice(lforms) for _ in range(rnd.choice((1, 2, 3, 3))))
                rf = tuple(rnd.choice(rforms) for _ in range(rnd.choice((1, 2, 3, 3))))
                if len(lf) == 3 or len(rf) == 3:
                    yield ragged_tables(lpos, rpos, lf, rf)


def _inputs_for(op):
    def inputs(tier, seed):
        for l, r, kw in rect_cases(tier, seed):
            yield (op, l, r, _kw_for(op, kw))
        for l, r, kw in presorted_cases(tier):
            yield (op, l, r, _kw_for(op, kw))
        for l, r in ragged_cases(tier, seed):
            if op in ('join', 'antijoin'):
                yield (op, l, r, {'key': 'k'})
            else:
                yield (op, l, r, {'key': 'k'})
                yield (op, l, r, {'key': 'k', 'missing': 'NA'})
    return inputs




# ------------------------------------------------------------------------------------------- presorted

def _ref_sort(table, kind):
    import functools
    rows = list(enumerate(table[1:]))

    def cmp(x, y):
        kx, ky = tuple(x[1][i] for i in kind), tuple(y[1][i] for i in kind)
        return -1 if ref_lt(kx, ky) else (1 if ref_lt(ky, kx) else x[0] - y[0])
    return [table[0]] + [r for _, r in sorted(rows, key=functools.cmp_to_key(cmp))]


def presorted_cases(tier):
    """presorted=True: the precondition (both sides sorted by key) is established with the reference ordering"""
    n = 3 if tier == 'thorough' else 2
    s = list(seqs(K5 if tier == 'thorough' else K3 + (1,), n))
    for ls, rs in itertools.product(s, s):
        l, r = lay_B(ls, rs)
        yield _ref_sort(l, [1]), _ref_sort(r, [0]), dict(KW_B, presorted=True)


for _op in JOIN_OPS:
    group(_op, _inputs_for(_op))(check_join)


# ------------------------------------------------------------------------------------------- crossjoin

def _cross_tables():
    out = []
    for w in (0, 1, 2):
        hdr = ('f', 'g')[:w]
        lens = [l for l in (w - 1, w, w + 1) if l >= 0]
        for m in range(3):
            for ls in itertools.product(lens, repeat=m):
                out.append((hdr, ls))
    return out


def _mk_cross(spec, t):
    hdr, ls = spec
    return [tuple(hdr)] + [tuple('t%dr%dc%d' % (t, i, j) for j in range(l)) for i, l in enumerate(ls)]


def _cross_inputs(tier, seed):
    specs = _cross_tables()
    for a, b in itertools.product(specs, specs):
        for kw in ({}, {'missing': 'NA'}, {'prefix': True}):
            yield ([_mk_cross(a, 1), _mk_cross(b, 2)], kw)
    rnd = random.Random(seed)
    for _ in range(20000 if tier == 'thorough' else 1500):
        ts = [_mk_cross(rnd.choice(specs), t + 1) for t in range(3)]
        yield (ts, rnd.choice(({}, {'missing': 'NA'}, {'prefix': True, 'missing': 0})))
    yield ([_mk_cross((('f',), (1, 0)), 1)], {})


@group('crossjoin', _cross_inputs)
def crossjoin(inp):
    tabs, kw = inp
    tabs = [[tuple(r) for r in t] for t in tabs]
    missing = kw.get('missing')
    sq = [square(t[1:], len(t[0]), missing) for t in tabs]
    exp = [sum(p, ()) for p in itertools.product(*sq)]
    try:
        out = [tuple(r) for r in etl.crossjoin(*[list(t) for t in tabs], **kw)]
    except Exception as e:
        raise Fail('raised-' + type(e).__name__, exp, repr(e))
    expect(len(out) >= 1, 'header', 'a header', out)
    flat = [(i, f) for i, t in enumerate(tabs) for f in t[0]]
    if not kw.get('prefix'):
        expect(out[0] == tuple(f for _, f in flat), 'header', tuple(f for _, f in flat), out[0])
    else:       # "prefixed by the index of the input table": same prefix within a table, distinct across tables
        expect(len(out[0]) == len(flat) and all(str(o).endswith(str(f)) for o, (_, f) in zip(out[0], flat)),
               'header-prefixed', flat, out[0])
        pre = {}
        for o, (i, f) in zip(out[0], flat):
            pre.setdefault(i, set()).add(str(o)[:len(str(o)) - len(str(f))])
        expect(all(len(v) == 1 for v in pre.values()) and len(set(next(iter(v)) for v in pre.values())) == len(pre),
               'header-prefixed', flat, out[0])
    expect(Counter(out[1:]) == Counter(exp), 'rows', exp, out[1:])
