"""C18 bounded stand-in: temporary files (sort chunk files, also behind every operator that sorts; the fromdicts spill file)
are gone once the view and all its iterators are released, whatever the history; iterators that outlive the view and
passes served from the file cache stay complete and correct."""
import gc, itertools, os, random, shutil, tempfile
import petl as etl
import petl.config
from .common import group, expect, Fail
from .sortref import ref_sort

RULE = ('one case = one release history run on the real objects inside a private directory (passed as tempdir= ; the '
        'process default temp dir is redirected to a second private directory for the duration of the case): prior complete '
        'passes, 1-3 iterators each advanced to its abandonment point (0 = never started .. n+2 = exhausted; scheduled one after the '
        'other, round-robin, with the first two rows ahead, or with a complete pass between creating the first and the other iterators), then view and iterators '
        'released in a given order (surviving iterators optionally run to the end after the view is gone); every row '
        'obtained is compared with the reference sort; at the end both directories must be empty (gc.collect() is given a '
        'chance first).  non-trivial = a history in which chunk / spill files were actually created')
BOUND = {'quick': 'sort: n <= 3 rows, buffersize 1..n, cache on/off, prior passes 0-1, 1-2 iterators x every abandonment point '
                  'x 5 schedules x all release orders x drain (2-iterator histories of n = 3 sampled 1 in 4); source failure at '
                  'every item x {always, first pass only} x 1-3 attempts; 29 operator forms x buffersize {1, 4} / config default 1 '
                  'x abandonment point; fromdicts(generator): n <= 3 dicts, 1-2 iterators, all release orders, failure at '
                  'every dict',
         'thorough': 'sort: n <= 4 with 1-2 iterators exhaustively (n = 5: every second 2-iterator history), n <= 3 with 3 '
                     'iterators (1 in 4 / 4 / 10 / 25 for n = 0..3), prior passes 0-2, reverse for n <= 3; fromdicts: n <= 4 (n = 4 with 2 iterators and '
                     'all 3-iterator histories: 1 in 3), 3 iterators for n <= 2'}


class Boom(Exception):
    pass


class FailingSource(etl.Table):
    """yields items of `table`; raises Boom instead of item number `at` (0 = header) on the iterations listed in `on`
    (None = every iteration)"""

    def __init__(self, table, at, on=None):
        self.table, self.at, self.on, self.iterations = table, at, on, 0

    def __iter__(self):
        self.iterations += 1
        failing = self.on is None or self.iterations in self.on
        for j, r in enumerate(self.table):
            if failing and j == self.at:
                raise Boom(j)
            yield r
        if failing and self.at == len(self.table):
            raise Boom('end')


class Sandbox(object):
    """one private directory per case: passed as tempdir= (.explicit) and, while inside, also the process default temp
    dir (tempfile.tempdir), so that a file created by a sort that was not given the tempdir argument is seen as well"""

    def __enter__(self):
        self.root = self.explicit = tempfile.mkdtemp(prefix='bcheck_c18_')
        self.saved = tempfile.tempdir
        self.saved_cfg = petl.config.sort_buffersize
        tempfile.tempdir = self.root
        return self

    def files(self):
        return sorted(os.listdir(self.root))

    FULL_GC_WITHOUT_EFFECT = [0]

    def leftovers(self):
        """files still present although nothing references view or iterators any more; a young-generation collection and
        then a full one get their chance first (a full collection costs milliseconds: after 200 of them that freed
        nothing -- the run is failing massively anyway -- only the cheap one is still made)"""
        left = self.files()
        if left:
            gc.collect(1)
            left = self.files()
        if left and self.FULL_GC_WITHOUT_EFFECT[0] < 200:
            gc.collect()
            left = self.files()
            if left:
                self.FULL_GC_WITHOUT_EFFECT[0] += 1
        return left

    def __exit__(self, *exc):
        tempfile.tempdir = self.saved
        petl.config.sort_buffersize = self.saved_cfg
        try:
            os.rmdir(self.root)
        except OSError:
            gc.collect(1)
            shutil.rmtree(self.root, ignore_errors=True)
        return False


class Cursor(object):
    """an iterator under observation: every item it yields is compared with the expected sequence"""

    def __init__(self, it, exp, name):
        self.it, self.exp, self.name, self.pos, self.done, self.steps = it, exp, name, 0, False, 0

    def step(self, sub=''):
        self.steps += 1
        try:
            r = next(self.it)
        except StopIteration:
            expect(self.pos == len(self.exp), 'iterator-incomplete' + sub, self.exp, self.exp[:self.pos],
                   '%s stopped after %d items' % (self.name, self.pos))
            self.done = True
            return
        expect(self.pos < len(self.exp) and tuple(r) == self.exp[self.pos], 'iterator-wrong-row' + sub,
               self.exp[self.pos:self.pos + 1], r, '%s item %d' % (self.name, self.pos))
        self.pos += 1

    def advance(self, k, sub=''):
        for _ in range(k):
            if not self.done:
                self.step(sub)

    def drain(self, sub=''):
        while not self.done:
            self.step(sub)

    def release(self):
        self.it = None


def drive(view_box, exp, prior, pts, mode, order, drain, sb, label):
    """view_box: one-element list holding the view (so that it can be released here)"""
    try:
        _drive(view_box, exp, prior, pts, mode, order, drain, sb, label)
    except Fail as f:
        if mode.startswith('midpass') and label == 'cache' and f.subkey.startswith('iterator-wrong-row'):
            # same root as the TypeError below: clearcache() also resets the key function that an iterator already
            # being served from the file cache is about to merge with (rows then come in raw row order)
            raise Fail('cache-cleared-under-running-iterator/wrong-order', f.expected, f.observed, f.msg)
        raise
    except TypeError as ex:
        if not mode.startswith('midpass'):
            raise
        raise Fail('cache-cleared-under-waiting-iterator/TypeError', exp, repr(ex),
                   'an iterator was created while the cache was valid; an iterator created before the cache existed was '
                   'started in between and cleared it')


def _drive(view_box, exp, prior, pts, mode, order, drain, sb, label):
    cursors = []
    try:
        for _ in range(prior):
            got = [tuple(r) for r in view_box[0]]
            expect(got == exp, 'pass-wrong/' + label, exp, got, 'prior complete pass')
        if mode == 'seq':
            for j, p in enumerate(pts):
                c = Cursor(iter(view_box[0]), exp, 'it%d' % j)
                cursors.append(c)
                c.advance(p)
        elif mode == 'rr':
            for j, p in enumerate(pts):
                cursors.append(Cursor(iter(view_box[0]), exp, 'it%d' % j))
            for k in range(max(pts) if pts else 0):
                for c, p in zip(cursors, pts):
                    if k < p:
                        c.advance(1)
        elif mode == 'lead':
            # the others take the header, it0 runs two rows ahead, then single steps in turn: the others first, then it0
            for j, p in enumerate(pts):
                cursors.append(Cursor(iter(view_box[0]), exp, 'it%d' % j))
            for c, p in list(zip(cursors, pts))[1:]:
                c.advance(min(1, p))
            cursors[0].advance(min(3, pts[0]))
            turn = list(zip(cursors, pts))[1:] + [(cursors[0], pts[0])]
            for k in range(max(pts)):
                for c, p in turn:
                    if c.steps < p:
                        c.advance(1)
        elif mode in ('midpass', 'midpass-rr'):
            # it0 is created, a complete pass is made, the other iterators are created; then all advance: one after the
            # other starting with it0 (midpass), or step by step in turn with it0 last (midpass-rr)
            cursors.append(Cursor(iter(view_box[0]), exp, 'it0'))
            got = [tuple(r) for r in view_box[0]]
            expect(got == exp, 'pass-wrong/' + label, exp, got, 'pass between iterator creations')
            for j in range(1, len(pts)):
                cursors.append(Cursor(iter(view_box[0]), exp, 'it%d' % j))
            if mode == 'midpass':
                for c, p in zip(cursors, pts):
                    c.advance(p)
            else:
                turn = list(zip(cursors, pts))[1:] + [(cursors[0], pts[0])]
                for k in range(max(pts)):
                    for c, p in turn:
                        if c.steps < p:
                            c.advance(1)
        else:
            raise ValueError(mode)
        view_gone = False
        for who in order:
            if who == 'v':
                view_box[0] = None
                view_gone = True
                if drain:
                    for c in cursors:
                        if c.it is not None:
                            c.drain('/after-view-released')
            else:
                c = cursors[int(who[1:])]
                if view_gone and drain:
                    c.drain('/after-view-released')
                c.release()
        left = sb.leftovers()
        expect(not left, 'files-left/' + label, [], left, 'after releasing %r' % (order,))
    finally:
        for c in cursors:
            c.release()
        del cursors[:]
        view_box[0] = None


KEYS = [1, 0, 1, 0, 1]


def sort_table(n):
    return [('i', 'k')] + [(i, KEYS[i]) for i in range(n)]


def orders(k):
    return list(itertools.permutations(['v'] + ['i%d' % j for j in range(k)]))


def _sort_inputs(tier, seed):
    rnd = random.Random(seed)
    th = tier == 'thorough'
    for n in range(0, 6 if th else 4):
        for b in range(1, max(n, 1) + 1):
            for cache in (True, False):
                for reverse in ((False, True) if th and n <= 3 else (False,)):
                    for prior in ((0, 1, 2) if th and n <= 4 else (0, 1)):
                        for k in (1, 2, 3):
                            if k == 3 and not (th and n <= 3):
                                continue
                            modes = ['seq'] if k == 1 else ['seq', 'rr', 'lead', 'midpass', 'midpass-rr']
                            for pts in itertools.product(range(n + 3), repeat=k):
                                for mode in modes:
                                    if mode.startswith('midpass') and prior:
                                        continue
                                    for order in orders(k):
                                        for drain in (False, True):
                                            if not th and n == 3 and k == 2 and rnd.random() > 1 / 4.:
                                                continue
                                            if th and k == 3 and rnd.random() > (0.25, 0.25, 0.1, 0.04)[n]:
                                                continue
                                            if th and n == 5 and k == 2 and rnd.random() > 1 / 2.:
                                                continue
                                            yield (n, b, cache, reverse, prior, pts, mode, order, drain)


@group('sort.histories', _sort_inputs)
def sort_histories(inp):
    n, b, cache, reverse, prior, pts, mode, order, drain = inp
    table = sort_table(n)
    exp = [table[0]] + ref_sort(table[1:], [1], reverse)
    with Sandbox() as sb:
        box = [etl.sort(table, 'k', reverse=reverse, buffersize=b, tempdir=sb.explicit, cache=cache)]
        drive(box, exp, prior, pts, mode, order, drain, sb, 'cache' if cache else 'nocache')


# ------------------------------------------------------------------------------------------ the source fails midway

def _failure_inputs(tier, seed):
    for n in range(0, 6 if tier == 'thorough' else 4):
        for b in range(1, max(n, 1) + 1):
            for cache in (True, False):
                for at in range(0, n + 2):
                    for on in (None, (1,), (2,)):
                        for attempts in (1, 2, 3):
                            for tail in (0, 1, 2):         # an extra iterator abandoned after `tail` items at the end
                                yield (n, b, cache, at, on, attempts, tail)


@group('sort.source-failure', _failure_inputs)
def sort_source_failure(inp):
    n, b, cache, at, on, attempts, tail = inp
    table = sort_table(n)
    exp = [table[0]] + ref_sort(table[1:], [1], False)
    with Sandbox() as sb:
        src = FailingSource(table, at, on)
        view = etl.sort(src, 'k', buffersize=b, tempdir=sb.explicit, cache=cache)
        it = None
        try:
            for a in range(1, attempts + 1):
                before = src.iterations
                try:
                    got = [tuple(r) for r in view]
                except Boom:
                    got = 'Boom'
                reads = src.iterations > before
                will_fail = reads and (on is None or src.iterations in on)
                if will_fail:
                    expect(got == 'Boom', 'source-failure-swallowed', 'Boom', got, 'attempt %d' % a)
                else:
                    expect(got == exp, 'pass-wrong-after-failure', exp, got, 'attempt %d' % a)
            it = iter(view)
            try:
                for _ in range(tail):
                    next(it)
            except (Boom, StopIteration):
                pass
            view = None
            it = None
            left = sb.leftovers()
            expect(not left, 'files-left/after-source-failure', [], left)
        finally:
            view = it = None


# ------------------------------------------------------------------------------------------ every operator that sorts

def _lagg(vals):
    return [v for v in vals]


def _reducer(key, rows):
    return [key, [tuple(r) for r in rows]]


def _mapper(key, rows):
    for r in rows:
        yield (key,) + tuple(r)


A = [('t', 'k', 'v'), (0, 1, 'x'), (1, 0, 'y'), (2, 1, 'z'), (3, 0, 'x')]
B = [('u', 'k', 'w'), (10, 0, 'p'), (11, 1, 'q'), (12, 0, 'r')]
UA = [('k', 'v'), (1, 'x'), (0, 'y'), (1, 'x'), (0, 'z')]
UB = [('k', 'v'), (0, 'y'), (2, 'x'), (1, 'x')]
MOLTEN = [('id', 'variable', 'value'), (1, 'a', 1), (0, 'a', 2), (0, 'b', 1), (1, 'b', 3)]

OPFORMS = {
    'join': lambda s: etl.join(A, B, key='k', **s),
    'leftjoin': lambda s: etl.leftjoin(A, B, key='k', **s),
    'rightjoin': lambda s: etl.rightjoin(A, B, key='k', **s),
    'outerjoin': lambda s: etl.outerjoin(A, B, key='k', **s),
    'antijoin': lambda s: etl.antijoin(A, B[:2], key='k', **s),
    'lookupjoin': lambda s: etl.lookupjoin(A, B, key='k', **s),
    'unjoin': lambda s: etl.unjoin(A, 'v', **s),
    'unjoin.key': lambda s: etl.unjoin(A, 'v', key='k', **s),
    'complement': lambda s: etl.complement(UA, UB, **s),
    'intersection': lambda s: etl.intersection(UA, UB, **s),
    'diff': lambda s: etl.diff(UA, UB, **s),
    'recordcomplement': lambda s: etl.recordcomplement(UA, UB, **s),
    'duplicates': lambda s: etl.duplicates(A, 'k', **s),
    'unique': lambda s: etl.unique(A, 'k', **s),
    'distinct': lambda s: etl.distinct(A, 'k', **s),
    'conflicts': lambda s: etl.conflicts(A, 'k', **s),
    'aggregate': lambda s: etl.aggregate(A, 'k', _lagg, 't', **s),
    'aggregate.multi': lambda s: etl.aggregate(A, 'k', {'n': len, 'ts': ('t', _lagg)}, **s),
    'rowreduce': lambda s: etl.rowreduce(A, 'k', _reducer, header=('k', 'rows'), **s),
    'fold': lambda s: etl.fold(A, 'k', lambda a, b_: (a, b_), value='t', **s),
    'groupselectfirst': lambda s: etl.groupselectfirst(A, 'k', **s),
    'groupselectmin': lambda s: etl.groupselectmin(A, 'k', 'v', **s),
    'groupselectmax': lambda s: etl.groupselectmax(A, 'k', 'v', **s),
    'mergeduplicates': lambda s: etl.mergeduplicates(A, 'k', **s),
    'merge': lambda s: etl.merge(A, B, key='k', **s),
    'mergesort': lambda s: etl.mergesort(A, A[:3], B[:1], key='k', **s),
    'pivot': lambda s: etl.pivot(A, 'k', 'v', 't', _lagg, **s),
    'rowgroupmap': lambda s: etl.rowgroupmap(A, 'k', _mapper, header=('key', 't', 'k', 'v'), **s),
    'recast': lambda s: etl.recast(MOLTEN, key='id'),
}


def _op_inputs(tier, seed):
    for name in OPFORMS:
        th = tier == 'thorough'
        for how in (('buffersize', 1), ('buffersize', 2), ('buffersize', 4), ('config', 1), ('config', 2)):
            if name == 'recast' and how[0] != 'config':
                continue
            if not th and how in (('buffersize', 2), ('config', 2)):
                continue
            for cache in (True, False):
                for prior in (0, 1):
                    for p in ((0, 1, 2, 3, 4, 99) if th else (0, 1, 3, 99)):
                        for view_first in (False, True):
                            yield (name, how, cache, prior, p, view_first)


@group('operators', _op_inputs)
def operators(inp):
    name, how, cache, prior, p, view_first = inp
    with Sandbox() as sb:
        # the default call (in memory; the config default is read when the view is constructed) gives the expected rows
        ref = OPFORMS[name]({})
        exp = [[tuple(r) for r in t] for t in (ref if isinstance(ref, tuple) else (ref,))]
        ref = None
        s = {'cache': cache, 'tempdir': sb.explicit}
        if how[0] == 'buffersize':
            s['buffersize'] = how[1]
        else:
            petl.config.sort_buffersize = how[1]       # restored by the sandbox
        res = OPFORMS[name](s)
        views = list(res) if isinstance(res, tuple) else [res]
        res = None
        its = []
        try:
            for _ in range(prior):
                for j in range(len(views)):
                    got = [tuple(r) for r in views[j]]
                    expect(got == exp[j], 'pass-wrong/' + name, exp[j], got)
            cursors = [Cursor(iter(views[j]), exp[j], '%s[%d]' % (name, j)) for j in range(len(views))]
            its = cursors
            for c in cursors:
                c.advance(p, '/' + name)
            if view_first:
                del views[:]
                for c in cursors:
                    c.drain('/after-view-released/' + name)
            for c in cursors:
                c.release()
            del views[:]
            left = sb.leftovers()
            expect(not left, 'files-left/' + name, [], left, 'strategy %r' % (how,))
        finally:
            for c in its:
                c.release()
            del views[:]


# ------------------------------------------------------------------------------------------ fromdicts on a generator

def dict_rows(n):
    return [{'a': i, 'b': 'r%d' % i} for i in range(n)]


def dict_gen(n, fail_at):
    for i, d in enumerate(dict_rows(n)):
        if fail_at is not None and i == fail_at:
            raise Boom(i)
        yield d
    if fail_at is not None and fail_at == n:
        raise Boom('end')


def _dict_inputs(tier, seed):
    rnd = random.Random(seed)
    th = tier == 'thorough'
    for n in range(0, 5 if th else 4):
        for header in (('a', 'b'), None):
            if header is None and n == 0:
                continue                        # no dict to discover the fields from
            for prior in ((0, 1, 2) if th else (0, 1)):
                for k in (1, 2, 3):
                    if k == 3 and not (th and n <= 2):
                        continue
                    for pts in itertools.product(range(n + 3), repeat=k):
                        for mode in (['seq'] if k == 1 else ['seq', 'rr', 'lead']):
                            for order in orders(k):
                                for drain in (False, True):
                                    if not th and n == 3 and k == 2 and rnd.random() > 1 / 4.:
                                        continue
                                    if th and ((n == 4 and k == 2) or k == 3) and rnd.random() > 1 / 3.:
                                        continue
                                    yield (n, header, prior, pts, mode, order, drain)


@group('fromdicts.histories', _dict_inputs)
def fromdicts_histories(inp):
    n, header, prior, pts, mode, order, drain = inp
    exp = [('a', 'b')] + [(d['a'], d['b']) for d in dict_rows(n)]
    with Sandbox() as sb:
        box = [etl.fromdicts(dict_gen(n, None), header=header)]
        drive(box, exp, prior, pts, mode, order, drain, sb, 'fromdicts')


def _dict_failure_inputs(tier, seed):
    for n in range(0, 5 if tier == 'thorough' else 4):
        for header in (('a', 'b'), None):
            for at in range(0, n + 1):
                for attempts in (1, 2, 3):
                    for tail in (0, 1, 2):
                        yield (n, header, at, attempts, tail)


@group('fromdicts.source-failure', _dict_failure_inputs)
def fromdicts_source_failure(inp):
    n, header, at, attempts, tail = inp
    with Sandbox() as sb:
        view = it = None
        try:
            try:
                view = etl.fromdicts(dict_gen(n, at), header=header)
                boomed = False
                for a in range(attempts):
                    try:
                        for _ in view:
                            pass
                    except Boom:
                        boomed = True
                expect(boomed, 'source-failure-swallowed/fromdicts', 'Boom', 'no exception')
                it = iter(view)
                try:
                    for _ in range(tail):
                        next(it)
                except StopIteration:
                    pass
            except Boom:
                pass                              # header discovery may already hit the failure
            view = it = None
            left = sb.leftovers()
            expect(not left, 'files-left/fromdicts-after-source-failure', [], left)
        finally:
            view = it = None
