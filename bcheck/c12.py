"""C12 bounded stand-in: row- and field-level transforms touch only what they are asked to.

Every function of the property statement is run on the real petl for all small tables (1-3 fields, also the zero-field
header; ragged rows of length m-1, m, m+1; every pattern of duplicate field names; cells that are unique per position so
that any misplaced / copied / lost cell is visible, and a tiny alphabet with None / 0 / 'a' for the value-dependent
functions) x every argument form, and compared with a direct cell-by-cell reference written from the docstrings:
one output row per input row in input order (unless documented to expand), only the requested cells change, the others
are carried over in the documented field order, short rows padded with `missing` / long rows trimmed where that is
documented (cut, cutout, cat, stack, annex, addfield(s), values, dicts, records, namedtuples, columns).  Where padding
is not documented (movefield, convert..., fills, fieldmap, header functions, addcolumn, addfieldusingcontext) a ragged
row must still come out as exactly one row (`ANY`), rows of header length are checked cell by cell."""
import itertools, random, re, traceback
from collections import OrderedDict
import petl as etl
from .common import group, expect, Fail, tables as alpha_tables_

RULE = ('one case = (table, argument form) of one function; the output (header + every row, in order) is compared with '
        'a cell-by-cell reference. Tables: "positional" tables (0-3 fields, every duplicate-name pattern of the header, '
        'every combination of row lengths in {m-1, m, m+1}, cell (i, j) = the unique string "r<i>c<j>") and "alphabet" '
        'tables (1-3 fields, ragged, cells over (None, "a") / (None, 0, "a")); field selections: every ordered subset '
        'of columns addressed by index, by name, mixed (index first / name first), a repeated index; insertion indices '
        'None and [-m-1, m+1]; distinct = distinct (group, input) pairs')
BOUND = {'quick': 'positional tables <= 2 rows, alphabet tables <= 2 rows (width 3: <= 1 row + 150 sampled 2-row '
                  'tables); fill tables <= 3 rows over (None, a, b); table pairs (cat / stack / annex): both <= 2 rows',
         'thorough': 'positional tables <= 3 rows, alphabet tables <= 2 rows over (None, 0, a) (width 3 over (None, a)); '
                     'fill tables <= 3 rows (width 3: <= 2 rows)'}

ANY = ('<any row>',)     # a ragged row of a function that does not document padding: must be present, cells not checked
NAMES = ('a', 'b', 'c')


# ------------------------------------------------------------------------------------------------ scope

def headers(m):
    """every duplicate-name pattern: restricted growth strings over a, b, c (m=3: aaa aab aba abb abc)"""
    out = []

    def rec(pref, mx):
        if len(pref) == m:
            out.append(tuple(NAMES[k] for k in pref))
            return
        for k in range(mx + 2):
            rec(pref + [k], max(mx, k))
    rec([], -1)
    return out


def utable(hdr, lens, prefix='r'):
    return [tuple(hdr)] + [tuple('%s%dc%d' % (prefix, i, j) for j in range(l)) for i, l in enumerate(lens)]


def positional_tables(maxrows, widths=(0, 1, 2, 3), dups=True):
    for m in widths:
        lens = [l for l in (m - 1, m, m + 1) if l >= 0]
        for hdr in headers(m):
            if not dups and len(set(hdr)) < m:
                continue
            for n in range(maxrows + 1):
                for ls in itertools.product(lens, repeat=n):
                    yield utable(hdr, ls)


def alphabet_tables(tier, seed):
    out = []
    if tier == 'thorough':
        out += list(alpha_tables_((None, 0, 'a'), widths=(1, 2), maxrows=2, ragged=True, headers=NAMES))
        out += list(alpha_tables_((None, 'a'), widths=(3,), maxrows=2, ragged=True, headers=NAMES))
        out += list(alpha_tables_((None, 'a'), widths=(2,), maxrows=2, ragged=True, headers=('a', 'a')))
    else:
        out += list(alpha_tables_((None, 'a'), widths=(1, 2), maxrows=2, ragged=True, headers=NAMES))
        out += list(alpha_tables_((None, 'a'), widths=(3,), maxrows=1, ragged=True, headers=NAMES))
        out += list(alpha_tables_((None, 0), widths=(2,), maxrows=1, ragged=True, headers=('a', 'a')))
        rows = [r for l in (2, 3, 4) for r in itertools.product((None, 'a'), repeat=l)]
        rnd = random.Random(seed)
        for _ in range(150):
            out.append([NAMES] + [rnd.choice(rows), rnd.choice(rows)])
    return out


_memo = {}


def scope(tier, seed, kind='all'):
    k = (tier, seed, kind)
    if k not in _memo:
        pos = list(positional_tables(3 if tier == 'thorough' else 2))
        if kind == 'pos':
            _memo[k] = pos
        elif kind == 'alpha':
            _memo[k] = alphabet_tables(tier, seed)
        else:
            _memo[k] = pos + alphabet_tables(tier, seed)
    return _memo[k]


def cls(table):
    hdr = table[0]
    m = len(hdr)
    if len(table) == 1:
        return 'header-only'
    if m == 0:
        return 'zero-field'
    if len(set(hdr)) < m:
        return 'dup-names'
    if any(len(r) < m for r in table[1:]):
        return 'short-row'
    if any(len(r) > m for r in table[1:]):
        return 'long-row'
    return 'even'


def mat(thunk, sub):
    """materialise a petl view as list of tuples; an exception becomes failure key  <sub>/<ExceptionType>"""
    try:
        return [tuple(r) for r in thunk()]
    except Fail:
        raise
    except Exception as e:
        raise Fail('%s/%s' % (sub, type(e).__name__), None, repr(e), traceback.format_exc()[-800:])


def compare(table, got, want_hdr, want_rows, tag=None):
    tag = tag or cls(table)
    want_hdr = tuple(want_hdr)
    expect(len(got) >= 1 and got[0] == want_hdr, 'header/' + tag, want_hdr, got[:1])
    want_rows = list(want_rows)
    if len(got) - 1 != len(want_rows):
        raise Fail('rowcount/' + tag, [want_hdr] + want_rows, got,
                   'rows %s' % ('dropped' if len(got) - 1 < len(want_rows) else 'added'))
    for g, w in zip(got[1:], want_rows):
        if w is ANY:
            continue
        expect(g == tuple(w), 'cells/' + tag, [want_hdr] + want_rows, got)


def run(table, thunk, want_hdr, want_rows, tag=None):
    tag = tag or cls(table)
    got = mat(thunk, 'exception/' + tag)
    compare(table, got, want_hdr, want_rows, tag)


def sq(row, m, missing=None):
    """the documented squaring up: trimmed to m cells, padded with `missing`"""
    row = tuple(row)[:m]
    return row + (missing,) * (m - len(row))


def pick(row, idxs, missing=None):
    return tuple(row[i] if i < len(row) else missing for i in idxs)


def full(table, f):
    """row-wise reference for a function that does not document padding: exact for rows of header length"""
    m = len(table[0])
    return [f(tuple(r)) if len(r) == m else ANY for r in table[1:]]


def ins(seq, index, item):
    """position semantics of an insertion index (None = at the end): that of a Python list"""
    out = list(seq)
    if index is None:
        out.append(item)
        return out
    n = len(out)
    p = max(0, n + index) if index < 0 else min(index, n)
    return out[:p] + [item] + out[p:]


# field selections ---------------------------------------------------------------------------------------

def resolve_names_only(hdr, spec):
    """index has priority; the k-th request for a name is the k-th column with that name (names consumed left to
    right); an index does not use up a name"""
    used = {}
    out = []
    for s in spec:
        if isinstance(s, int):
            out.append(s)
        else:
            k = used.get(s, 0)
            cols = [j for j, h in enumerate(hdr) if h == s]
            if k >= len(cols):
                return None
            out.append(cols[k])
            used[s] = k + 1
    return out


def resolve_consuming(hdr, spec):
    """the other reading: a column taken by index is used up as well"""
    free = [True] * len(hdr)
    out = []
    for s in spec:
        if isinstance(s, int):
            out.append(s)
            free[s] = False
    out = []
    for s in spec:
        if isinstance(s, int):
            out.append(s)
        else:
            cols = [j for j, h in enumerate(hdr) if h == s and free[j]]
            if not cols:
                return None
            out.append(cols[0])
            free[cols[0]] = False
    return out


def selections(hdr, maxlen=3, repeats=True):
    """(spec, target columns): every ordered subset of the columns, addressed by index / by name / mixed; only the
    specs whose meaning does not depend on how duplicate names and indices interact"""
    m = len(hdr)
    seen = set()
    for k in range(1, min(m, maxlen) + 1):
        for targets in itertools.permutations(range(m), k):
            forms = [tuple(targets), tuple(hdr[j] for j in targets),
                     tuple(j if i % 2 == 0 else hdr[j] for i, j in enumerate(targets)),
                     tuple(hdr[j] if i % 2 == 0 else j for i, j in enumerate(targets))]
            for spec in forms:
                if spec in seen:
                    continue
                seen.add(spec)
                if resolve_names_only(hdr, spec) == list(targets) == resolve_consuming(hdr, spec):
                    yield spec, list(targets)
    if repeats and m >= 1:
        yield (0, 0), [0, 0]
        if m >= 2:
            yield (m - 1, 0, m - 1), [m - 1, 0, m - 1]


# ------------------------------------------------------------------------------------- cut / cutout / movefield

def _cut_inputs(tier, seed):
    for t in scope(tier, seed):
        hdr = t[0]
        if len(hdr) == 0:
            yield (t, (), 'pos', None)
        for spec, _ in selections(hdr):
            yield (t, spec, 'pos', None)
            yield (t, spec, 'list', 'M')
            if len(spec) == 1:
                yield (t, spec, 'pos', 'M')


@group('cut', _cut_inputs)
def chk_cut(inp):
    table, spec, how, missing = inp
    hdr = table[0]
    idx = resolve_names_only(hdr, spec)
    kw = {} if missing is None else {'missing': missing}
    if how == 'pos':
        thunk = lambda: etl.cut(table, *spec, **kw)
    else:
        thunk = lambda: etl.cut(table, list(spec), **kw)
    run(table, thunk, [hdr[i] for i in idx], [pick(r, idx, missing) for r in table[1:]])


def _cutout_inputs(tier, seed):
    for t in scope(tier, seed):
        for spec, _ in selections(t[0], repeats=False):
            yield (t, spec, None)
            if len(spec) <= 1:
                yield (t, spec, 'M')


@group('cutout', _cutout_inputs)
def chk_cutout(inp):
    table, spec, missing = inp
    hdr = table[0]
    out = resolve_names_only(hdr, spec)
    idx = [j for j in range(len(hdr)) if j not in out]
    kw = {} if missing is None else {'missing': missing}
    run(table, lambda: etl.cutout(table, *spec, **kw), [hdr[i] for i in idx],
        [pick(r, idx, missing) for r in table[1:]])


def _movefield_inputs(tier, seed):
    for t in scope(tier, seed):
        hdr = t[0]
        m = len(hdr)
        for name in sorted(set(hdr)):
            for index in range(-m - 1, m + 2):
                yield (t, name, index)


@group('movefield', _movefield_inputs)
def chk_movefield(inp):
    table, name, index = inp
    hdr = table[0]
    m = len(hdr)
    if list(hdr).count(name) > 1:
        return      # moving "the" field of a name that occurs twice is an ambiguous request: outside the contract
    j = list(hdr).index(name)
    order = ins([k for k in range(m) if k != j], index, j)
    tag = 'moved-name-duplicated' if list(hdr).count(name) > 1 else cls(table)
    run(table, lambda: etl.movefield(table, name, index), [hdr[k] for k in order],
        full(table, lambda r: tuple(r[k] for k in order)), tag)


# ------------------------------------------------------------------------------------------ cat / stack / annex

def _single_inputs(tier, seed):
    for t in scope(tier, seed):
        yield (t, None)
        yield (t, 'M')


@group('cat.single', _single_inputs)
def chk_cat_single(inp):
    """documented: with a single table cat makes every row as long as the header, truncating / padding"""
    table, missing = inp
    m = len(table[0])
    if len(set(table[0])) < m:
        return      # cat aligns cells BY FIELD NAME; with duplicated names petl's own suite pins the by-name result
                    # (test_cat_dupfields: "pathological ... user needs to rename fields"), so it is outside the contract
    kw = {} if missing is None else {'missing': missing}
    run(table, lambda: etl.cat(table, **kw), table[0], [sq(r, m, missing) for r in table[1:]])


@group('stack.single', _single_inputs)
def chk_stack_single(inp):
    table, missing = inp
    m = len(table[0])
    kw = {} if missing is None else {'missing': missing}
    run(table, lambda: etl.stack(table, **kw), table[0], [sq(r, m, missing) for r in table[1:]])


def _byname(hdr, row, outhdr, missing):
    hdr = list(hdr)
    return tuple(row[hdr.index(h)] if h in hdr and hdr.index(h) < len(row) else missing for h in outhdr)


def _cat_header_inputs(tier, seed):
    for t in scope(tier, seed):
        hdr = tuple(t[0])
        if len(set(hdr)) < len(hdr):
            continue
        for oh in [hdr[::-1], hdr + ('z',), ('z',) + hdr[::-1][:1], hdr[1:], ('z', 'y')]:
            yield (t, list(oh), None)
            yield (t, list(oh), 'M')


@group('cat.header', _cat_header_inputs)
def chk_cat_header(inp):
    table, outhdr, missing = inp
    kw = {} if missing is None else {'missing': missing}
    run(table, lambda: etl.cat(table, header=outhdr, **kw), outhdr,
        [_byname(table[0], r, outhdr, missing) for r in table[1:]])


def first_tables(tier, dups):
    return list(positional_tables(2, widths=(0, 1, 2), dups=dups))


def second_tables(tier, hdrs):
    out = []
    for hdr in hdrs:
        m = len(hdr)
        lens = [l for l in (m - 1, m, m + 1) if l >= 0]
        for n in range(3 if tier == 'thorough' else 2):
            for ls in itertools.product(lens, repeat=n):
                out.append(utable(hdr, ls, prefix='s'))
        if tier != 'thorough':
            out.append(utable(hdr, (m, max(m - 1, 0)), prefix='s'))
    return out


def _cat_two_inputs(tier, seed):
    seconds = second_tables(tier, [(), ('a',), ('c',), ('a', 'b'), ('b', 'a'), ('b', 'c'), ('c', 'a', 'd')])
    for t1 in first_tables(tier, False):
        for t2 in seconds:
            yield (t1, t2, None)
            if len(t1) + len(t2) <= 4:
                yield (t1, t2, 'M')


@group('cat.two', _cat_two_inputs)
def chk_cat_two(inp):
    t1, t2, missing = inp
    outhdr = list(t1[0]) + [h for h in t2[0] if h not in t1[0]]
    want = [_byname(t1[0], r, outhdr, missing) for r in t1[1:]] + [_byname(t2[0], r, outhdr, missing) for r in t2[1:]]
    kw = {} if missing is None else {'missing': missing}
    tag = 'short-row' if any(len(r) < len(t[0]) for t in (t1, t2) for r in t[1:]) else 'rows'
    run(t1, lambda: etl.cat(t1, t2, **kw), outhdr, want, tag)
    # a fixed header over two tables
    oh = ['z'] + outhdr[::-1]
    want = [_byname(t1[0], r, oh, missing) for r in t1[1:]] + [_byname(t2[0], r, oh, missing) for r in t2[1:]]
    run(t1, lambda: etl.cat(t1, t2, header=oh, **kw), oh, want, 'header-arg/' + tag)


def _stack_two_inputs(tier, seed):
    seconds = second_tables(tier, [(), ('a',), ('b', 'a'), ('a', 'a'), ('c', 'a', 'd')])
    for t1 in first_tables(tier, True):
        for t2 in seconds:
            yield (t1, t2, None)
            if len(t1) + len(t2) <= 4:
                yield (t1, t2, 'M')


@group('stack.two', _stack_two_inputs)
def chk_stack_two(inp):
    """documented: rows emitted in order, trimmed or padded to the length of the header row of the first table"""
    t1, t2, missing = inp
    m = len(t1[0])
    kw = {} if missing is None else {'missing': missing}
    run(t1, lambda: etl.stack(t1, t2, **kw), t1[0], [sq(r, m, missing) for r in t1[1:] + t2[1:]],
        'short-row' if any(len(r) < m for r in t1[1:] + t2[1:]) else 'rows')


@group('annex', _stack_two_inputs)
def chk_annex(inp):
    """join by row order: row i = row i of each table squared up to its own header; a table that ran out contributes
    `missing` for each of its fields"""
    t1, t2, missing = inp
    m1, m2 = len(t1[0]), len(t2[0])
    n = max(len(t1), len(t2)) - 1
    want = []
    for i in range(n):
        a = sq(t1[1 + i], m1, missing) if i + 1 < len(t1) else (missing,) * m1
        b = sq(t2[1 + i], m2, missing) if i + 1 < len(t2) else (missing,) * m2
        want.append(a + b)
    kw = {} if missing is None else {'missing': missing}
    ragged = any(len(r) != len(t[0]) for t in (t1, t2) for r in t[1:])
    tag = ('ragged' if ragged else 'even') + ('/uneven-tables' if len(t1) != len(t2) else '')
    run(t1, lambda: etl.annex(t1, t2, **kw), tuple(t1[0]) + tuple(t2[0]), want, tag)
    if len(t1) <= 2 and missing is None:
        # three tables
        want3 = [w + (sq(t1[1 + i], m1) if i + 1 < len(t1) else (None,) * m1) for i, w in enumerate(want)]
        run(t1, lambda: etl.annex(t1, t2, t1), tuple(t1[0]) + tuple(t2[0]) + tuple(t1[0]), want3, 'three/' + tag)


# --------------------------------------------------------------------------------------------- adding fields

def _addfield_inputs(tier, seed):
    for t in scope(tier, seed):
        m = len(t[0])
        for index in [None] + list(range(-m - 1, m + 2)):
            yield (t, 'fix', index, None)
            yield (t, 'none', index, 'M')
            if m >= 1:
                yield (t, 'rec', index, None if index is None or index % 2 else 'M')


@group('addfield', _addfield_inputs)
def chk_addfield(inp):
    """documented: rows are first squared up (missing=...), the value goes where the field name goes"""
    table, vtok, index, missing = inp
    hdr = table[0]
    m = len(hdr)
    if vtok == 'fix':
        value, val = 'V', (lambda s, r: 'V')
    elif vtok == 'none':
        value, val = None, (lambda s, r: None)
    else:
        first = hdr[0]
        value = lambda rec: ('v', rec[first])
        val = lambda s, r: ('v', s[0])
    want = []
    for r in table[1:]:
        if vtok == 'rec' and len(r) == 0:
            want.append(ANY)   # the calculated value would read a cell the row does not have
            continue
        s = sq(r, m, missing)
        want.append(tuple(ins(s, index, val(s, r))))
    kw = {}
    if index is not None:
        kw['index'] = index
    if missing is not None:
        kw['missing'] = missing
    if vtok == 'none' and index is None and missing is None:
        thunk = lambda: etl.addfield(table, 'new')
    else:
        thunk = lambda: etl.addfield(table, 'new', value, **kw)
    run(table, thunk, ins(hdr, index, 'new'), want)


def _addfields_inputs(tier, seed):
    NO = 'noindex'
    for t in scope(tier, seed):
        m = len(t[0])
        pool = [NO] + list(range(-m - 2, m + 3))
        for i1 in pool:
            yield (t, (i1,), None)
            for i2 in pool:
                yield (t, (i1, i2), 'M' if (len(t) + m) % 2 else None)


@group('addfields', _addfields_inputs)
def chk_addfields(inp):
    """documented: (name, value[, index]) definitions, indices are evaluated in order"""
    table, idxs, missing = inp
    hdr = table[0]
    m = len(hdr)
    first = hdr[0] if m else None
    defs, vals = [], []
    for k, i in enumerate(idxs):
        name = 'n%d' % k
        if k == 1 and m >= 1:
            value = lambda rec: ('v', rec[first])
            vals.append(lambda s: ('v', s[0]))
        else:
            value = 'V%d' % k
            vals.append(lambda s, value=value: value)
        defs.append((name, value) if i == 'noindex' else (name, value, i))
    outhdr = list(hdr)
    for k, i in enumerate(idxs):
        outhdr = ins(outhdr, None if i == 'noindex' else i, 'n%d' % k)
    want = []
    for r in table[1:]:
        if len(idxs) > 1 and m >= 1 and len(r) == 0:
            want.append(ANY)
            continue
        s = sq(r, m, missing)
        out = list(s)
        for k, i in enumerate(idxs):
            out = ins(out, None if i == 'noindex' else i, vals[k](s))
        want.append(tuple(out))
    kw = {} if missing is None else {'missing': missing}
    run(table, lambda: etl.addfields(table, defs, **kw), outhdr, want)


def _addcolumn_inputs(tier, seed):
    for t in scope(tier, seed):
        m = len(t[0])
        n = len(t) - 1
        for d in (-1, 0, 1, 2):
            if n + d < 0:
                continue
            for index in [None] + list(range(-m - 1, m + 2)):
                yield (t, n + d, index, None if d != 1 else 'M')


@group('addcolumn', _addcolumn_inputs)
def chk_addcolumn(inp):
    """the column values are added by row order; where the column is shorter the value is `missing`, where it is
    longer (documented with etl.empty()) rows of `missing` are added"""
    table, k, index, missing = inp
    hdr = table[0]
    m = len(hdr)
    col = ['col%d' % i for i in range(k)]
    n = len(table) - 1
    want = []
    for i in range(max(n, k)):
        v = col[i] if i < k else missing
        if i < n:
            r = tuple(table[1 + i])
            if len(r) == m:
                want.append(tuple(ins(r, index, v)))
            elif len(r) > m and index is None:
                want.append(r[:m] + (v,) + r[m:])       # the value sits under the new field; surplus cells keep their order
            else:
                want.append(ANY)
        else:
            want.append(tuple(ins((missing,) * m, index, v)))
    kw = {}
    if index is not None:
        kw['index'] = index
    if missing is not None:
        kw['missing'] = missing
    tag = cls(table) + ('/longer-column' if k > n else '/shorter-column' if k < n else '')
    run(table, lambda: etl.addcolumn(table, 'new', col, **kw), ins(hdr, index, 'new'), want, tag)


def _rownum_inputs(tier, seed):
    for t in scope(tier, seed):
        yield (t, ())
        yield (t, (5, 2, 'n'))
        yield (t, (0, -1))
        yield (t, (3,))


@group('addrownumbers', _rownum_inputs)
def chk_rownum(inp):
    table, args = inp
    start = args[0] if len(args) > 0 else 1
    step = args[1] if len(args) > 1 else 1
    field = args[2] if len(args) > 2 else 'row'
    run(table, lambda: etl.addrownumbers(table, *args), (field,) + tuple(table[0]),
        [(start + i * step,) + tuple(r) for i, r in enumerate(table[1:])])


CTXQ = ['prv-first', 'nxt-first', 'ends', 'cur']


def _afuc_inputs(tier, seed):
    for t in scope(tier, seed):
        if len(t[0]) == 0:
            yield (t, 'ends')
            continue
        for q in CTXQ:
            yield (t, q)


@group('addfieldusingcontext', _afuc_inputs)
def chk_afuc(inp):
    """query(prv, cur, nxt) gives the value of the new (last) field; prv / nxt are None at the ends"""
    table, qtok = inp
    hdr = table[0]
    m = len(hdr)
    first = hdr[0] if m else None
    rows = [tuple(r) for r in table[1:]]
    g = lambda r: None if r is None else (r[0] if len(r) else '<no cell>')
    if qtok == 'prv-first':
        q = lambda p, c, n: ('p', None if p is None else p[first])
        ref = lambda p, c, n: ('p', g(p))
    elif qtok == 'nxt-first':
        q = lambda p, c, n: ('n', None if n is None else n[first])
        ref = lambda p, c, n: ('n', g(n))
    elif qtok == 'ends':
        q = lambda p, c, n: (p is None, n is None)
        ref = q
    else:
        q = lambda p, c, n: ('c', getattr(c, first))
        ref = lambda p, c, n: ('c', g(c))
    want = []
    for i, r in enumerate(rows):
        p = rows[i - 1] if i > 0 else None
        n = rows[i + 1] if i + 1 < len(rows) else None
        v = ref(p, r, n)
        if len(r) != m or '<no cell>' in v:
            want.append(ANY)
        else:
            want.append(r + (v,))
    run(table, lambda: etl.addfieldusingcontext(table, 'new', q), tuple(hdr) + ('new',), want)


# ---------------------------------------------------------------------------------------------- header functions

def _rename_inputs(tier, seed):
    for t in scope(tier, seed):
        hdr = t[0]
        m = len(hdr)
        yield (t, 'none', None)
        for j in range(m):
            yield (t, 'index', j)
            yield (t, 'index-dict', j)
            if list(hdr).count(hdr[j]) == 1:
                yield (t, 'name', j)
                yield (t, 'name-dict', j)
        yield (t, 'all-index', None)
        yield (t, 'nonexistent-lax', None)
        if m >= 2 and len(set(hdr)) == m:
            yield (t, 'swap', None)


@group('rename', _rename_inputs)
def chk_rename(inp):
    """only the requested header values are replaced, every data row is carried over as it is"""
    table, form, j = inp
    hdr = list(table[0])
    m = len(hdr)
    want = list(hdr)
    if form == 'none':
        thunk = lambda: etl.rename(table)
    elif form == 'index':
        want[j] = 'NEW'
        thunk = lambda: etl.rename(table, j, 'NEW')
    elif form == 'index-dict':
        want[j] = 'NEW'
        thunk = lambda: etl.rename(table, {j: 'NEW'})
    elif form == 'name':
        want[j] = 'NEW'
        thunk = lambda: etl.rename(table, hdr[j], 'NEW')
    elif form == 'name-dict':
        want[j] = 'NEW'
        thunk = lambda: etl.rename(table, {hdr[j]: 'NEW'})
    elif form == 'all-index':
        want = ['N%d' % k for k in range(m)]
        thunk = lambda: etl.rename(table, dict((k, 'N%d' % k) for k in range(m)))
    elif form == 'nonexistent-lax':
        thunk = lambda: etl.rename(table, {'nosuchfield': 'NEW'}, strict=False)
    else:
        want[0], want[1] = hdr[1], hdr[0]
        thunk = lambda: etl.rename(table, {hdr[0]: hdr[1], hdr[1]: hdr[0]})
    run(table, thunk, want, [tuple(r) for r in table[1:]])


def _hdrfn_inputs(tier, seed):
    for t in scope(tier, seed):
        m = len(t[0])
        for fn in ('setheader', 'extendheader', 'pushheader', 'pushheader-args', 'prefixheader', 'suffixheader'):
            for k in ((m - 1, m, m + 1) if fn in ('setheader', 'pushheader') else (0, 1, 2) if fn == 'extendheader'
                      else (2, 3) if fn == 'pushheader-args' else (0,)):
                if k >= 0:
                    yield (t, fn, k)


@group('headerfns', _hdrfn_inputs)
def chk_hdrfn(inp):
    table, fn, k = inp
    hdr = tuple(table[0])
    rows = [tuple(r) for r in table[1:]]
    new = tuple('h%d' % i for i in range(k))
    tag = fn.split('-')[0] + '/' + cls(table)
    if fn == 'setheader':
        run(table, lambda: etl.setheader(table, list(new)), new, rows, tag)
    elif fn == 'extendheader':
        run(table, lambda: etl.extendheader(table, list(new)), hdr + new, rows, tag)
    elif fn == 'pushheader':
        # documented to push the rows down: the old header becomes the first data row
        run(table, lambda: etl.pushheader(table, list(new)), new, [hdr] + rows, tag)
    elif fn == 'pushheader-args':
        run(table, lambda: etl.pushheader(table, *new), new, [hdr] + rows, tag)
    elif fn == 'prefixheader':
        run(table, lambda: etl.prefixheader(table, 'p_'), tuple('p_' + h for h in hdr), rows, tag)
    else:
        run(table, lambda: etl.suffixheader(table, '_s'), tuple(h + '_s' for h in hdr), rows, tag)


def _sorthdr_inputs(tier, seed):
    perms = [('c', 'a', 'b'), ('b', 'a'), ('b', 'c', 'a'), ('b', 'a', 'b'), ('b', 'b', 'a'), ('c', 'b', 'a'),
             ('a', 'b'), ('a',), (), ('a', 'a')]
    n = 3 if tier == 'thorough' else 2
    for hdr in perms:
        m = len(hdr)
        lens = [l for l in (m - 1, m, m + 1) if l >= 0]
        for k in range(n + 1):
            for ls in itertools.product(lens, repeat=k):
                yield (utable(hdr, ls),)
    for t in scope(tier, seed, 'alpha'):
        yield (t,)


@group('sortheader', _sorthdr_inputs)
def chk_sorthdr(inp):
    """columns re-ordered so that the header is sorted; same-named columns keep their relative order"""
    table, = inp
    hdr = table[0]
    order = sorted(range(len(hdr)), key=lambda j: (hdr[j], j))
    run(table, lambda: etl.sortheader(table), [hdr[j] for j in order],
        full(table, lambda r: tuple(r[j] for j in order)))


def _skip_inputs(tier, seed):
    for t in scope(tier, seed, 'pos'):
        for n in range(len(t) + 2):
            yield (t, n)


@group('skip', _skip_inputs)
def chk_skip(inp):
    """skip n rows including the header row: the rest is carried over as it is"""
    table, n = inp
    got = mat(lambda: etl.skip(table, n), 'exception')
    expect(got == [tuple(r) for r in table[n:]], 'rows', table[n:], got)


# ------------------------------------------------------------------------------------------------ convert family

def conv_of(tok):
    """(petl converter argument(s), reference function)"""
    if tok == 'wrap':
        return (lambda v: ('c', v),), (lambda v: ('c', v))
    if tok == 'upper':
        return ('upper',), (lambda v: v.upper())
    if tok == 'replace-args':
        return ('replace', 'r', 'RR'), (lambda v: v.replace('r', 'RR'))
    if tok == 'dict':
        d = {'a': 'X', None: 'N', 'r0c0': 'Y', 'r1c1': 'Z'}
        return (d,), (lambda v: d[v] if v in d else v)
    raise ValueError(tok)


def strings_only(table):
    return all(isinstance(c, str) for r in table[1:] for c in r)


def unique_name_cols(hdr):
    return [j for j, h in enumerate(hdr) if list(hdr).count(h) == 1]


def where_of(tok, hdr):
    """(petl where argument, reference predicate over a full row)"""
    if tok is None:
        return None, (lambda r: True)
    if tok == 'first-a':
        return (lambda rec: rec[0] == 'a' or rec[0] == 'r0c0'), (lambda r: r[0] in ('a', 'r0c0'))
    if tok == 'expr':
        return "{%s} == 'a' or {%s} == 'r1c0'" % (hdr[0], hdr[0]), (lambda r: r[0] in ('a', 'r1c0'))
    if tok == 'never':
        return (lambda rec: False), (lambda r: False)
    if tok == 'byname-none':
        name = hdr[0]
        return (lambda rec: rec[name] is None or rec[name] == 'r0c0'), (lambda r: r[0] is None or r[0] == 'r0c0')
    raise ValueError(tok)


def _convert_inputs(tier, seed):
    for t in scope(tier, seed):
        hdr = t[0]
        m = len(hdr)
        if m == 0:
            yield (t, 'nothing', None, None, None)
            continue
        uniq = unique_name_cols(hdr)
        ctoks = ['wrap', 'dict'] + (['upper', 'replace-args'] if strings_only(t) else [])
        for j in range(m):
            for c in ctoks:
                yield (t, 'index', (j,), c, None)
                if j in uniq:
                    yield (t, 'name', (j,), c, None)
            for w in ('first-a', 'expr', 'never', 'byname-none'):
                yield (t, 'index', (j,), 'wrap', w)
            yield (t, 'pass_row', (j,), None, None)
            yield (t, 'pass_row', (j,), None, 'first-a')
        for k in range(2, m + 1):
            for cols in itertools.combinations(range(m), k):
                yield (t, 'fields-index', cols, 'wrap', None)
                yield (t, 'dictspec-index', cols, 'wrap', 'expr')
                if all(j in uniq for j in cols):
                    yield (t, 'fields-name', cols[::-1], 'wrap', None)
                    yield (t, 'dictspec-name', cols, 'dict', None)
                yield (t, 'listspec', cols, 'wrap', None)
                yield (t, 'pass_row-multi', cols, None, None)
        yield (t, 'listspec', (0,), 'dict', None)
        yield (t, 'nothing', None, None, None)


@group('convert', _convert_inputs)
def chk_convert(inp):
    """cell i of a row changes only if field i has a converter and `where` holds for the row; the header and every
    other cell are carried over"""
    table, form, cols, ctok, wtok = inp
    hdr = table[0]
    m = len(hdr)
    kw = {}
    wpred = lambda r: True
    if wtok is not None:
        kw['where'], wpred = where_of(wtok, hdr)
    if form == 'nothing':
        run(table, lambda: etl.convert(table), hdr, [tuple(r) for r in table[1:]])
        return
    if form == 'pass_row':
        j = cols[0]
        thunk = lambda: etl.convert(table, j, lambda v, row: ('pr', v, tuple(row)), pass_row=True, **kw)
        ref = lambda r: tuple(('pr', c, r) if i == j and wpred(r) else c for i, c in enumerate(r))
        run(table, thunk, hdr, full(table, ref))
        return
    if form == 'pass_row-multi':
        # documented: the conversions are independent of each other, each one sees the original row
        f = lambda v, row: ('pr', v, tuple(row))
        thunk = lambda: etl.convert(table, dict((j, f) for j in cols), pass_row=True)
        ref = lambda r: tuple(('pr', c, r) if i in cols else c for i, c in enumerate(r))
        run(table, thunk, hdr, full(table, ref))
        return
    cargs, cref = conv_of(ctok)
    names = tuple(hdr[j] for j in cols)
    if form == 'index':
        thunk = lambda: etl.convert(table, cols[0], *cargs, **kw)
    elif form == 'name':
        thunk = lambda: etl.convert(table, names[0], *cargs, **kw)
    elif form == 'fields-index':
        thunk = lambda: etl.convert(table, tuple(cols), *cargs, **kw)
    elif form == 'fields-name':
        thunk = lambda: etl.convert(table, list(names), *cargs, **kw)
    elif form == 'dictspec-index':
        thunk = lambda: etl.convert(table, dict((j, cargs[0] if len(cargs) == 1 else cargs) for j in cols), **kw)
    elif form == 'dictspec-name':
        thunk = lambda: etl.convert(table, dict((h, cargs[0] if len(cargs) == 1 else cargs) for h in names), **kw)
    elif form == 'listspec':
        spec = [(cargs[0] if len(cargs) == 1 else cargs) if j in cols else None for j in range(max(cols) + 1)]
        thunk = lambda: etl.convert(table, spec, **kw)
    else:
        raise ValueError(form)
    ref = lambda r: tuple(cref(c) if i in cols and wpred(r) else c for i, c in enumerate(r))
    run(table, thunk, hdr, full(table, ref))


def _convertall_inputs(tier, seed):
    for t in scope(tier, seed):
        if len(t[0]) == 0:
            continue
        yield (t, 'convertall', 'wrap', None)
        yield (t, 'convertall', 'dict', 'first-a')
        if strings_only(t):
            yield (t, 'convertall', 'upper', None)
        yield (t, 'replaceall', 'a', None)
        yield (t, 'replaceall', None, 'expr')
        yield (t, 'replaceall', None, None)
        yield (t, 'replaceall', 'r0c0', None)


@group('convertall', _convertall_inputs)
def chk_convertall(inp):
    """every field is converted (replaceall: every occurrence of `a` under all fields becomes `b`)"""
    table, fn, arg, wtok = inp
    hdr = table[0]
    kw = {}
    wpred = lambda r: True
    if wtok is not None:
        kw['where'], wpred = where_of(wtok, hdr)
    if fn == 'convertall':
        cargs, cref = conv_of(arg)
        thunk = lambda: etl.convertall(table, *cargs, **kw)
    else:
        cref = lambda v: 'B' if (v is arg if arg is None else v == arg) else v
        thunk = lambda: etl.replaceall(table, arg, 'B', **kw)
    ref = lambda r: tuple(cref(c) if wpred(r) else c for c in r)
    run(table, thunk, hdr, full(table, ref), fn + '/' + cls(table))


def _convenience_inputs(tier, seed):
    for t in scope(tier, seed):
        hdr = t[0]
        m = len(hdr)
        uniq = unique_name_cols(hdr)
        for j in range(m):
            flds = [j] + ([hdr[j]] if j in uniq else [])
            for f in flds:
                yield (t, 'replace', f, j, 'a')
                yield (t, 'replace', f, j, None)
                yield (t, 'update', f, j, None)
                yield (t, 'update-where', f, j, None)
                yield (t, 'format', f, j, None)
                yield (t, 'interpolate', f, j, None)
                if strings_only(t):
                    yield (t, 'sub', f, j, 0)
                    yield (t, 'sub', f, j, 1)
            yield (t, 'replace', j, j, 'r0c%d' % j)


@group('convenience', _convenience_inputs)
def chk_convenience(inp):
    """replace / update / format / interpolate / sub: the named field is converted as documented, the rest carried
    over"""
    table, fn, f, j, arg = inp
    hdr = table[0]
    wpred = lambda r: True
    if fn == 'replace':
        thunk = lambda: etl.replace(table, f, arg, 'B')
        cref = lambda v: 'B' if (v is None if arg is None else v == arg) else v
    elif fn == 'update':
        thunk = lambda: etl.update(table, f, 'U')
        cref = lambda v: 'U'
    elif fn == 'update-where':
        w, wpred = where_of('first-a', hdr)
        thunk = lambda: etl.update(table, f, 'U', where=w)
        cref = lambda v: 'U'
    elif fn == 'format':
        thunk = lambda: etl.format(table, f, '<{}>')
        cref = lambda v: '<' + str(v) + '>'
    elif fn == 'interpolate':
        thunk = lambda: etl.interpolate(table, f, '<%s>')
        cref = lambda v: '<' + str(v) + '>'
    else:
        thunk = lambda: etl.sub(table, f, '[rc]', '-', count=arg)
        cref = lambda v: re.sub('[rc]', '-', v, count=arg)
    ref = lambda r: tuple(cref(c) if i == j and wpred(r) else c for i, c in enumerate(r))
    run(table, thunk, hdr, full(table, ref), fn.split('-')[0] + '/' + cls(table))


def _num(v):
    """documented: int, then float, then complex, else the value as it is"""
    for typ in (int, float, complex):
        try:
            return typ(v)
        except (ValueError, TypeError):
            pass
    return v


def _convnum_inputs(tier, seed):
    cells = ('1', '1.5', 'x', None) if tier != 'thorough' else ('1', '1.5', 'x', None, '2j', ' 3 ')
    for t in alpha_tables_(cells, widths=(1, 2), maxrows=2 if tier == 'thorough' else 1, ragged=True, headers=NAMES):
        yield (t,)
    for t in alpha_tables_(('1', 'x'), widths=(2,), maxrows=2, ragged=True, headers=('a', 'a')):
        yield (t,)
    for t in alpha_tables_(('1', 'x'), widths=(3,), maxrows=1, ragged=True, headers=NAMES):
        yield (t,)


@group('convertnumbers', _convnum_inputs)
def chk_convnum(inp):
    table, = inp
    run(table, lambda: etl.convertnumbers(table), table[0], full(table, lambda r: tuple(_num(c) for c in r)))


# ---------------------------------------------------------------------------------------------------- fills

def _fill_tables(tier, seed):
    out = list(alpha_tables_((None, 'a', 'b'), widths=(1, 2), maxrows=3, ragged=False, headers=NAMES))
    out += list(alpha_tables_((None, 'a'), widths=(3,), maxrows=2, ragged=False, headers=NAMES))
    if tier == 'thorough':
        out += list(alpha_tables_((None, 'a'), widths=(3,), maxrows=3, ragged=False, headers=NAMES))
        out += list(alpha_tables_((None, 'a', 'b'), widths=(2,), maxrows=3, ragged=False, headers=('a', 'a')))
    else:
        out += list(alpha_tables_((None, 'a'), widths=(2,), maxrows=3, ragged=False, headers=('a', 'a')))
    return out


def _filldown_inputs(tier, seed):
    for t in _fill_tables(tier, seed) + scope(tier, seed, 'pos'):
        hdr = t[0]
        m = len(hdr)
        if m == 0:
            yield (t, (), None)
            continue
        specs = [()] + [s for s, _ in selections(hdr, maxlen=2, repeats=False)]
        for spec in specs:
            cols = resolve_names_only(hdr, spec) if spec else list(range(m))
            # precondition (padding is not documented for filldown): every row has the fields to fill
            if any(len(r) <= c for r in t[1:] for c in cols):
                continue
            yield (t, spec, None)
            if len(spec) <= 1:
                yield (t, spec, 'a')


@group('filldown', _filldown_inputs)
def chk_filldown(inp):
    """a missing value under a fill field is replaced by the nearest non-missing value above it, if any; nothing else
    changes"""
    table, spec, missing = inp
    hdr = table[0]
    m = len(hdr)
    cols = resolve_names_only(hdr, spec) if spec else list(range(m))
    rows = [tuple(r) for r in table[1:]]
    want = []
    for i, r in enumerate(rows):
        out = list(r)
        for c in cols:
            if r[c] == missing:
                above = [rows[k][c] for k in range(i) if rows[k][c] != missing]
                if above:
                    out[c] = above[-1]
        want.append(tuple(out) if len(r) == m else ANY)
    kw = {} if missing is None else {'missing': missing}
    run(table, lambda: etl.filldown(table, *spec, **kw), hdr, want)


def _fillrl_inputs(tier, seed):
    tabs = list(alpha_tables_((None, 'a', 'b'), widths=(1, 2), maxrows=2, ragged=False, headers=NAMES))
    tabs += list(alpha_tables_((None, 'a', 'b'), widths=(3,), maxrows=2 if tier == 'thorough' else 1, ragged=False,
                               headers=NAMES))
    tabs += list(alpha_tables_((None, 'a'), widths=(3,), maxrows=2, ragged=False, headers=('a', 'b', 'a')))
    for t in tabs + scope(tier, seed, 'pos') + scope(tier, seed, 'alpha'):
        for fn in ('fillright', 'fillleft'):
            yield (t, fn, None)
            yield (t, fn, 'a')


@group('fillrightleft', _fillrl_inputs)
def chk_fillrl(inp):
    """fillright: a missing value is replaced by the nearest non-missing value before it in the row, if any
    (fillleft: after it); nothing else changes"""
    table, fn, missing = inp

    def ref(r):
        out = list(r)
        for i in range(len(r)):
            if r[i] == missing:
                ks = range(i - 1, -1, -1) if fn == 'fillright' else range(i + 1, len(r))
                near = [r[k] for k in ks if r[k] != missing]
                if near:
                    out[i] = near[0]
        return tuple(out)
    kw = {} if missing is None else {'missing': missing}
    f = etl.fillright if fn == 'fillright' else etl.fillleft
    run(table, lambda: f(table, **kw), table[0], full(table, ref), fn + '/' + cls(table))


# --------------------------------------------------------------------------------------------------- maps

MAPSETS = {
    'rename-reorder': lambda hdr: [('x%d' % j, ('name', j)) for j in reversed(range(len(hdr)))],
    'by-index': lambda hdr: [('y%d' % j, ('index', j)) for j in range(len(hdr))] + [('again', ('index', 0))],
    'fn-dict': lambda hdr: [('f', ('fn', 0)), ('d', ('dict', len(hdr) - 1)), ('k', ('name', 0))],
    'rec-expr': lambda hdr: [('r', ('rec',)), ('e', ('expr', 0)), ('c', ('const',))],
    'empty': lambda hdr: [],
}


def _fieldmap_inputs(tier, seed):
    for t in scope(tier, seed):
        hdr = t[0]
        if len(set(hdr)) < len(hdr):
            yield (t, 'by-index')
            continue
        if len(hdr) == 0:
            yield (t, 'empty')
            continue
        for k in sorted(MAPSETS):
            yield (t, k)


@group('fieldmap', _fieldmap_inputs)
def chk_fieldmap(inp):
    """one output row per input row, the output fields are exactly the mappings, in their order"""
    table, key = inp
    hdr = table[0]
    d = {'a': 'X', None: 'N', 'r0c0': 'Y'}
    mappings = OrderedDict()
    refs = []
    for out, spec in MAPSETS[key](hdr):
        kind = spec[0]
        if kind == 'name':
            mappings[out] = hdr[spec[1]]
            refs.append(lambda r, j=spec[1]: r[j])
        elif kind == 'index':
            mappings[out] = spec[1]
            refs.append(lambda r, j=spec[1]: r[j])
        elif kind == 'fn':
            mappings[out] = hdr[spec[1]], (lambda v: ('f', v))
            refs.append(lambda r, j=spec[1]: ('f', r[j]))
        elif kind == 'dict':
            mappings[out] = hdr[spec[1]], d
            refs.append(lambda r, j=spec[1]: d[r[j]] if r[j] in d else r[j])
        elif kind == 'rec':
            mappings[out] = lambda rec: ('rec', tuple(rec))
            refs.append(lambda r: ('rec', r))
        elif kind == 'expr':
            mappings[out] = '{%s}' % hdr[spec[1]]
            refs.append(lambda r, j=spec[1]: r[j])
        else:
            mappings[out] = lambda rec: 'K'
            refs.append(lambda r: 'K')
    run(table, lambda: etl.fieldmap(table, mappings), list(mappings.keys()),
        full(table, lambda r: tuple(f(r) for f in refs)))


def _rowmap_inputs(tier, seed):
    for t in scope(tier, seed):
        for k in ('rev', 'len-row', 'const'):
            yield (t, k)


@group('rowmap', _rowmap_inputs)
def chk_rowmap(inp):
    table, key = inp
    if key == 'rev':
        f = lambda row: tuple(row)[::-1]
    elif key == 'len-row':
        f = lambda row: [len(row)] + list(row)
    else:
        f = lambda row: ('k',)
    run(table, lambda: etl.rowmap(table, f, header=['x', 'y']), ('x', 'y'), [tuple(f(tuple(r))) for r in table[1:]])


# ------------------------------------------------------------------------------------------------ accessors

def _values_inputs(tier, seed):
    for t in scope(tier, seed):
        for spec, _ in selections(t[0], maxlen=2):
            yield (t, spec, 'pos', None)
            yield (t, spec, 'tuple', 'M')


@group('values', _values_inputs)
def chk_values(inp):
    """one value per data row, in order: the cell (a tuple of cells for several fields), `missing` where the row is
    short"""
    table, spec, how, missing = inp
    idx = resolve_names_only(table[0], spec)
    kw = {} if missing is None else {'missing': missing}
    if how == 'pos':
        thunk = lambda: list(etl.values(table, *spec, **kw))
    else:
        thunk = lambda: list(etl.values(table, spec if len(spec) > 1 else spec[0], **kw))
    try:
        got = thunk()
    except Exception as e:
        raise Fail('exception/%s/%s' % (cls(table), type(e).__name__), None, repr(e), traceback.format_exc()[-600:])
    if len(idx) == 1:
        want = [pick(r, idx, missing)[0] for r in table[1:]]
    else:
        want = [pick(r, idx, missing) for r in table[1:]]
    expect(len(got) == len(want), 'rowcount/' + cls(table), want, got)
    expect(got == want, 'cells/' + cls(table), want, got)


def _acc_inputs(tier, seed):
    for t in scope(tier, seed):
        yield (t, None)
        yield (t, 'M')


@group('accessors', _acc_inputs)
def chk_accessors(inp):
    """data / dicts / records / namedtuples / columns: one item per data row in order, the row's cells under the
    header's names, short rows padded with `missing`, long rows trimmed"""
    table, missing = inp
    hdr = tuple(table[0])
    m = len(hdr)
    rows = [tuple(r) for r in table[1:]]
    tag = cls(table)
    distinct = len(set(hdr)) == m
    kw = {} if missing is None else {'missing': missing}

    def guard(name, thunk):
        try:
            return thunk()
        except Exception as e:
            raise Fail('%s/exception/%s/%s' % (name, tag, type(e).__name__), None, repr(e),
                       traceback.format_exc()[-600:])
    if missing is None:
        got = guard('data', lambda: [tuple(r) for r in etl.data(table)])
        expect(got == rows, 'data/' + tag, rows, got)
    # dicts
    got = guard('dicts', lambda: list(etl.dicts(table, **kw)))
    expect(len(got) == len(rows), 'dicts/rowcount/' + tag, len(rows), got)
    for d, r in zip(got, rows):
        s = sq(r, m, missing)
        expect(set(d.keys()) == set(hdr), 'dicts/keys/' + tag, hdr, d)
        for name in set(hdr):
            cands = [s[j] for j in range(m) if hdr[j] == name]   # duplicate names: any of the same-named cells
            expect(any(d[name] is c or d[name] == c for c in cands), 'dicts/cells/' + tag, s, d)
    # records
    got = guard('records', lambda: list(etl.records(table, **kw)))
    expect(len(got) == len(rows), 'records/rowcount/' + tag, len(rows), got)
    for rec, r in zip(got, rows):
        s = sq(r, m, missing)
        obs = guard('records', lambda: [rec[j] for j in range(m)])
        expect(obs == list(s), 'records/by-index/' + tag, s, obs)
        for j in range(m):
            if list(hdr).index(hdr[j]) == j:     # a name reads its first column
                obs = guard('records', lambda: (rec[hdr[j]], getattr(rec, hdr[j])))
                expect(obs == (s[j], s[j]), 'records/by-name/' + tag, s[j], obs)
        expect(tuple(rec)[:m] == r[:m], 'records/cells/' + tag, r, tuple(rec))
    if distinct:
        # namedtuples
        got = guard('namedtuples', lambda: list(etl.namedtuples(table, **kw)))
        expect(len(got) == len(rows), 'namedtuples/rowcount/' + tag, len(rows), got)
        for nt, r in zip(got, rows):
            s = sq(r, m, missing)
            expect(tuple(nt) == s and nt._fields == hdr, 'namedtuples/cells/' + tag, s, (nt._fields, tuple(nt)))
        # columns
        cols = guard('columns', lambda: etl.columns(table, **kw))
        want = OrderedDict((h, [sq(r, m, missing)[j] for r in rows]) for j, h in enumerate(hdr))
        expect(list(cols.keys()) == list(hdr), 'columns/keys/' + tag, hdr, list(cols.keys()))
        expect(dict(cols) == dict(want), 'columns/cells/' + tag, dict(want), dict(cols))
