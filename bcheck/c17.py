"""C17 bounded stand-in: todb/appenddb on real sqlite3 files -- round trip, replace/extend, and all-or-nothing when the
source raises -- observed through a FRESH sqlite3 connection after petl's call has returned or raised.

Reference side (independent of petl): the database file is created, pre-filled and finally read with plain sqlite3
calls and this module's own identifier quoting; the expected contents are list arithmetic on the literal rows
(previous rows when the source failed or nothing was committed, the new rows for todb, previous + new for appenddb).
For a connection / cursor / cursor factory owned by the caller, "nothing is committed" is observed after the caller
closed its connection without committing; with commit=False the caller may also commit itself and then sees the load.
"""
import itertools, os, random, shutil, sqlite3, tempfile
from contextlib import contextmanager
import petl as etl
from .common import group, expect, Fail

RULE = ('a case = one (todb|appenddb, kind of handle, commit flag, table/field names, previous table contents, table to '
        'load, row index at which the source raises or None, what the caller does with its own connection afterwards) '
        'evaluation on a new sqlite3 file: run petl, then SELECT * through a fresh connection (while the caller\'s '
        'connection is still open, and again after it has been closed or committed) and compare with the expected rows; '
        'successful loads are also read back through fromdb; distinct = distinct input tuples per group')
BOUND = {'quick': 'previous contents of 0-2 rows x tables of <= 2 data rows (one of 3) x failure at {header, every data row, exhaustion, '
                  'none} x {file name, connection, cursor, cursor factory} x commit {default, True, False} x {todb, appenddb}: '
                  'a core of row counts exhaustive, a seeded sample of 1500 of the full product, plain and quote-laden names',
         'thorough': 'the full product with tables of <= 3 data rows over 3 distinct typed rows, for plain and for quote-laden names'}
BOUND = {k: v + '; plus 2600-row loads failing at rows 1000, 1001, 2200 and at exhaustion (a batched load must still be one transaction)' for k, v in BOUND.items()}

HANDLES = ['file', 'connection', 'cursor', 'mkcursor']
COMMITS = [None, True, False]
OPS = ['todb', 'appenddb']
NAMES = [('t', ('a', 'b')), ('we"ird tbl', ('x y', 'q"r')), ('select', ('from', "it's"))]
ROWS = [(1, 'a'), (None, 1.5), ('\xe9', b'x')]
PRIORS = [[], [(7, 'p')], [(7, 'p'), (8, '')]]

_SHM = '/dev/shm'
_BASE = _SHM if os.path.isdir(_SHM) and os.access(_SHM, os.W_OK | os.X_OK) else None  # memory-backed when available


class Boom(Exception):
    pass


class FailingTable(object):
    """an iterable table whose iterator raises Boom when the item at index fail_at is requested
    (-1: the header, 0..n-1: that data row, n: at exhaustion instead of stopping); None: never"""

    def __init__(self, hdr, rows, fail_at):
        self.hdr, self.rows, self.fail_at = tuple(hdr), [tuple(r) for r in rows], fail_at
        self.iterations = 0

    def __iter__(self):
        self.iterations += 1
        return self._gen()

    def _gen(self):
        f = self.fail_at
        if f == -1:
            raise Boom('header')
        yield self.hdr
        for i, r in enumerate(self.rows):
            if f == i:
                raise Boom('row %d' % i)
            yield r
        if f == len(self.rows):
            raise Boom('exhaustion')


def q(name):
    return '"' + name.replace('"', '""') + '"'


@contextmanager
def workdir():
    d = tempfile.mkdtemp(prefix='bcheck_c17_', dir=_BASE)
    try:
        yield d
    finally:
        shutil.rmtree(d, ignore_errors=True)


def fresh_select(path, tablename):
    c = sqlite3.connect(path, timeout=2)
    try:
        return [tuple(r) for r in c.execute('SELECT * FROM %s' % q(tablename)).fetchall()]
    finally:
        c.close()


def same(a, b):
    return repr(a) == repr(b)


def check_db(inp):
    op, handle, commit, names, prior, rows, fail_at, finish = inp
    tablename, fields = names
    prior = [tuple(r) for r in prior]
    rows = [tuple(r) for r in rows]
    fn = etl.todb if op == 'todb' else etl.appenddb
    kw = {} if commit is None else {'commit': commit}
    committing = commit is None or commit
    loaded = rows if op == 'todb' else prior + rows
    src = FailingTable(fields, rows, fail_at)
    sub = '%s/%s' % (op, handle)
    with workdir() as d:
        path = os.path.join(d, 'x.db')
        c0 = sqlite3.connect(path)
        try:
            c0.execute('CREATE TABLE %s (%s)' % (q(tablename), ', '.join(q(f) for f in fields)))
            c0.executemany('INSERT INTO %s VALUES (?, ?)' % q(tablename), prior)
            c0.commit()
        finally:
            c0.close()
        conn = None
        try:
            if handle == 'file':
                dbo = path
            else:
                conn = sqlite3.connect(path, timeout=2)
                dbo = conn if handle == 'connection' else (conn.cursor() if handle == 'cursor' else (lambda: conn.cursor()))
            raised = None
            try:
                fn(src, dbo, tablename, **kw)
            except Boom as e:
                raised = e
            if fail_at is None:
                expect(raised is None, sub + '/unexpected-exception', None, raised)
            failed = fail_at is not None
            # (1) petl has returned control: what does a fresh connection see right now?
            now = fresh_select(path, tablename)
            if failed:
                expect(same(now, prior), sub + '/source-failed-but-table-changed', prior, now)
            elif committing:
                expect(same(now, loaded), sub + '/committed-load', loaded, now)
            else:
                expect(same(now, prior), sub + '/commit-false-but-committed', prior, now)
            # (2) the caller is done with its own connection
            if conn is not None:
                if not failed and not committing:
                    # the uncommitted load is visible on the caller's connection ...
                    mine = [tuple(r) for r in conn.execute('SELECT * FROM %s' % q(tablename)).fetchall()]
                    expect(same(mine, loaded), sub + '/pending-load-on-callers-connection', loaded, mine)
                if finish == 'commit':
                    conn.commit()
                conn.close()
                conn = None
                after = fresh_select(path, tablename)
                if failed:
                    exp = prior  # finish is 'close' for failed loads
                    expect(same(after, exp), sub + '/source-failed-but-table-changed', exp, after)
                elif committing or finish == 'commit':
                    expect(same(after, loaded), sub + '/committed-load', loaded, after)
                else:
                    expect(same(after, prior), sub + '/commit-false-but-committed', prior, after)
                final = after
            else:
                final = now
            # (3) fromdb reads back exactly the header and rows that are in the table
            exp_t = [tuple(fields)] + final
            query = 'SELECT * FROM %s' % q(tablename)
            got = [tuple(r) for r in etl.fromdb(path, query)]
            expect(same(got, exp_t), 'fromdb/file', exp_t, got)
            c2 = sqlite3.connect(path, timeout=2)
            try:
                got = [tuple(r) for r in etl.fromdb(c2, query)]
                expect(same(got, exp_t), 'fromdb/connection', exp_t, got)
                got = [tuple(r) for r in etl.fromdb(lambda: c2.cursor(), query)]
                expect(same(got, exp_t), 'fromdb/mkcursor', exp_t, got)
            finally:
                c2.close()
        finally:
            if conn is not None:
                conn.close()


def _fail_points(n):
    return [None, -1] + list(range(0, n + 1))


def _cases(names, prior, rows, ops=OPS, handles=HANDLES, commits=COMMITS):
    for op in ops:
        for handle in handles:
            for commit in commits:
                for f in _fail_points(len(rows)):
                    yield (op, handle, commit, names, prior, rows, f, 'close')
                    if f is None and handle != 'file':
                        yield (op, handle, commit, names, prior, rows, f, 'commit')


def _tables(maxrows):
    for n in range(maxrows + 1):
        for body in itertools.product(ROWS, repeat=n):
            yield list(body)


def _core(tier, seed):
    for prior in (PRIORS[0], PRIORS[2]):
        for rows in ([], [ROWS[0]], [ROWS[0], ROWS[1]]):
            for x in _cases(NAMES[0], prior, rows):
                yield x
    for x in _cases(NAMES[0], PRIORS[2], [ROWS[0], ROWS[1], ROWS[2]]):
        yield x
    # identifier quoting: names with spaces, quote characters and keywords
    for names in NAMES[1:]:
        for x in _cases(names, PRIORS[1], [ROWS[1], ROWS[2]], handles=('file', 'mkcursor'), commits=(None,)):
            yield x
        for x in _cases(names, PRIORS[1], [ROWS[0]], handles=('connection', 'cursor'), commits=(True, False)):
            yield x


group('db.core', _core)(check_db)


def _product(tier, seed):
    allc = []
    for names in (NAMES[:2] if tier == 'thorough' else NAMES[:1]):
        for prior in PRIORS:
            for rows in _tables(3 if tier == 'thorough' else 2):
                allc.extend(_cases(names, prior, rows))
    if tier != 'thorough':
        allc = random.Random(seed).sample(allc, 1500)
    return allc


group('db.product', _product)(check_db)


def _large(tier, seed):
    """loads much larger than any plausible batch size: a batched / chunked load must still be one transaction"""
    n = 2600
    rows = [(i, 'r%d' % i) for i in range(n)]
    for op in OPS:
        for handle in HANDLES:
            for commit in (None, False):
                for f in (None, 1000, 1001, 2200, n):
                    yield (op, handle, commit, NAMES[0], PRIORS[1], rows, f, 'close')


group('db.large', _large)(check_db)
