"""C02 bounded stand-in: pipelines are lazy.

Specification (property statement + docs/intro.rst "ETL pipelines": "no actual transformation work will be done until
data are requested ... the minimum amount of processing will be done to produce 5 rows"), observed on instrumented
sources that count every row handed out:
  * constructing a pipeline pulls no data row from any source, and no row at all -- except that natural-key joins, the
    record* set operations and the *all conversions may consult the header row (<= 1 row per source);
  * for the streaming operators, the number of rows pulled from each source to obtain the header and the first k data
    rows of the output is the same for a 100-row and a 10000-row source, and is <= amp*k + c where amp is the known
    selectivity of the case (1 for the 1:1 operators) and c a small constant; the rows obtained are the same too;
  * look()/see()/repr()/head()/islice on a pipeline pull <= limit + small constant rows;
  * the file extractors open nothing at construction and read a number of bytes that does not depend on the file length.
Blocking operators (sort-backed, tail, transpose, recast, pivot) are outside the claim and only appear in the
construction check.
"""
import io, itertools, pickle, random, shutil, tempfile
import petl as etl
from .common import group, expect, Fail, sample
from .specutil import Resolver, S, F, V

RULE = ('one case = (pipeline description, selectivity bound): the pipeline is built twice, over instrumented list-backed '
        'sources of 100 and of 10000 rows (same first rows); pulls are read off at construction and after header + k '
        'data rows for k = 1, 2, 5; distinct = distinct pipeline descriptions')
BOUND = {
    'quick': 'every streaming operator of the anchored modules in the argument forms of the catalogue (138 calls), ALL '
             'compositions of depth 2 and 3 over a pool of 40 unary streaming stages (those needing more than 90 source '
             'rows for 5 output rows left out), construction of 65 blocking / header-consulting calls, 13 terminal '
             'consumers x 6 pipelines x 3 limits, 14 file-extractor pipelines over 100- and 10000-line sources; '
             'k in {1, 2, 5}; source lengths 100 and 10000',
    'thorough': 'same as quick (the scope is already exhaustive within the bound)',
}

KS = (1, 2, 5)
SIZES = (100, 10000)


# ------------------------------------------------------------------------------------------------ instrumented sources

PULL_LIMIT = 1000      # no case of the catalogue needs more than ~100 rows: beyond this the answer is known


class TooManyPulls(Exception):
    """raised by an instrumented source once it has handed out PULL_LIMIT rows (keeps a broken tree from scanning
    10000 rows in every one of 65000 cases)"""


class CountingTable(object):
    """an ordinary table container (not a petl class): a list of rows whose iterators count the rows they hand out"""

    def __init__(self, rows):
        self.rows = rows
        self.pulls = 0      # rows handed out, header included, over all iterators
        self.maxpos = 0     # highest position any iterator has reached (1 = header only)
        self.opened = 0

    def __iter__(self):
        self.opened += 1
        return _CountingIter(self)


class _CountingIter(object):
    def __init__(self, owner):
        self.owner, self.i = owner, 0

    def __iter__(self):
        return self

    def __next__(self):
        o = self.owner
        if self.i >= len(o.rows):
            raise StopIteration
        if o.pulls >= PULL_LIMIT:
            raise TooManyPulls('%d rows pulled' % o.pulls)
        row = o.rows[self.i]
        self.i += 1
        o.pulls += 1
        if self.i > o.maxpos:
            o.maxpos = self.i
        return row

    next = __next__


def _std(n):
    # a: row number; b: 'u<i%5>-v'; c: i%3; d: 'p-q'; n: number that conversions may change; l: list; m: dict
    return [('a', 'b', 'c', 'd', 'n', 'l', 'm')] + \
           [(i, 'u%d-v' % (i % 5), i % 3, 'p-q', i, (i, i + 1), {'p': i}) for i in range(n)]


def _fill(n):
    return [('a', 'b', 'c')] + [(i, None if i % 2 else 'x', None if i % 3 else i) for i in range(n)]


def _cmt(n):
    return [('s', 'a')] + [('#c' if i % 2 else 'r%d' % i, i) for i in range(n)]


def _raw(n):
    return [(i, 'x') for i in range(n)]          # no header row (pushheader)


def _junk(n):
    return [('junk',), ('more',)] + _std(n)      # two junk lines above the header (skip)


def _flat(n):
    return list(range(n))                        # a plain sequence of values (unflatten, addcolumn)


_MAKERS = {'std': _std, 'fill': _fill, 'cmt': _cmt, 'raw': _raw, 'junk': _junk, 'flat': _flat}
_DATA = {}

SMALL = {
    'k3': [('c', 'w')] + [(0, 'zero'), (1, 'one'), (2, 'two')],                    # one match per probe row
    'k1': [('c', 'w')] + [(1, 'one')],                                             # matches the rows with i%3 == 1
    'nat': [('c', 'w')] + [(0, 'zero'), (1, 'one'), (2, 'two')],
    'rows': [r[:3] for r in _std(10)],                                             # the first ten rows (a, b, c)
    'other': [('a', 'b', 'c'), (-1, 'no', 0)],
    'ann': [('z1', 'z2')] + [(i, -i) for i in range(50)],
}


def _rows(kind, n):
    if (kind, n) not in _DATA:
        _DATA[(kind, n)] = _MAKERS[kind](n)
    return _DATA[(kind, n)]


class Sources(object):
    """'@S' hook: 'std:0' -> the scaled source number 0 of kind std; 'small:k3' -> a fixed small table (also counted)"""

    def __init__(self, n):
        self.n, self.scaled, self.small = n, {}, {}

    def __call__(self, name):
        kind, tag = name.split(':')
        if kind == 'small':
            if tag not in self.small:
                self.small[tag] = CountingTable(SMALL[tag.split('#')[0]])
            return self.small[tag]
        if name not in self.scaled:
            self.scaled[name] = CountingTable(_rows(kind, self.n))
        return self.scaled[name]

    def all(self):
        return sorted(self.scaled.items()) + sorted(('small:' + k, v) for k, v in self.small.items())


def SRC(name='std:0'):
    return ('@S', name)


# ------------------------------------------------------------------------------------------------ measuring

def measure(spec, n, ks=KS):
    """-> (construction pulls per source, {k: pulls per source}, {k: rows obtained}, opened-at-construction)"""
    srcs = Sources(n)
    view = Resolver(source=srcs).build(spec)
    names = [nm for nm, _ in srcs.all()]
    cons = dict((nm, (s.pulls, s.maxpos)) for nm, s in srcs.all())
    it = iter(view)
    got, pulls, rows = [], {}, {}
    for k in sorted(ks):
        over = False
        while len(got) < k + 1:
            try:
                got.append(next(it))
            except StopIteration:
                break
            except TooManyPulls:
                over = True
                break
        pulls[k] = dict((nm, s.pulls) for nm, s in srcs.all())
        rows[k] = list(got)
        if over:
            # a full scan (only possible on the long source): report it as what it is
            for k2 in ks:
                pulls.setdefault(k2, pulls[k])
                rows.setdefault(k2, None)
            break
        if len(got) < k + 1:
            break
    return cons, pulls, rows, names


def check_construction(label, cons, hdr_ok):
    """hdr_ok: how many constructors of the pipeline may consult the header row (natural joins, record*, *all)"""
    hdr_ok = int(hdr_ok)
    for nm, (p, mx) in sorted(cons.items()):
        # a hash join's build side (a fixed small table here) gets its own key: reading it is not reading the stream
        what = 'construction-reads-build-side' if nm.startswith('small:') else 'construction-reads-data'
        expect(mx <= 1, '%s/%s' % (label, what), 0, '%s: position %d reached, %d pulls' % (nm, mx, p))
        if hdr_ok:
            expect(p <= hdr_ok, label + '/construction-rereads-header', '<= %d' % hdr_ok, '%s: %d pulls' % (nm, p))
        else:
            expect(p == 0, label + '/construction-reads-header', 0, '%s: %d pulls' % (nm, p))


def check_streaming(inp):
    label, spec, amp, add, hdr_ok = inp
    res = {}
    for n in SIZES:
        res[n] = measure(spec, n)
        check_construction(label, res[n][0], hdr_ok)
    (c1, p1, r1, names), (c2, p2, r2, _) = res[SIZES[0]], res[SIZES[1]]
    for k in KS:
        if k not in p1 or k not in p2:
            expect(k in p1 and k in p2, label + '/fewer-rows-than-asked', k, (sorted(p1), sorted(p2)))
        expect(p1[k] == p2[k], label + '/pulls-depend-on-source-length', p1[k], p2[k],
               'rows pulled for header + %d data rows: %d-row sources %r, %d-row sources %r (counting stops at %d)'
               % (k, SIZES[0], p1[k], SIZES[1], p2[k], PULL_LIMIT))
        expect(len(r1[k]) == k + 1 and len(r2[k]) == k + 1, label + '/case-yields-too-few-rows', k + 1,
               (len(r1[k]), len(r2[k])), 'catalogue case does not produce k rows within the small source')
        expect(r1[k] == r2[k], label + '/rows-differ-between-source-lengths', r1[k], r2[k])
        for nm in names:
            if nm.startswith('small:'):
                continue
            expect(p2[k][nm] <= amp * k + add, label + '/pulls-exceed-k-plus-constant', '<= %d*%d + %d' % (amp, k, add),
                   '%s: %d' % (nm, p2[k][nm]))


# ------------------------------------------------------------------------------------------------ single operators

X = SRC('std:0')
Y = SRC('std:1')
ID4 = ['a', 'b', 'c', 'd']


def single_catalogue():
    """(label, spec, amp, add, header-may-be-read-at-construction); bound per scaled source: pulls <= amp*k + add,
    add = 1 (header) + look-ahead / second header read"""
    c = []

    def add(label, spec, amp=1, plus=1, hdr_ok=False):
        c.append((label, spec, amp, plus, hdr_ok))

    # petl/transform/basics.py
    add('cut', S('cut', X, 'c', 'a'))
    add('cut-index', S('cut', X, 0, 2))
    add('cutout', S('cutout', X, 'b'))
    add('cat', S('cat', X, Y))
    add('cat-header', S('cat', X, Y, header=['c', 'a', 'zz']))
    add('cat-single', S('cat', X))
    add('stack', S('stack', X, Y))
    add('stack-nopad', S('stack', X, Y, missing='-', trim=False, pad=False))
    add('addfield', S('addfield', X, 'z', 1))
    add('addfield-fn-index', S('addfield', X, 'z', F('rec_id'), index=0))
    add('addfields', S('addfields', X, [('z', 1), ('y', F('rec_id'))]))
    add('addfieldusingcontext', S('addfieldusingcontext', X, 'z', F('ctx')), 1, 2)
    add('addrownumbers', S('addrownumbers', X))
    add('addcolumn', S('addcolumn', X, 'z', SRC('flat:0')))
    add('annex', S('annex', X, Y))
    add('annex-small', S('annex', X, SRC('small:ann')))
    add('head', S('head', X, 20))
    add('rowslice-stop', S('rowslice', X, 30))
    add('rowslice-start', S('rowslice', X, 3, 40), 1, 4)
    add('rowslice-step', S('rowslice', X, 0, None, 2), 2, 1)
    add('movefield', S('movefield', X, 'c', 0))
    add('skipcomments', S('skipcomments', SRC('cmt:0'), '#'), 2, 1)
    # petl/transform/conversions.py
    add('convert', S('convert', X, 'b', 'upper'))
    add('convert-fn', S('convert', X, 'n', F('inc')))
    add('convert-dict', S('convert', X, 'c', {0: 'zero'}))
    add('convert-multi', S('convert', X, {'b': 'upper', 'n': F('inc')}))
    add('convert-fields', S('convert', X, ('b', 'd'), 'upper'))
    add('convert-where-fn', S('convert', X, 'n', F('inc'), where=F('row_true')))
    add('convert-where-expr', S('convert', X, 'n', F('inc'), where='{c} == 0'))
    add('convert-passrow', S('convert', X, 'n', F('val_row'), pass_row=True))
    add('convert-failonerror', S('convert', X, 'b', F('inc'), failonerror=False, errorvalue=-1))
    add('convertall', S('convertall', X, F('str')), 1, 2, True)
    add('convertall-where', S('convertall', X, F('str'), where=F('row_true')), 1, 2, True)
    add('convertnumbers', S('convertnumbers', X), 1, 2, True)
    add('convertnumbers-where', S('convertnumbers', X, where=F('row_true')), 1, 2, True)
    add('replace', S('replace', X, 'c', 0, 'zero'))
    add('replace-where', S('replace', X, 'c', 0, 'zero', where=F('row_true')))
    add('replaceall', S('replaceall', X, 0, 'zero'), 1, 2, True)
    add('update', S('update', X, 'c', 9))
    add('update-where', S('update', X, 'c', 9, where='{a} > 1'))
    add('format', S('format', X, 'n', '{:05d}'))
    add('formatall', S('formatall', X, '<{}>'), 1, 2, True)
    add('interpolate', S('interpolate', X, 'n', '%05d'))
    add('interpolateall', S('interpolateall', X, '[%s]'), 1, 2, True)
    # petl/transform/selects.py
    add('select-fn', S('select', X, F('row_mod3')), 3, 1)
    add('select-expr', S('select', X, '{c} == 0'), 3, 1)
    add('select-field', S('select', X, 'c', F('truthy'), complement=True), 3, 1)
    add('select-all', S('select', X, F('row_true')))
    add('selectop', S('selectop', X, 'c', 0, F('eq')), 3, 1)
    add('selecteq', S('selecteq', X, 'c', 0), 3, 1)
    add('selectne', S('selectne', X, 'c', 0), 2, 1)
    add('selectlt', S('selectlt', X, 'c', 1), 3, 1)
    add('selectle', S('selectle', X, 'c', 1), 2, 1)
    add('selectgt', S('selectgt', X, 'c', 1), 3, 2)
    add('selectge', S('selectge', X, 'c', 1), 2, 1)
    add('selectrangeopen', S('selectrangeopen', X, 'c', 0, 1), 2, 1)
    add('selectrangeopenleft', S('selectrangeopenleft', X, 'c', 0, 1), 3, 1)
    add('selectrangeopenright', S('selectrangeopenright', X, 'c', 0, 1), 3, 1)
    add('selectrangeclosed', S('selectrangeclosed', X, 'c', -1, 1), 3, 1)
    add('selectcontains', S('selectcontains', X, 'b', 'u0'), 5, 1)
    add('selectin', S('selectin', X, 'c', [0, 7]), 3, 1)
    add('selectnotin', S('selectnotin', X, 'c', [0, 7]), 2, 1)
    add('selectis', S('selectis', X, 'b', None, complement=True))
    add('selectisnot', S('selectisnot', X, 'b', None))
    add('selectisinstance', S('selectisinstance', X, 'a', F('int')))
    add('selectnone', S('selectnone', SRC('fill:0'), 'b'), 2, 1)
    add('selectnotnone', S('selectnotnone', SRC('fill:0'), 'b'), 2, 1)
    add('selecttrue', S('selecttrue', X, 'c'), 2, 1)
    add('selectfalse', S('selectfalse', X, 'c'), 3, 1)
    add('selectusingcontext', S('selectusingcontext', X, F('ctx_sel')), 1, 2)
    add('rowlenselect', S('rowlenselect', X, 7))
    add('biselect-0', S('biselect#0', X, F('row_mod3')), 3, 1)
    add('biselect-1', S('biselect#1', X, F('row_mod3')), 2, 1)
    # petl/transform/headers.py
    add('rename', S('rename', X, 'b', 'B'))
    add('rename-dict', S('rename', X, {'b': 'B', 'c': 'C'}))
    add('setheader', S('setheader', X, list('pqrstuv')))
    add('extendheader', S('extendheader', X, ['x1', 'x2']))
    add('pushheader', S('pushheader', SRC('raw:0'), ['a', 'x']), 1, 0)
    add('skip', S('skip', SRC('junk:0'), 2), 1, 3)
    add('prefixheader', S('prefixheader', X, 'p_'))
    add('suffixheader', S('suffixheader', X, '_s'))
    add('sortheader', S('sortheader', X))
    # petl/transform/fills.py
    add('filldown', S('filldown', SRC('fill:0')))
    add('filldown-fields', S('filldown', SRC('fill:0'), 'b'))
    add('fillright', S('fillright', SRC('fill:0')))
    add('fillleft', S('fillleft', SRC('fill:0')))
    # petl/transform/maps.py
    add('fieldmap', S('fieldmap', X, {'A': 'a', 'B': ('b', F('upper')), 'n': F('rec_id')}))
    add('rowmap', S('rowmap', X, F('row_rev'), header=list('mlndcba')))
    add('rowmapmany', S('rowmapmany', X, F('row_two'), header=list('abcdnlm')))
    # petl/transform/regex.py
    add('capture', S('capture', X, 'd', '(\\w)-(\\w)', ['p', 'q']))
    add('capture-original', S('capture', X, 'd', '(\\w)-(\\w)', ['p', 'q'], include_original=True))
    add('split', S('split', X, 'd', '-', ['p', 'q']))
    add('splitdown', S('splitdown', X, 'd', '-'))
    add('sub', S('sub', X, 'd', '-', '+'))
    add('search-field', S('search', X, 'b', 'u0'), 5, 1)
    add('search-any', S('search', X, 'u0'), 5, 1)
    add('searchcomplement', S('searchcomplement', X, 'b', 'u0'), 2, 1)
    # petl/transform/unpacks.py
    add('unpack', S('unpack', X, 'l', ['l1', 'l2']))
    add('unpack-original', S('unpack', X, 'l', ['l1', 'l2'], include_original=True))
    add('unpackdict-keys', S('unpackdict', X, 'm', keys=['p']))
    add('unpackdict-sample', S('unpackdict', X, 'm', samplesize=3), 1, 5)
    # petl/transform/reshape.py (streaming part)
    add('melt', S('melt', X, key=['a', 'b']))
    add('melt-variables', S('melt', X, key='a', variables=['c', 'n']))
    add('flatten', S('flatten', X), 1, 1)
    add('unflatten', S('unflatten', SRC('flat:0'), 3), 3, 1)
    # petl/transform/hashjoins.py: the probe side streams
    add('hashjoin', S('hashjoin', X, SRC('small:k3'), key='c'))
    add('hashjoin-lkey-rkey', S('hashjoin', X, SRC('small:k3'), lkey='c', rkey='c'))
    add('hashjoin-natural', S('hashjoin', X, SRC('small:nat')), 1, 2, True)
    add('hashjoin-selective', S('hashjoin', X, SRC('small:k1'), key='c'), 3, 2)
    add('hashleftjoin', S('hashleftjoin', X, SRC('small:k1'), key='c'))
    add('hashleftjoin-natural', S('hashleftjoin', X, SRC('small:nat')), 1, 2, True)
    add('hashrightjoin', S('hashrightjoin', SRC('small:k1'), X, key='c'))
    add('hashrightjoin-natural', S('hashrightjoin', SRC('small:nat'), X), 1, 2, True)
    add('hashantijoin', S('hashantijoin', X, SRC('small:k1'), key='c'), 2, 1)
    add('hashlookupjoin', S('hashlookupjoin', X, SRC('small:k1'), key='c'))
    add('hashlookupjoin-natural', S('hashlookupjoin', X, SRC('small:nat')), 1, 2, True)
    # petl/transform/setops.py: hash variants stream `a`
    xc = V(S('cut', X, 'a', 'b', 'c'))          # hashable cells only
    add('hashcomplement', S('hashcomplement', xc, SRC('small:other')))
    add('hashcomplement-strict', S('hashcomplement', xc, SRC('small:other'), strict=True))
    add('hashintersection', S('hashintersection', xc, SRC('small:rows')))
    # a header-consulting constructor on top of a hash join: the statement allows the header row only
    add('convertall-of-hashjoin', S('convertall', V(S('hashjoin', X, SRC('small:k3'), key='c')), F('str')), 1, 2, 1)
    add('convertnumbers-of-hashleftjoin', S('convertnumbers', V(S('hashleftjoin', X, SRC('small:k1'), key='c'))), 1, 2, 1)
    # petl/util/base.py containers, petl/util/materialise.py, petl/util/timing.py (pass-through)
    add('wrap', S('wrap', X))
    add('data', S('data', X), 1, 2)
    add('values', S('values', X, 'b'), 1, 2)
    add('values-multi', S('values', X, 'a', 'c'), 1, 2)
    add('dicts', S('dicts', X), 1, 2)
    add('records', S('records', X), 1, 2)
    add('namedtuples', S('namedtuples', X), 1, 2)
    add('cache', S('util.materialise.cache', X))
    add('cache-n', S('util.materialise.cache', X, n=3))
    add('progress', S('progress', X, 2, out=('@O',)))
    add('clock', S('clock', X))
    # tee views (pass-through while writing)
    add('teecsv', S('teecsv', V(S('cut', X, 'a', 'b')), ('@M', None)))
    add('teetsv', S('teetsv', V(S('cut', X, 'a', 'b')), ('@M', None)))
    add('teepickle', S('teepickle', V(S('cut', X, 'a', 'b')), ('@M', None)))
    add('teetext', S('teetext', V(S('cut', X, 'a', 'b')), ('@M', None), template='{a} {b}\n'))
    add('teehtml', S('teehtml', V(S('cut', X, 'a', 'b')), ('@M', None)))
    # method-call style and fluent wrappers build the same views
    add('wrap-cut-select', S('select', V(S('cut', V(S('wrap', X)), 'a', 'c')), '{c} == 0'), 3, 1)
    return c


def _single_inputs(tier, seed):
    return single_catalogue()


@group('single', _single_inputs)
def single(inp):
    check_streaming(inp)


# ------------------------------------------------------------------------------------------------ compositions

def pool():
    """unary streaming stages that keep the fields a, b, c, d, n, l, m (by name) and their types, so that any sequence
    of them is a valid pipeline: (label, function, args after the table, kwargs, amp, extra) with
    input data rows needed for k output rows <= amp*k + extra"""
    P = []

    def add(label, fn, args=(), kw=(), amp=1, extra=0, hdr=0):
        P.append((label, fn, tuple(args), tuple(sorted(dict(kw).items())), amp, extra, hdr))

    add('cut', 'cut', ['a', 'b', 'c', 'd', 'n', 'l', 'm'])
    add('cat1', 'cat')
    add('addfield', 'addfield', ['e', 1])
    add('addfield-fn', 'addfield', ['e', F('rec_id')])
    add('addfields', 'addfields', [[('e1', 1), ('e2', F('rec_id'))]])
    add('addfieldusingcontext', 'addfieldusingcontext', ['g', F('ctx')], extra=1)
    add('head', 'head', [95])      # never the limiting stage: cases needing more than 90 source rows are left out
    add('rowslice-start', 'rowslice', [2, None], extra=2)
    add('rowslice-step', 'rowslice', [0, None, 2], amp=2)
    add('skipcomments', 'skipcomments', ['#'])
    add('convert', 'convert', ['b', 'upper'])
    add('convert-where', 'convert', ['n', F('inc')], {'where': F('row_true')})
    add('convert-passrow', 'convert', ['n', F('val_row0')], {'pass_row': True})
    add('convertnumbers', 'convertnumbers', hdr=1)
    add('replaceall', 'replaceall', ['zz', 'y'], hdr=1)
    add('update', 'update', ['n', 0])
    add('select-mod3', 'select', ['c', F('falsy')], amp=3)
    add('selecteq', 'selecteq', ['c', 0], amp=3)
    add('selectne', 'selectne', ['c', 1], amp=2)
    add('selectusingcontext', 'selectusingcontext', [F('ctx_sel')], extra=1)
    add('search', 'search', ['b', '^[uU]0'], amp=5)
    add('extendheader', 'extendheader', [['x1']])
    add('rename-loose', 'rename', [{'nope': 'x'}], {'strict': False})
    add('filldown', 'filldown', ['b'])
    add('fillright', 'fillright')
    add('fieldmap', 'fieldmap', [{'a': 'a', 'b': 'b', 'c': 'c', 'd': 'd', 'n': 'n', 'l': 'l', 'm': 'm',
                                  'h': ('a', F('inc'))}])
    add('rowmap', 'rowmap', [F('row_same')], {'header': ['a', 'b', 'c', 'd', 'n', 'l', 'm']})
    add('rowmapmany', 'rowmapmany', [F('row_two')], {'header': ['a', 'b', 'c', 'd', 'n', 'l', 'm']})
    add('capture', 'capture', ['d', '(\\w)-(\\w)', ['p', 'q']], {'include_original': True, 'fill': ['', '']})
    add('split', 'split', ['d', '-', ['s1', 's2']], {'include_original': True})
    add('sub', 'sub', ['d', 'q', 'Q'])
    add('unpack', 'unpack', ['l', ['l1', 'l2']], {'include_original': True})
    add('unpackdict', 'unpackdict', ['m'], {'keys': ['p'], 'includeoriginal': True})
    add('hashjoin', 'hashjoin', [SRC('small:k3')], {'key': 'c'})
    add('hashleftjoin', 'hashleftjoin', [SRC('small:k1')], {'key': 'c'})
    add('hashantijoin', 'hashantijoin', [SRC('small:k1')], {'key': 'c'}, amp=2)
    add('hashlookupjoin', 'hashlookupjoin', [SRC('small:k1')], {'key': 'c'})
    add('cache', 'util.materialise.cache')
    add('progress', 'progress', [2], {'out': ('@O',)})
    add('clock', 'clock')
    return P


def compose(stages):
    """stages: innermost first -> (spec, amp, add, hdr_ok); small sources get a distinct tag per stage"""
    spec, need_amp, need_add, hdrs = X, 1, 0, 0
    # rows needed from the source: apply the stages' needs from the outermost inwards
    for st in reversed(stages):
        _, _, _, _, amp, extra, hdr = st
        # need_in(k) = amp * need_out(k) + extra  with need_out(k) = need_amp*k + need_add
        need_amp, need_add = amp * need_amp, amp * need_add + extra
    for i, st in enumerate(stages):
        label, fn, args, kw, amp, extra, hdr = st
        args = tuple(('@S', a[1] + '#%d' % i) if isinstance(a, tuple) and a[:1] == ('@S',) else a for a in args)
        inner = spec if spec is X else V(spec)
        spec = (fn, (inner,) + args, kw)
        hdrs += hdr
    return spec, need_amp, need_add + 1 + hdrs, hdrs


def _comp_inputs(tier, seed):
    P = pool()
    out = []
    for depth in (2, 3):
        combos = itertools.product(P, repeat=depth)
        cases = []
        for st in combos:
            spec, amp, add, hdr_ok = compose(st)
            if amp * max(KS) + add > 90:          # the k-th output row must exist within the 100-row source
                continue
            cases.append(('>'.join(s[0] for s in st), spec, amp, add, hdr_ok))
        out.extend(cases)
    return out


@group('compose', _comp_inputs)
def composed(inp):
    label, spec, amp, add, hdr_ok = inp
    # one key per failure class ('chain/<class>'): which stages are involved is in the stored input
    try:
        check_streaming(('chain', spec, amp, add, hdr_ok))
    except Fail as f:
        raise Fail(f.subkey, f.expected, f.observed, 'chain %s: %s' % (label, f.msg))


# ------------------------------------------------------------------------------------------------ construction only

def construction_catalogue():
    """operators outside the streaming claim (blocking) or that consult headers: constructing them reads no data row"""
    c = []

    def add(label, spec, hdr_ok=False):
        c.append((label, spec, hdr_ok))

    k3, k1 = SRC('small:k3'), SRC('small:k1')
    for nm in ('join', 'leftjoin', 'rightjoin', 'outerjoin', 'antijoin', 'lookupjoin'):
        add(nm + '-key', S(nm, X, Y, key='a'))
        add(nm + '-natural', S(nm, X, Y), True)
    add('crossjoin', S('crossjoin', X, Y))
    add('crossjoin-prefix', S('crossjoin', X, Y, prefix=True), True)
    add('unjoin', S('unjoin', X, 'b', key='c'))
    add('unjoin-auto', S('unjoin', X, 'b'))
    for nm in ('hashjoin', 'hashleftjoin', 'hashrightjoin', 'hashantijoin', 'hashlookupjoin'):
        add(nm + '-natural', S(nm, X, Y), True)
        add(nm + '-key', S(nm, X, Y, key='a'))
    add('complement', S('complement', X, Y))
    add('intersection', S('intersection', X, Y))
    add('diff', S('diff', X, Y))
    add('recordcomplement', S('recordcomplement', X, Y), True)
    add('recorddiff', S('recorddiff', X, Y), 2)         # = two recordcomplements
    add('hashcomplement', S('hashcomplement', X, Y))
    add('hashintersection', S('hashintersection', X, Y))
    add('sort', S('sort', X, 'c'))
    add('sort-buffered', S('sort', X, 'c', buffersize=10))
    add('mergesort', S('mergesort', X, Y, key='a'))
    add('tail', S('tail', X, 3))
    add('transpose', S('transpose', X))
    add('recast', S('recast', V(S('melt', X, key='a', variables=['c', 'n']))))
    add('pivot', S('pivot', X, 'b', 'c', 'n', F('sum')))
    add('duplicates', S('duplicates', X, 'c'))
    add('unique', S('unique', X, 'c'))
    add('conflicts', S('conflicts', X, 'c'))
    add('distinct', S('distinct', X, 'c'))
    add('aggregate', S('aggregate', X, 'c', F('len')))
    add('aggregate-multi', S('aggregate', X, 'c', {'n': F('len')}))
    add('rowreduce', S('rowreduce', X, 'c', F('red_len'), header=['c', 'n']))
    add('rowgroupmap', S('rowgroupmap', X, 'c', F('grp'), header=['c', 'n']))
    add('fold', S('fold', X, 'c', F('fold_add'), value=0))
    add('mergeduplicates', S('mergeduplicates', X, 'c'))
    add('merge', S('merge', X, Y, key='a'))
    add('groupselectfirst', S('groupselectfirst', X, 'c'))
    add('groupselectmin', S('groupselectmin', X, 'c', 'n'))
    add('groupcountdistinctvalues', S('groupcountdistinctvalues', X, 'c', 'b'))
    add('convertall', S('convertall', X, F('str')), True)
    add('convertnumbers', S('convertnumbers', X), True)
    add('replaceall', S('replaceall', X, 0, 1), True)
    add('formatall', S('formatall', X, '{}'), True)
    add('interpolateall', S('interpolateall', X, '%s'), True)
    add('unpackdict-sampling', S('unpackdict', X, 'm'))
    add('validate', S('validate', X, constraints=[{'name': 'c', 'field': 'c', 'test': ('@F', 'int')}]))
    add('look', S('look', X))
    add('lookall', S('lookall', X))
    add('see', S('see', X))
    add('deep-pipeline', S('sort', V(S('join', V(S('select', V(S('convert', X, 'b', 'upper')), '{c} == 0')),
                                       V(S('cut', Y, 'a', 'n')), key='a')), 'a'))
    return c


def _constr_inputs(tier, seed):
    return construction_catalogue()


@group('construct', _constr_inputs)
def construct(inp):
    label, spec, hdr_ok = inp
    for n in SIZES:
        srcs = Sources(n)
        view = Resolver(source=srcs).build(spec)
        cons = dict((nm, (s.pulls, s.maxpos)) for nm, s in srcs.all())
        check_construction(label, cons, hdr_ok)
        del view


# ------------------------------------------------------------------------------------------------ terminal consumers

PIPES = {
    'source': X,
    'cut': V(S('cut', X, 'a', 'b', 'c')),
    'convert-where': V(S('convert', X, 'n', F('inc'), where=F('row_true'))),
    'select': V(S('select', X, '{c} == 0')),
    'long': V(S('addfield', V(S('select', V(S('convert', V(S('cut', X, 'a', 'b', 'c')), 'b', 'upper')), '{c} == 0')),
                'z', F('rec_id'))),
    'hashjoin': V(S('hashjoin', X, SRC('small:k3'), key='c')),
}
PIPE_AMP = {'source': 1, 'cut': 1, 'convert-where': 1, 'select': 3, 'long': 3, 'hashjoin': 1}
CONSUMERS = ('look-str', 'look-repr-default', 'lookstr', 'see-str', 'table-repr', 'table-str', 'table-html',
             'head-exhaust', 'islice', 'data-islice', 'look-simple', 'look-minimal', 'see-index')


def _consume(name, view, limit):
    if name == 'look-str':
        return str(etl.look(view, limit=limit))
    if name == 'look-repr-default':
        return repr(etl.look(view))                 # config.look_limit
    if name == 'look-simple':
        return str(etl.look(view, limit=limit, style='simple'))
    if name == 'look-minimal':
        return str(etl.look(view, limit=limit, style='minimal', truncate=3))
    if name == 'lookstr':
        return str(etl.lookstr(view, limit=limit))
    if name == 'see-str':
        return str(etl.see(view, limit=limit))
    if name == 'see-index':
        return str(etl.see(view, limit=limit, index_header=True))
    if name == 'table-repr':
        return repr(etl.wrap(view))
    if name == 'table-str':
        return str(etl.wrap(view))
    if name == 'table-html':
        return etl.wrap(view)._repr_html_()
    if name == 'head-exhaust':
        return [r for r in etl.head(view, limit)]
    if name == 'islice':
        return list(itertools.islice(view, limit + 1))
    if name == 'data-islice':
        return [r for r in etl.data(view, limit)]
    raise KeyError(name)


def _cons_inputs(tier, seed):
    for c in CONSUMERS:
        for p in sorted(PIPES):
            for limit in (1, 3, 5):
                yield (c, p, limit)


@group('consume', _cons_inputs)
def consume(inp):
    cname, pname, limit = inp
    label = cname
    pulls, outs = {}, {}
    default_limit = cname in ('look-repr-default', 'table-repr', 'table-str', 'table-html')
    import petl.config as cfg
    eff = limit
    if default_limit:
        eff = cfg.display_limit if cname == 'table-html' else cfg.look_limit
    for n in SIZES:
        srcs = Sources(n)
        spec = PIPES[pname]
        view = srcs(spec[1]) if spec[0] == '@S' else Resolver(source=srcs).build(spec[1])
        cons = dict((nm, (s.pulls, s.maxpos)) for nm, s in srcs.all())
        check_construction(label, cons, False)
        try:
            outs[n] = _consume(cname, view, limit)
        except TooManyPulls:
            outs[n] = None
        pulls[n] = dict((nm, s.pulls) for nm, s in srcs.all())
    expect(pulls[SIZES[0]] == pulls[SIZES[1]], label + '/pulls-depend-on-source-length', pulls[SIZES[0]], pulls[SIZES[1]])
    expect(outs[SIZES[0]] == outs[SIZES[1]], label + '/output-differs-between-source-lengths', outs[SIZES[0]], outs[SIZES[1]])
    # header + limit rows + one row of look-ahead to know whether there is more, times the selectivity of the pipeline
    bound = PIPE_AMP[pname] * (eff + 1) + 1
    got = pulls[SIZES[1]]['std:0']
    expect(got <= bound, label + '/pulls-exceed-limit-plus-constant', '<= %d' % bound, got)


# ------------------------------------------------------------------------------------------------ file extractors

class CountingBytesIO(io.BytesIO):
    def __init__(self, data, owner):
        io.BytesIO.__init__(self, data)
        self.owner = owner

    def read(self, *a):
        b = io.BytesIO.read(self, *a)
        self.owner.nbytes += len(b)
        return b

    def read1(self, *a):
        b = io.BytesIO.read1(self, *a)
        self.owner.nbytes += len(b)
        return b

    def readinto(self, buf):
        n = io.BytesIO.readinto(self, buf)
        self.owner.nbytes += n or 0
        return n

    def readline(self, *a):
        b = io.BytesIO.readline(self, *a)
        self.owner.nbytes += len(b)
        return b

    def readlines(self, *a):
        ls = io.BytesIO.readlines(self, *a)
        self.owner.nbytes += sum(len(x) for x in ls)
        return ls


class CountingSource(object):
    """a petl source object (has open()) over bytes; counts opens and bytes handed out"""

    def __init__(self, data):
        self.data, self.nopen, self.nbytes = data, 0, 0

    def open(self, mode='rb'):
        assert mode.startswith('r'), mode
        self.nopen += 1
        return CountingBytesIO(self.data, self)


_FILEDATA = {}
PAD = 'x' * 120       # > 8 kB even for the 100-line file, so both lengths are beyond one read-ahead buffer


def _filedata(kind, n):
    if (kind, n) not in _FILEDATA:
        if kind == 'csv':
            d = 'a,b,c\r\n' + ''.join('%d,%s,%d\r\n' % (i, PAD, i % 3) for i in range(n))
            d = d.encode('ascii')
        elif kind == 'tsv':
            d = 'a\tb\tc\r\n' + ''.join('%d\t%s\t%d\r\n' % (i, PAD, i % 3) for i in range(n))
            d = d.encode('ascii')
        elif kind == 'text':
            d = ''.join('  line %07d %s \r\n' % (i, PAD) for i in range(n)).encode('ascii')
        elif kind == 'pickle':
            d = b''.join(pickle.dumps(r, 2) for r in [('a', 'b', 'c')] + [(i, PAD, i % 3) for i in range(n)])
        _FILEDATA[(kind, n)] = d
    return _FILEDATA[(kind, n)]


FILE_CASES = [
    ('fromcsv', 'csv', S('fromcsv', ('@X', 0), encoding='ascii')),
    ('fromcsv-header', 'csv', S('fromcsv', ('@X', 0), encoding='ascii', header=['p', 'q', 'r'])),
    ('fromcsv-default-encoding', 'csv', S('fromcsv', ('@X', 0))),
    ('fromtsv', 'tsv', S('fromtsv', ('@X', 0), encoding='ascii')),
    ('fromcsv-delimiter', 'tsv', S('fromcsv', ('@X', 0), encoding='ascii', delimiter='\t')),
    ('frompickle', 'pickle', S('frompickle', ('@X', 0))),
    ('fromtext', 'text', S('fromtext', ('@X', 0), encoding='ascii')),
    ('fromtext-strip-chars', 'text', S('fromtext', ('@X', 0), encoding='ascii', strip=' ')),
    ('fromtext-nostrip', 'text', S('fromtext', ('@X', 0), encoding='ascii', strip=False)),
    ('fromtext-nostrip-noheader', 'text', S('fromtext', ('@X', 0), encoding='ascii', strip=False, header=None)),
    ('fromtext-header', 'text', S('fromtext', ('@X', 0), encoding='ascii', header=['t'])),
    ('fromcsv-convert-select', 'csv', S('select', V(S('convert', V(S('fromcsv', ('@X', 0), encoding='ascii')), 'a', F('int'))),
                                        '{c} == "0"')),
    ('fromtext-nostrip-convert-head', 'text', S('head', V(S('convert', V(S('fromtext', ('@X', 0), encoding='ascii',
                                                                          strip=False)), 'lines', 'strip')), 40)),
    ('frompickle-cut', 'pickle', S('cut', V(S('frompickle', ('@X', 0))), 'c', 'a')),
]
FILE_SIZES = (100, 10000)
BYTE_BOUND = 4 * 8192


def _file_inputs(tier, seed):
    return FILE_CASES


@group('files', _file_inputs)
def files(inp):
    label, kind, spec = inp
    nb, rows = {}, {}
    for n in FILE_SIZES:
        src = CountingSource(_filedata(kind, n))
        view = Resolver(extra=lambda i: src).build(spec)
        expect(src.nopen == 0 and src.nbytes == 0, label + '/construction-opens-source', (0, 0), (src.nopen, src.nbytes))
        it = iter(view)
        got = []
        nb[n], rows[n] = {}, {}
        for k in KS:
            while len(got) < k + 1:
                got.append(next(it))
            nb[n][k] = src.nbytes
            rows[n][k] = list(got)
        del it
    a, b = FILE_SIZES
    for k in KS:
        expect(rows[a][k] == rows[b][k], label + '/rows-differ-between-source-lengths', rows[a][k], rows[b][k])
        expect(nb[a][k] == nb[b][k], label + '/bytes-depend-on-source-length', nb[a][k], nb[b][k],
               'bytes read for header + %d data rows: %d-line file %d, %d-line file %d' % (k, a, nb[a][k], b, nb[b][k]))
        expect(nb[b][k] <= BYTE_BOUND, label + '/bytes-exceed-read-ahead', '<= %d' % BYTE_BOUND, nb[b][k])
