"""C01 bounded stand-in: every table view is re-iterable and its iterators are mutually independent.

Specification (from the property statement and docs/intro.rst "table containers and table iterators", not from the
code): for a view v and any schedule of events  iter(v) / next(it_j) / drop it_j / "a complete fresh pass", every
row an iterator returns is the row at the same position of the SOLO pass of a freshly built identical view, every
iterator ends exactly where the solo pass ends, and every complete pass (in the middle or after the schedule) equals the
solo pass.  The check enumerates ALL such schedules within the bound, for a catalogue of view constructors, each view
being rebuilt from its literal description for every schedule.
"""
import atexit, os, pickle, shutil, sqlite3, tempfile
from .common import group, expect, Fail, sample
from .specutil import Resolver, S, T, F, V

RULE = ('one case = (view description, schedule); the view is rebuilt from the literal description, the schedule (a '
        'sequence of events i<j>=iter(view), n<j>=next(it_j), d<j>=drop it_j, f=complete fresh pass; iterators numbered '
        'in creation order) is replayed on it and followed by a fresh pass; every prefix of every interleaving is a '
        'schedule of its own (= abandonment at every point); distinct = distinct (view, schedule) pairs')
BOUND = {
    'quick': 'ALL schedules of <= 2 live iterators, up to and including exhaustion, within: every view constructor of the '
             'catalogue (~150 plain views) on sources of 1 data row with drop events and of 2 data rows without; the '
             'cache-carrying constructors (sort with memory cache and with file cache buffersize=1, hash joins cache=True, '
             'cache(), randomtable, dummytable, and views stacked on them) additionally on 2 data rows with one complete '
             'pass inserted at any point (= a third iterator run atomically) and on 3 data rows without drops; the other '
             'temp-file variants (sort buffersize=2 / reverse / no key, head-of-sort, sort-of-sort, fromdicts(generator)) '
             'on 1 data row with drops, 1 data row with an inserted pass, 2 data rows without drops (fromdicts(generator) '
             'also 3 data rows)',
    'thorough': 'quick + every view: 0 and 2 data rows with drops, ALL schedules of 3 live iterators on 1 data row; '
                'cache-carrying: 3 data rows with drops, 3 data rows with an inserted pass, 2 data rows with drops and an '
                'inserted pass, and a seeded sample of 20000 of the 405870 schedules of 3 iterators on 2 data rows; '
                'temp-file variants: 2 data rows with drops, 2 data rows with an inserted pass, 3 data rows',
}


# petl's own spill files (buffered sort, fromdicts(generator)) go to tempfile.gettempdir(): point it at a private
# directory on a RAM disk when there is one (3x faster, nothing else changes) and remove it at exit
_TMP = None
if os.path.isdir('/dev/shm') and os.access('/dev/shm', os.W_OK):
    _TMP = tempfile.mkdtemp(prefix='bcheck_c01_', dir='/dev/shm')
    tempfile.tempdir = _TMP
    atexit.register(shutil.rmtree, _TMP, True)


# ------------------------------------------------------------------------------------------------ schedules

_SCHED = {}


def schedules(nnext, niter, midpass, drops):
    """every schedule in which each of <= niter iterators is created, advanced <= nnext times and possibly dropped,
    with at most one complete pass 'f' inserted (never as the last event: a fresh pass always follows)"""
    key = (nnext, niter, midpass, drops)
    if key in _SCHED:
        return _SCHED[key]
    out = []

    def rec(prefix, st, used_f):
        if not prefix or prefix[-1] != 'f':
            out.append(','.join(prefix))
        for j, (k, dropped) in enumerate(st):
            if dropped:
                continue
            if k < nnext:
                rec(prefix + ['n%d' % j], st[:j] + [(k + 1, False)] + st[j + 1:], used_f)
            if drops:
                rec(prefix + ['d%d' % j], st[:j] + [(k, True)] + st[j + 1:], used_f)
        if len(st) < niter:
            rec(prefix + ['i%d' % len(st)], st + [(0, False)], used_f)
        if midpass and not used_f and prefix:
            rec(prefix + ['f'], st, True)

    rec([], [], False)
    _SCHED[key] = out
    return out


def late_start(events):
    """schedule shape: some iterator takes its first step only after another iterator of the same view (or a complete
    pass) has been advanced since it was obtained from iter()"""
    waiting, overtaken = set(), set()
    for ev in events:
        if ev == 'f':
            overtaken |= waiting
        elif ev[0] == 'i':
            waiting.add(int(ev[1:]))
        elif ev[0] == 'n':
            j = int(ev[1:])
            if j in waiting:
                if j in overtaken:
                    return True
                waiting.discard(j)
            overtaken |= waiting
        elif ev[0] == 'd':
            waiting.discard(int(ev[1:]))
    return False


# ------------------------------------------------------------------------------------------------ the views

ROWS_A = [(2, 'b', 20), (1, 'a', 10), (3, 'c', 30)]
ROWS_B = [(1, 'x'), (2, 'y'), (3, 'z')]
ROWS_K = [(1, 3), (2, 2), (3, 1)]          # sorted by 'b' is the reverse of the native row order
ROWS_TXT = [(1, 'a-b'), (2, 'c-d'), (3, 'e-f')]
ROWS_D = [(1, 'a', 1), (1, 'a', 1), (1, 'b', 2)]   # duplicates / conflicts
ROWS_L = [(1, [1, 2]), (2, [3, 4]), (3, [5, 6])]
ROWS_M = [(1, 'x', 5), (1, 'y', 6), (2, 'x', 7)]   # long format for recast / pivot
ROWS_G = [(None, 1, None), (2, None, None), (None, None, 3)]


def _pk(rows):
    return b''.join(pickle.dumps(r, 2) for r in rows)


def catalogue(n):
    """(family, label, spec, cost class) for sources of n data rows; family 'plain' or a cache-carrying family"""
    a = T([('id', 's', 'v')] + ROWS_A[:n])
    b = T([('id', 'w')] + ROWS_B[:n])
    b1 = T([('id', 'w')] + [(9, 'q')] + ROWS_B[:max(n - 1, 0)])         # one id of `a` is missing, 9 matches nothing
    k = T([('a', 'b')] + ROWS_K[:n])
    txt = T([('id', 't')] + ROWS_TXT[:n])
    d = T([('id', 's', 'v')] + ROWS_D[:n])
    lst = T([('id', 'l')] + ROWS_L[:n])
    dct = T([('id', 'd')] + [(i, {'p': i, 'q': -i}) for i in range(1, n + 1)])
    m = T([('id', 'variable', 'value')] + ROWS_M[:n])
    g = T([('x', 'y', 'z')] + ROWS_G[:n])
    cmt = T([('id', 's')] + [('#c', 'x')] + [(i, 'r') for i in range(n)])
    dicts = [{'id': r[0], 's': r[1]} for r in ROWS_A[:n]]
    hdr = ('id', 's', 'v')
    c = []

    def add(label, spec, fam='plain', cost='plain'):
        c.append((fam, label, spec, cost))

    # ---- petl/transform/basics.py
    add('cut', S('cut', a, 'v', 'id'))
    add('cutout', S('cutout', a, 's'))
    add('cat', S('cat', a, b))
    add('cat-header', S('cat', a, b, header=('w', 'id', 'zz')))
    add('stack', S('stack', a, b))
    add('addfield', S('addfield', a, 'z', 9))
    add('addfield-fn', S('addfield', a, 'z', F('rec_id'), index=0))
    add('addfields', S('addfields', a, [('z', 1), ('y', F('rec_id'))]))
    add('addfieldusingcontext', S('addfieldusingcontext', a, 'z', F('ctx')))
    add('addrownumbers', S('addrownumbers', a))
    add('addcolumn', S('addcolumn', a, 'z', [7, 8, 9][:n]))
    add('annex', S('annex', a, b))
    add('head', S('head', a, 1))
    add('tail', S('tail', a, 2))
    add('rowslice', S('rowslice', a, 0, 3, 2))
    add('movefield', S('movefield', a, 'v', 0))
    add('skipcomments', S('skipcomments', cmt, '#'))
    # ---- conversions
    add('convert', S('convert', a, 's', 'upper'))
    add('convert-dict', S('convert', a, 's', {'a': 'A'}))
    add('convert-where', S('convert', a, 'v', F('inc'), where=F('row_first_truthy')))
    add('convert-passrow', S('convert', a, 'v', F('val_row'), pass_row=True))
    add('convert-multi', S('convert', a, {'s': 'upper', 'v': F('inc')}))
    add('convertall', S('convertall', a, F('str')))
    add('convertnumbers', S('convertnumbers', txt))
    add('replace', S('replace', a, 's', 'a', 'A'))
    add('replaceall', S('replaceall', a, 'a', 'A'))
    add('update', S('update', a, 's', 'q'))
    add('format', S('format', a, 'v', '{:03d}'))
    add('formatall', S('formatall', a, '<{}>'))
    add('interpolate', S('interpolate', a, 'v', '%05d'))
    add('interpolateall', S('interpolateall', a, '[%s]'))
    # ---- dedup
    add('duplicates', S('duplicates', d, 'id'))
    add('unique', S('unique', a, 'id'))
    add('conflicts', S('conflicts', d, 'id'))
    add('distinct', S('distinct', d))
    add('distinct-key-count', S('distinct', d, 'id', count='n'))
    # ---- fills
    add('filldown', S('filldown', g))
    add('fillright', S('fillright', g))
    add('fillleft', S('fillleft', g))
    # ---- headers
    add('rename', S('rename', a, 's', 'S'))
    add('setheader', S('setheader', a, ['p', 'q', 'r']))
    add('extendheader', S('extendheader', T([('id',)] + ROWS_A[:n]), ['q', 'r']))
    add('pushheader', S('pushheader', T(ROWS_A[:max(n, 1)]), ['p', 'q', 'r']))
    add('skip', S('skip', T([('junk',)] + [('id', 's', 'v')] + ROWS_A[:n]), 1))
    add('prefixheader', S('prefixheader', a, 'p_'))
    add('suffixheader', S('suffixheader', a, '_s'))
    add('sortheader', S('sortheader', a))
    # ---- sort-merge joins
    add('join', S('join', a, b, key='id'))
    add('join-natural', S('join', a, b))
    add('join-buffered', S('join', a, b, key='id', buffersize=1))
    add('leftjoin', S('leftjoin', a, b1, key='id'))
    add('rightjoin', S('rightjoin', a, b1, key='id'))
    add('outerjoin', S('outerjoin', a, b1, key='id'))
    add('antijoin', S('antijoin', a, b1, key='id'))
    add('crossjoin', S('crossjoin', T([('id',)] + [(r[0],) for r in ROWS_A[:n]]), T([('w',), ('x',)])))
    add('lookupjoin', S('lookupjoin', a, b, key='id'))
    add('unjoin-0', S('unjoin#0', a, 's', key='id'))
    add('unjoin-1', S('unjoin#1', a, 's', key='id'))
    add('unjoin-auto-0', S('unjoin#0', a, 's'))
    add('unjoin-auto-1', S('unjoin#1', a, 's'))
    # ---- maps
    add('fieldmap', S('fieldmap', a, {'ID': 'id', 'S': ('s', F('upper')), 'n': F('rec_id')}))
    add('rowmap', S('rowmap', a, F('row_rev'), header=['v', 's', 'id']))
    add('rowmapmany', S('rowmapmany', T([('id', 's')] + [r[:2] for r in ROWS_A[:max(n - 1, 0) if n > 1 else n]]),
                        F('row_two'), header=['id', 's']))
    add('rowgroupmap', S('rowgroupmap', a, 'id', F('grp'), header=['id', 'n']))
    # ---- reductions
    add('aggregate', S('aggregate', a, 'id', F('len')))
    add('aggregate-value', S('aggregate', a, 'id', F('sum'), 'v'))
    add('aggregate-multi', S('aggregate', a, 'id', {'n': F('len'), 'vs': ('v', F('list'))}))
    add('aggregate-nokey', S('aggregate', a, None, F('len')))
    add('rowreduce', S('rowreduce', a, 'id', F('red_len'), header=['id', 'n']))
    add('fold', S('fold', a, 'id', F('fold_add'), value=0))
    add('groupcountdistinctvalues', S('groupcountdistinctvalues', a, 'id', 's'))
    add('groupselectfirst', S('groupselectfirst', a, 'id'))
    add('groupselectlast', S('groupselectlast', a, 'id'))
    add('groupselectmin', S('groupselectmin', a, 'id', 'v'))
    add('groupselectmax', S('groupselectmax', a, 'id', 'v'))
    add('mergeduplicates', S('mergeduplicates', d, 'id'))
    add('merge', S('merge', a, b, key='id'))
    # ---- regex
    add('capture', S('capture', txt, 't', '(\\w)-(\\w)', ['p', 'q']))
    add('split', S('split', txt, 't', '-', ['p', 'q']))
    add('splitdown', S('splitdown', T([('id', 't')] + ROWS_TXT[:max(n - 1, 0) if n > 1 else n]), 't', '-'))
    add('sub', S('sub', txt, 't', '-', '+'))
    add('search', S('search', txt, 't', '-'))
    add('search-any', S('search', txt, '\\w'))
    add('searchcomplement', S('searchcomplement', txt, 't', 'zz'))
    # ---- reshape
    add('melt', S('melt', T([('id', 's')] + [r[:2] for r in ROWS_A[:n]]), 'id'))
    add('recast', S('recast', m))
    add('pivot', S('pivot', m, 'id', 'variable', 'value', F('sum')))
    add('transpose', S('transpose', T([('id', 's')] + [r[:2] for r in ROWS_A[:n]])))
    add('flatten', S('flatten', T([('id',)] + [(r[0],) for r in ROWS_A[:n]])))
    add('unflatten', S('unflatten', [1, 2, 3, 4, 5, 6][:2 * n], 2))
    # ---- selects
    add('select-fn', S('select', a, F('row_true')))
    add('select-expr', S('select', a, '{id} > 0'))
    add('select-field', S('select', a, 'id', F('truthy')))
    add('select-complement', S('select', a, F('row_first_truthy'), complement=True))
    add('selecteq', S('selecteq', a, 's', 'zz', complement=True))
    add('selectne', S('selectne', a, 's', 'zz'))
    add('selectgt', S('selectgt', a, 'id', 0))
    add('selectin', S('selectin', a, 'id', [1, 2, 3]))
    add('selectnotnone', S('selectnotnone', a, 'id'))
    add('selectrangeclosed', S('selectrangeclosed', a, 'id', 0, 9))
    add('selectisinstance', S('selectisinstance', a, 'id', F('int')))
    add('selectusingcontext', S('selectusingcontext', a, F('ctx_sel')))
    add('rowlenselect', S('rowlenselect', a, 3))
    add('biselect-0', S('biselect#0', a, F('row_first_truthy')))
    add('biselect-1', S('biselect#1', a, 'id', F('isint'), complement=True))
    add('facet', S('facet#a', T([('id', 's', 'v')] + [(r[0], 'a', r[2]) for r in ROWS_A[:n]]), 's'))
    # ---- setops
    add('complement', S('complement', b, b1))
    add('intersection', S('intersection', b, b))
    add('diff-0', S('diff#0', b, b1))
    add('diff-1', S('diff#1', b, b1))
    add('hashcomplement', S('hashcomplement', b, b1))
    add('hashintersection', S('hashintersection', b, b))
    add('recordcomplement', S('recordcomplement', b, b1))
    add('recorddiff-1', S('recorddiff#1', b, b1))
    # ---- sorts (uncached), mergesort, unpack, validate, containers of petl.util.base
    add('sort-nocache', S('sort', a, 'id', cache=False))
    add('sort-nocache-buffered', S('sort', a, 'id', cache=False, buffersize=1))
    add('mergesort', S('mergesort', a, a, key='id'))
    add('mergesort-presorted', S('mergesort', b, b, key='id', presorted=True))
    add('unpack', S('unpack', lst, 'l', ['p', 'q']))
    add('unpackdict', S('unpackdict', dct, 'd'))
    add('unpackdict-keys', S('unpackdict', dct, 'd', keys=['q', 'p']))
    add('validate', S('validate', a, constraints=[{'name': 'neg', 'field': 'id', 'assertion': ('@F', 'isint')},
                                                  {'name': 'str', 'field': 's', 'test': ('@F', 'int')}], header=hdr))
    add('data', S('data', a))
    add('values', S('values', a, 's'))
    add('values-multi', S('values', a, 'id', 'v'))
    add('dicts', S('dicts', a))
    add('records', S('records', a))
    add('namedtuples', S('namedtuples', a))
    add('header-container', S('wrap', a))
    add('empty-addcolumn', S('addcolumn', V(S('empty')), 'z', [1, 2, 3][:n]))
    add('fromcolumns', S('fromcolumns', [[1, 2, 3][:n], ['a', 'b', 'c'][:n]], header=['id', 's']))
    add('valuecounts', S('valuecounts', T([('s',)] + [('a',), ('b',), ('b',)][3 - n:] if n else [('s',)]), 's'))
    add('typecounts', S('typecounts', a, 'id'))
    add('rowlengths', S('rowlengths', a))
    add('stringpatterns', S('stringpatterns', txt, 't'))
    add('parsecounts', S('parsecounts', txt, 't'))
    add('progress', S('progress', a, 1, out=('@O',)))
    add('clock', S('clock', a))
    # ---- extractors
    csvb = ('id,s,v\n' + ''.join('%s,%s,%s\n' % r for r in ROWS_A[:n])).encode('ascii')
    add('fromcsv', S('fromcsv', ('@M', csvb)))
    add('fromcsv-header', S('fromcsv', ('@M', csvb), header=['p', 'q', 'r']))
    add('fromtsv', S('fromtsv', ('@M', csvb.replace(b',', b'\t'))))
    add('frompickle', S('frompickle', ('@M', _pk([hdr] + ROWS_A[:n]))))
    add('fromtext', S('fromtext', ('@M', csvb)))
    add('fromtext-nostrip', S('fromtext', ('@M', csvb), strip=False, header=None))
    jsb = ('[' + ', '.join('{"id": %d, "s": "%s"}' % r[:2] for r in ROWS_A[:n]) + ']').encode('ascii')
    add('fromjson', S('fromjson', ('@M', jsb), header=['id', 's']))
    add('fromjson-lines', S('fromjson', ('@M', b'\n'.join(('{"id": %d, "s": "%s"}' % r[:2]).encode('ascii')
                                                          for r in ROWS_A[:n])), header=['id', 's'], lines=True))
    add('fromdicts-list', S('fromdicts', dicts, header=['id', 's']))
    add('fromdicts-list-noheader', S('fromdicts', dicts) if n else S('fromdicts', dicts, header=['id', 's']))
    add('fromdb', S('fromdb', ('@X', n), 'select * from t order by id'))
    add('fromdb-cursor-fn', S('fromdb', ('@X', -1 - n), 'select * from t order by id'))
    # ---- compositions of plain views
    add('cut-of-select-of-convert', S('cut', V(S('select', V(S('convert', a, 's', 'upper')), F('row_true'))), 's', 'id'))
    add('join-of-views', S('join', V(S('cut', a, 'id', 's')), V(S('addfield', b, 'z', 1)), key='id'))

    # ======== cache-carrying constructors (named by the property); cost class 'state' (cheap) or 'file' (temp files)
    add('sort-memcache', S('sort', k, 'b'), 'sort', 'state')
    add('sort-memcache-nokey', S('sort', a), 'sort', 'state')
    add('sort-memcache-reverse', S('sort', k, 'a', reverse=True), 'sort', 'state')
    add('sort-memcache-bigbuffer', S('sort', k, 'b', buffersize=n + 1), 'sort', 'state')
    add('cut-of-sort-memcache', S('cut', V(S('sort', k, 'b')), 'b'), 'sort', 'state')
    add('sort-filecache-1', S('sort', k, 'b', buffersize=1), 'sort', 'state')     # the file cache in full depth
    if n >= 2:
        add('sort-filecache-2', S('sort', k, 'b', buffersize=2), 'sort', 'file')
    add('sort-filecache-nokey', S('sort', a, buffersize=1), 'sort', 'file')
    add('sort-filecache-reverse', S('sort', k, 'a', buffersize=1, reverse=True), 'sort', 'file')
    add('head-of-sort-filecache', S('head', V(S('sort', k, 'b', buffersize=1)), 1), 'sort', 'file')
    add('sort-of-sort', S('sort', V(S('sort', k, 'b', buffersize=1)), 'a'), 'sort', 'file')
    for nm in ('hashjoin', 'hashleftjoin', 'hashrightjoin', 'hashantijoin', 'hashlookupjoin'):
        right = b1 if nm in ('hashantijoin', 'hashleftjoin', 'hashrightjoin') else b
        if nm in ('hashantijoin', 'hashlookupjoin'):        # no cache argument
            add(nm, S(nm, a, right, key='id'))
            continue
        add(nm + '-cached', S(nm, a, right, key='id', cache=True), 'hashjoin', 'state')
        add(nm + '-uncached', S(nm, a, right, key='id', cache=False))
    add('hashjoin-natural-cached', S('hashjoin', a, b), 'hashjoin', 'state')
    add('hashleftjoin-cached-of-sort', S('hashleftjoin', V(S('sort', a, 'id')), V(S('sort', b1, 'id')), key='id'),
        'hashjoin', 'state')
    add('cache', S('util.materialise.cache', a), 'cache', 'state')
    add('cache-n1', S('util.materialise.cache', a, n=1), 'cache', 'state')
    add('cache-n2', S('util.materialise.cache', a, n=2), 'cache', 'state')
    add('cache-of-select', S('util.materialise.cache', V(S('select', a, F('row_true')))), 'cache', 'state')
    add('cut-of-cache', S('cut', V(S('util.materialise.cache', a)), 'id'), 'cache', 'state')
    add('fromdicts-generator', S('fromdicts', ('@G', dicts), header=['id', 's']), 'fromdicts', 'filegen')
    add('fromdicts-generator-missing', S('fromdicts', ('@G', dicts), header=['s', 'zz', 'id'], missing='-'),
        'fromdicts', 'filegen')
    if n:
        add('fromdicts-generator-noheader', S('fromdicts', ('@G', dicts)), 'fromdicts', 'filegen')
        add('fromdicts-generator-sample1', S('fromdicts', ('@G', dicts), sample=1), 'fromdicts', 'filegen')
    add('select-of-fromdicts-generator', S('select', V(S('fromdicts', ('@G', dicts), header=['id', 's'])),
                                           F('row_true')), 'fromdicts', 'filegen')
    add('randomtable', S('randomtable', 2, n, seed=42), 'random', 'state')
    add('randomtable-strseed', S('randomtable', 1, n, seed='x'), 'random', 'state')
    add('dummytable', S('dummytable', n, seed=42), 'random', 'state')
    add('dummytable-fields', S('dummytable', n, fields=[('k', ('@F', 'rnd'))], seed=7), 'random', 'state')
    add('cut-of-dummytable', S('cut', V(S('dummytable', n, seed=42)), 'foo'), 'random', 'state')
    return c


FAMILIES = ('plain', 'sort', 'hashjoin', 'cache', 'fromdicts', 'random')



def _extra(i):
    """('@X', n>=0): sqlite3 connection holding n rows; ('@X', -1-n): a function returning a fresh cursor"""
    n = i if i >= 0 else -1 - i
    con = sqlite3.connect(':memory:')
    con.execute('create table t (id integer, s text)')
    for r in ROWS_A[:n]:
        con.execute('insert into t values (?, ?)', r[:2])
    con.commit()
    if i >= 0:
        return con
    return lambda: con.cursor()


def build(spec):
    return Resolver(extra=_extra).build(spec)


def solo_pass(spec):
    return [r for r in build(spec)]


_SOLO = {}


def solo_of(spec):
    """the solo pass of a freshly built view, computed once per view description (that two freshly built identical
    views agree is checked by the 'catalogue' group); None if the solo pass itself fails"""
    key = repr(spec)
    if key not in _SOLO:
        try:
            _SOLO[key] = solo_pass(spec)
        except Exception:
            _SOLO[key] = None
    return _SOLO[key]


def _solo_len(spec):
    s = solo_of(spec)
    return None if s is None else len(s)


# ------------------------------------------------------------------------------------------------ the check

def check(inp):
    label, spec, sched = inp
    events = sched.split(',') if sched else []
    solo = solo_of(spec)
    if solo is None:
        # a view whose plain single pass fails (e.g. an operator that cannot take a header-only table) says nothing
        # about independence; the catalogue itself is validated by the 'catalogue' group
        return
    tag = '/late-start' if late_start(events) else ''
    v = build(spec)
    its, pos, done = {}, {}, {}

    def diverged(what, expected, observed):
        raise Fail('%s/not-independent%s' % (label, tag), expected, observed, what)

    def full_pass(what):
        try:
            rows = [r for r in v]
        except Exception as e:
            raise Fail('%s/raises/%s%s' % (label, type(e).__name__, tag), solo, repr(e), what + ' raised')
        if rows != solo:
            diverged(what + ' differs from the solo pass', solo, rows)

    for ev in events:
        if ev == 'f':
            full_pass('a complete pass in the middle of the schedule')
            continue
        j = int(ev[1:])
        if ev[0] == 'i':
            try:
                its[j] = iter(v)
            except Exception as e:
                raise Fail('%s/raises/%s%s' % (label, type(e).__name__, tag), None, repr(e), 'iter() raised')
            pos[j] = 0
        elif ev[0] == 'd':
            it = its.pop(j)     # the last reference goes: a generator is closed (GeneratorExit at its yield) right here
            del it
        else:
            if done.get(j):
                continue
            try:
                row = next(its[j])
            except StopIteration:
                done[j] = True
                if pos[j] != len(solo):
                    diverged('iterator %d ended after %d items' % (j, pos[j]), solo, solo[:pos[j]])
                continue
            except Exception as e:
                raise Fail('%s/raises/%s%s' % (label, type(e).__name__, tag), solo[pos[j]:pos[j] + 1], repr(e),
                           'next() of iterator %d raised at item %d' % (j, pos[j]))
            if pos[j] >= len(solo) or row != solo[pos[j]]:
                diverged('iterator %d, item %d' % (j, pos[j]), solo[pos[j]:pos[j] + 1], row)
            pos[j] += 1
    full_pass('the fresh pass after the schedule')
    if its and any(not done.get(j) for j in its):
        # the suspended iterators are dropped now (generators are closed); one more pass must still be the same
        its.clear()
        full_pass('a second fresh pass after all iterators were dropped')


# schedule sets per cost class: (n data rows, live iterators, inserted complete pass, drop events, sample size)
PLANS = {
    'quick': {
        'plain': [(1, 2, False, True, None), (2, 2, False, False, None)],
        'state': [(1, 2, False, True, None), (2, 2, False, False, None), (2, 2, True, False, None),
                  (3, 2, False, False, None)],
        'file': [(1, 2, False, True, None), (1, 2, True, False, None), (2, 2, False, False, None)],
        'filegen': [(1, 2, False, True, None), (1, 2, True, False, None), (2, 2, False, False, None),
                    (3, 2, False, False, None)],
    },
    'thorough': {
        'plain': [(0, 2, False, True, None), (2, 2, False, True, None), (1, 3, False, False, None)],
        'state': [(0, 2, False, True, None), (2, 2, False, True, None), (3, 2, False, True, None),
                  (3, 2, True, False, None), (2, 2, True, True, None), (1, 3, False, False, None),
                  (2, 3, False, False, 20000)],
        'file': [(0, 2, False, True, None), (2, 2, False, True, None), (2, 2, True, False, None),
                 (3, 2, False, False, None), (1, 3, False, False, None)],
        'filegen': [(0, 2, False, True, None), (2, 2, False, True, None), (2, 2, True, False, None),
                    (3, 2, False, True, None), (1, 3, False, False, None)],
    },
}


def _inputs_for(fam, tier, seed):
    cats = dict((n, [e for e in catalogue(n) if e[0] == fam]) for n in (0, 1, 2, 3))
    tiers = ['quick', 'thorough'] if tier == 'thorough' else ['quick']
    for n in (0, 1, 2, 3):
        for _, label, spec, cost in cats[n]:
            plans = []
            for t in tiers:
                for pl in PLANS[t][cost]:
                    if pl[0] == n and pl not in plans:
                        plans.append(pl)
            if not plans:
                continue
            ln = _solo_len(spec)
            if ln is None:
                continue
            for _, niter, midpass, drops, k in plans:
                # views that multiply rows (crossjoin, melt ...) are capped at the step count of a 1:1 view of this
                # size, so the number of schedules per view is the same; the smaller sizes reach their exhaustion
                nnext = min(ln + 1, n + 2)
                sch = schedules(nnext, niter, midpass, drops)
                if k is not None:
                    sch, _ = sample(sch, k, seed)
                for sc in sch:
                    yield (label, spec, sc)


def _mk(fam):
    def inputs(tier, seed):
        return _inputs_for(fam, tier, seed)

    @group('sched.' + fam, inputs)
    def _check(inp):
        check(inp)
    return _check


for _fam in FAMILIES:
    _mk(_fam)


def _cat_inputs(tier, seed):
    for n in (1, 2, 3):
        for fam, label, spec, cost in catalogue(n):
            yield (label, n, spec)


@group('catalogue', _cat_inputs)
def catalogue_valid(inp):
    """the catalogue itself: every view description builds, its solo pass succeeds on sources of >= 1 data row, starts
    with a header, and two freshly built identical views give the same solo pass (otherwise the oracle is void)"""
    label, n, spec = inp
    try:
        s1 = solo_pass(spec)
        s2 = solo_pass(spec)
    except Exception as e:
        raise Fail('%s/solo-pass-raises/%s' % (label, type(e).__name__), None, repr(e))
    expect(s1 == s2, label + '/rebuilt-view-differs', s1, s2)
    expect(len(s1) >= 1, label + '/no-header', None, s1)
